"""C01 — the meta-model front end never crashes.

Gen: guarded positional-argument reads of _parse_constant_set/_parse_constant_primitive and the
stage skeleton of run.load_model.  Correspondence: IndexError behaviour of the real front end on
constant declarations with n positional arguments vs Model.FrontEnd.readArgs; load_model outcome vs
Model.FrontEnd.load on the first failing stage.  Oracle: crash oracle (run.load_model and main.execute
in-process under ``except BaseException``) over

* the corpus (witnesses of the repaired crashes) and every fixture of the repository,
* an ENUMERATED, seed independent part (`enumerated_cases`): targeted constructs (constant argument shapes,
  near-miss regex patterns in pattern functions, degenerate invariants, raw snippets), hand-written probes
  (harness/c01_probes.py) and role x catalogue over small valid base models (harness/ast_mutate.py: every
  construct class of the catalogues -- expressions of every ``ast`` class, type annotations, statements,
  decorators, argument lists, bases, literals, docstrings, names -- in every role the front end dispatches on),
* SEEDED parts: token-level mutants of the fixtures, positional AST mutants and role mutants (35% with a second
  construct in another role) of valid models (fixtures that load, generated models, the rich base), byte garbage.
"""
from __future__ import annotations

import io
import itertools
import os
import pathlib
import re
import tokenize
import traceback
from typing import Any, Dict, Iterator, List, Optional, Tuple

from harness.core import REPO, Ctx, corpus, crash_name, show

ID = "C01"
GEN = ["FrontEnd"]
LEAN_PROPS = ["AasVerif.Props.C01", "AasVerif.Props.C01Cores"]

TAIL = '\n\n__version__ = "dummy"\n__xml_namespace__ = "https://dummy.com"\n'

HEADLINE_TO_STAGE = [
    ("Failed to parse the meta-model", "parse.source_to_atok"),
    ("One or more unexpected imports", "parse.check_expected_imports"),
    ("Failed to construct the symbol table", "parse.atok_to_symbol_table"),
    ("Failed to translate the parsed symbol table", "intermediate.translate"),
]

TOO_DEEP_HEADLINE = "Failed to understand the meta-model"

NEAR_MISS_PATTERNS = [
    "^*$", "{", "a{", "a{2", "a{2,1}", "a{,}", "a{ 1 }", "[^\\U0001F600]", "[--a]", "[a-b-c]", "a{\u00b2}", "[]", "[^]", "[\\^-a]",
    "(", ")", "(a", "a)", "a|", "|", "a**", "a+*", "?", "+", "\\", "a\\", "[a", "[a-", "[z-a]", "\\x4", "\\u12", "\\U0001",
    "^a^b$", "^a*?$", "^(a*)*$", "^$", "a$b", "^\\d+$", "^[\\d]$", "^(?:a)$", "^(?P<n>a)$", "^a{1,2}{3}$", ".", "^.*$", "^\\.$",
    "^[\ud800]$", "^\U0001F600$", "^[a-\U0001F600]$", "^a{0}$", "^a{0,}$", "^a{,3}$", "^\\x00$", "^[\\x00-\\x1f]$", "^\\$",
    "\n", "a\n", "^a$\n", "\n^a$", "*", "* a", "^a{4294967296}$", "^a{4294967295}$", "^a{99999999999999999999}$", "^a{1,4294967296}$", "^(?i)a$", "^\\1$",
    "^(a)\\1$", "^(?#c)a$", "^(?=a)a$", "^(?<=a*)b$", "^(?P<a>x)(?P<a>y)$", "^\\d\\w\\s\\b$", "^\\A\\Z$", "^[[:alpha:]]$", "^\\p{L}$", "^\\N{DASH}$", "^a\\", "^\\ud800$",
]


# --------------------------------------------------------------------------- running the real front end


def _site(exc: BaseException) -> str:
    tb = traceback.extract_tb(exc.__traceback__)
    inner = None
    for fr in tb:
        if str(REPO / "aas_core_codegen") in fr.filename:
            inner = fr
    if inner is None:
        return "outside-repo"
    rel = pathlib.Path(inner.filename).relative_to(REPO / "aas_core_codegen")
    return f"{rel}:{inner.name}"


_VIOLATED_IN_RE = re.compile(r"^File .*, line \d+ in ([^:\n]+):")


def _site_of(e: BaseException) -> str:
    """Raising site inside the repository; for a violated contract also the function/class that declares the contract."""
    site = _site(e)
    if type(e).__name__ == "ViolationError":
        m = _VIOLATED_IN_RE.match(str(e))
        if m:
            site += ":" + m.group(1).strip()
    return site


# nesting depths beyond which a RecursionError is attributed to the depth of the input (known finding C01-F1): depth of the Python AST or
# length of an inheritance chain; nesting of parentheses inside a string literal (a pattern: the regex visitors need ~11 frames per group)
DEEP = 200
DEEP_PATTERN = 50


def max_nesting(text: str) -> Tuple[int, int]:
    """(largest of: depth of the Python AST, length of an inheritance chain; deepest nesting of parentheses inside a string literal).

    Computed without recursion.  A RecursionError of the front end on an input that is NOT deeply nested in this sense would be a
    different defect (a genuinely unbounded recursion), so it keeps its site specific sig."""
    import ast as _ast

    try:
        tree = _ast.parse(text)
    except RecursionError:
        return 10 ** 6, 0
    except (SyntaxError, ValueError):
        return 0, 0
    deepest = 0
    in_string = 0
    stack = [(tree, 1)]
    while stack:
        node, d = stack.pop()
        deepest = max(deepest, d)
        if isinstance(node, _ast.Constant) and isinstance(node.value, str):
            cur = 0
            for ch in node.value:
                if ch in "([{":
                    cur += 1
                    in_string = max(in_string, cur)
                elif ch in ")]}":
                    cur = max(0, cur - 1)
        for child in _ast.iter_child_nodes(node):
            stack.append((child, d + 1))
    parents = {c.name: [b.id for b in c.bases if isinstance(b, _ast.Name)] for c in tree.body if isinstance(c, _ast.ClassDef)}
    chain = {name: 1 for name in parents}
    for _ in range(len(parents)):
        changed = False
        for name, ps in parents.items():
            best = 1 + max([chain.get(q, 0) for q in ps if q != name] or [0])
            if best > chain[name] and best <= len(parents):
                chain[name] = best
                changed = True
        if not changed:
            break
    return max([deepest] + list(chain.values())), in_string


def is_deeply_nested(path: pathlib.Path) -> bool:
    try:
        a, b = max_nesting(path.read_text(encoding="utf-8", errors="surrogateescape"))
    except Exception:  # noqa
        return False
    return a > DEEP or b > DEEP_PATTERN


def load(path: pathlib.Path) -> Dict[str, Any]:
    from aas_core_codegen import run

    try:
        res = run.load_model(path)
    except RecursionError as e:
        return {"kind": "crash", "exc": "RecursionError", "site": ("deeply-nested-input" if is_deeply_nested(path) else _site_of(e)), "msg": str(e)[:200]}
    except BaseException as e:  # noqa
        return {"kind": "crash", "exc": type(e).__name__, "site": _site_of(e), "msg": str(e)[:200]}
    if res[1] is None and res[0] is not None:
        return {"kind": "table"}
    if res[0] is None and isinstance(res[1], str):
        return {"kind": "error", "msg": res[1]}
    return {"kind": "malformed", "msg": repr(res)[:200]}


def cli(path: pathlib.Path, scratch: pathlib.Path) -> Dict[str, Any]:
    import aas_core_codegen.main as m
    import tempfile

    snippets = REPO / "dev/test_data/main/jsonschema/expected/primitive_types/input/snippets"
    out, err = io.StringIO(), io.StringIO()
    saved = tempfile.tempdir
    tempfile.tempdir = str(scratch / "tmp")
    (scratch / "tmp").mkdir(exist_ok=True)
    try:
        rc = m.execute(m.Parameters(path, m.Target.JSONSCHEMA, snippets, scratch / "out"), out, err)
        return {"kind": "done", "rc": rc, "stderr": err.getvalue()}
    except RecursionError as e:
        return {"kind": "crash", "exc": "RecursionError", "site": ("deeply-nested-input" if is_deeply_nested(path) else _site_of(e)), "msg": str(e)[:200]}
    except BaseException as e:  # noqa
        return {"kind": "crash", "exc": type(e).__name__, "site": _site_of(e), "msg": str(e)[:200]}
    finally:
        tempfile.tempdir = saved


def stages_first_failing(text: str) -> Optional[str]:
    """The first stage (run separately from load_model) which fails; ``overflow:<stage>`` if it exhausts the recursion limit."""
    from aas_core_codegen import intermediate, parse

    stage = "parse.source_to_atok"
    try:
        atok, exc = parse.source_to_atok(source=text)
        if exc:
            return stage
        stage = "parse.check_expected_imports"
        if parse.check_expected_imports(atok=atok):
            return stage
        stage = "parse.atok_to_symbol_table"
        pst, error = parse.atok_to_symbol_table(atok=atok)
        if error is not None:
            return stage
        stage = "intermediate.translate"
        _, error = intermediate.translate(parsed_symbol_table=pst, atok=atok)
        if error is not None:
            return stage
    except RecursionError:
        return "overflow:" + stage
    return None


# --------------------------------------------------------------------------- inputs


def fixtures(ctx: Ctx) -> List[pathlib.Path]:
    td = REPO / "dev" / "test_data"
    ps = sorted(td.glob("**/meta_model.py")) + [p for p in sorted((td / "common_meta_models").glob("*.py")) if not p.name.startswith("aas_core_meta")]
    return ps


_BASES_CACHE: List[str] = []


def _valid_bases(ctx: Ctx, fx: List[pathlib.Path]) -> List[str]:
    """Valid (accepted) base models for the AST mutants: a rich hand-written one, small accepted fixtures, generated ones."""
    if _BASES_CACHE:
        return _BASES_CACHE
    import random as _random
    scratch = ctx.scratch()
    path = scratch / "base.py"
    out = [RICH_BASE]
    for p in fx:
        t = p.read_text(encoding="utf-8")
        if 200 < len(t) < 5000 and "unexpected" not in str(p):
            path.write_text(t, encoding="utf-8")
            if load(path)["kind"] == "table":
                out.append(t)
        if len(out) >= 25:
            break
    try:
        from harness import mm

        r = _random.Random(20260921)  # fixed: the base set is seed independent
        for _ in range(6):
            t = mm.render(mm.random_mm(r, size=3))
            path.write_text(t, encoding="utf-8")
            if load(path)["kind"] == "table":
                out.append(t)
    except Exception:  # noqa
        pass
    _BASES_CACHE.extend(out)
    return _BASES_CACHE


# Valid base models for the role based mutants.  RICH_BASE has every role at once (random streams); the small ones are cheap to load
# (no docstrings except in BASE_DOCS: a docstring costs a docutils run) and together contain every role (enumerated stream).
RICH_BASE = '''"""Provide a meta-model, see :class:`A`."""


class Kind(Enum):
    """Represent a kind."""

    One = "one"
    """First, see :attr:`Two`."""

    Two = "two"


@invariant(lambda self: len(self) > 0, "Code is non-empty.")
class Code(str, DBC):
    """Represent a code."""


@abstract
@serialization(with_model_type=True)
class A(DBC):
    """
    Represent A, see :class:`B` and :attr:`x`.

    :constraint AASd-001:
        Some constraint.
    """

    x: int
    """Some x, see :const:`Some_text`."""

    y: Optional[List[str]]

    def __init__(self, x: int, y: Optional[List[str]] = None) -> None:
        self.x = x
        self.y = y


@invariant(lambda self: not (self.y is not None) or len(self.y) >= 1, "Y is either not set or non-empty.")
@invariant(lambda self: len(self.z) > 0 and matches_something(self.z), "Z is non-empty and matches.")
@invariant(lambda self: self.kind is None or self.kind in Some_kinds, "Kind is in the set.")
@invariant(lambda self: all(len(item) < 5 for item in self.codes), "Codes are short.")
@invariant(lambda self: is_positive(self.x), "X is positive.")
class B(A):
    z: str
    codes: List[Code]
    kind: Optional[Kind]

    @require(lambda x: x > 0, "X is positive.")
    def __init__(self, x: int, z: str, codes: List[Code], y: Optional[List[str]] = None, kind: Optional[Kind] = None) -> None:
        A.__init__(self, x, y)
        self.z = z
        self.codes = codes
        self.kind = kind if kind is not None else Kind.One

    @require(lambda a: a > 0)
    @snapshot(lambda self: self.x, name="old_x")
    @ensure(lambda result, OLD: result or OLD.old_x > 0)
    @implementation_specific
    def do_something(self, a: int, b: Kind = Kind.One) -> bool:
        """
        Do something.

        :param a: to be used, see :paramref:`b`
        :param b: to be ignored
        :returns: something
        """

    def is_big(self) -> bool:
        """Check the size."""
        return self.x > 10


@verification
def matches_something(text: str) -> bool:
    """Check that :paramref:`text` matches."""
    prefix = "[a-z]"
    pattern = f"^{prefix}+$"
    return match(pattern, text) is not None


@verification
def is_positive(value: int) -> bool:
    """Check that :paramref:`value` is positive."""
    return value > 0


@verification
@implementation_specific
def is_special(text: str) -> bool:
    """Check specially."""


Some_text: str = constant_str(value="some text", description="Some text.")

Some_strings: Set[str] = constant_set(values=["a", "b"], description="Some strings.")

Some_kinds: Set[Kind] = constant_set(values=[Kind.One, Kind.Two], description="Some kinds.")

More_strings: Set[str] = constant_set(values=["a", "b", "c"], description="More strings.", superset_of=[Some_strings])

__version__ = "dummy"
__xml_namespace__ = "https://dummy.com"
'''

BASE_CLASS = '''class Kind(Enum):
    One = "one"
    Two = "two"


@abstract
@serialization(with_model_type=True)
class A(DBC):
    x: int
    y: Optional[List[str]]

    def __init__(self, x: int, y: Optional[List[str]] = None) -> None:
        self.x = x
        self.y = y


@invariant(lambda self: not (self.y is not None) or len(self.y) >= 1, "Y is either not set or non-empty.")
@invariant(lambda self: self.x > 0, "X is positive.")
class B(A):
    kind: Optional[Kind]

    @require(lambda x: x > 0, "X is positive.")
    def __init__(self, x: int, y: Optional[List[str]] = None, kind: Optional[Kind] = None) -> None:
        A.__init__(self, x, y)
        self.kind = kind if kind is not None else Kind.One

    @require(lambda a: a > 0)
    @snapshot(lambda self: self.x, name="old_x")
    @ensure(lambda result, OLD: result or OLD.old_x > 0)
    @implementation_specific
    def do_something(self, a: int, b: Kind = Kind.One) -> bool:
        pass

    def is_big(self) -> bool:
        return self.x > 10


__version__ = "dummy"
__xml_namespace__ = "https://dummy.com"
'''

BASE_FUNC = '''@invariant(lambda self: len(self) > 0 and matches_something(self), "Code is non-empty and matches.")
class Code(str, DBC):
    pass


@verification
def matches_something(text: str) -> bool:
    prefix = "[a-z]"
    pattern = f"^{prefix}+$"
    return match(pattern, text) is not None


@verification
def is_positive(value: int) -> bool:
    return value > 0


@verification
@implementation_specific
def is_special(text: str) -> bool:
    pass


__version__ = "dummy"
__xml_namespace__ = "https://dummy.com"
'''

BASE_CONST = '''class Kind(Enum):
    One = "one"
    Two = "two"


Some_kinds: Set[Kind] = constant_set(values=[Kind.One, Kind.Two])

Some_text: str = constant_str(value="some text")

Some_strings: Set[str] = constant_set(values=["a", "b"])

More_strings: Set[str] = constant_set(values=["a", "b", "c"], superset_of=[Some_strings])


__version__ = "dummy"
__xml_namespace__ = "https://dummy.com"
'''

BASE_DOCS = '''"""Provide a meta-model, see :class:`Kind` and :const:`Some_text`."""


class Kind(Enum):
    """Represent a kind."""

    One = "one"
    """First, see :attr:`Two`."""

    Two = "two"


class A(DBC):
    """
    Represent A, see :class:`Kind` and :attr:`x`.

    :constraint AASd-001:
        Some constraint.
    """

    x: int
    """Some x, see :attr:`A.x`."""

    def __init__(self, x: int) -> None:
        self.x = x

    @implementation_specific
    def do_something(self, a: int, b: Kind = Kind.One) -> bool:
        """
        Do something.

        :param a: to be used, see :paramref:`b`
        :param b: to be ignored
        :returns: something
        """


@verification
def is_positive(value: int) -> bool:
    """
    Check that :paramref:`value` is positive.

    :param value: to be checked
    :returns: True if positive
    """
    return value > 0


Some_text: str = constant_str(value="some text", description="Some text, see :class:`Kind`.")


__version__ = "dummy"
__xml_namespace__ = "https://dummy.com"
'''

ROLE_BASES = [BASE_CLASS, BASE_FUNC, BASE_CONST, BASE_DOCS]


def mutate_tokens(text: str, rng: Any) -> Optional[str]:
    """One token-level edit of a source text (delete / duplicate / swap / replace / drop line)."""
    try:
        toks = list(tokenize.generate_tokens(io.StringIO(text).readline))
    except (tokenize.TokenError, IndentationError, SyntaxError):
        return None
    idx = [i for i, t in enumerate(toks) if t.type in (tokenize.NAME, tokenize.OP, tokenize.NUMBER, tokenize.STRING)]
    if len(idx) < 3:
        return None
    op = rng.choice(["delete", "duplicate", "swap", "rename", "literal", "dropline", "dupline", "keyword"])
    lines = text.split("\n")
    if op in ("dropline", "dupline"):
        k = rng.randrange(len(lines))
        if op == "dropline":
            del lines[k]
        else:
            lines.insert(k, lines[k])
        return "\n".join(lines)
    i = rng.choice(idx)
    t = toks[i]
    (r, c0), (_, c1) = t.start, t.end
    if t.start[0] != t.end[0]:
        return None
    line = lines[r - 1]
    if op == "delete":
        new = ""
    elif op == "duplicate":
        new = t.string + " " + t.string
    elif op == "swap":
        j = idx[(idx.index(i) + 1) % len(idx)]
        new = toks[j].string
    elif op == "rename":
        names = [x.string for x in toks if x.type == tokenize.NAME]
        new = rng.choice(names)
    elif op == "literal":
        new = rng.choice(["None", "0", "-1", "''", "b''", "1.5", "True", "[]", "...", "lambda: 0", "f'{x}'", "2**70"])
    else:
        new = rng.choice(["Optional", "List", "Set", "self", "DBC", "Enum", "abstract", "invariant", "len", "all", "any", "in", "not", "is"])
    lines[r - 1] = line[:c0] + new + line[c1:]
    return "\n".join(lines)


PATTERN_MODEL = '''@verification
def matches_something(text: str) -> bool:
    pattern = {lit}
    return match(pattern, text) is not None
'''


def targeted(ctx: Ctx) -> Iterator[Tuple[str, str]]:
    # constant argument shapes: n positional arguments x keyword subsets
    pos_pool = ['["a"]', '"d"', "[]", "4", "None", '"x"']
    for n in range(0, 7):
        for kws in itertools.chain.from_iterable(itertools.combinations(["values", "description", "superset_of", "bogus"], k) for k in range(0, 3)):
            args = pos_pool[:n] + [f"{k}={'[]' if k != 'description' else chr(34) + 'd' + chr(34)}" for k in kws]
            yield "constant_set", f"X: Set[str] = constant_set({', '.join(args)})" + TAIL
    prim_pool = ['"a"', '"d"', "3", "4", "5"]
    for fn, ty in [("constant_str", "str"), ("constant_int", "int"), ("constant_bool", "bool"), ("constant_float", "float"), ("constant_bytearray", "bytearray")]:
        for n in range(0, 6):
            for kws in [(), ("value",), ("description",), ("bogus",)]:
                args = prim_pool[:n] + [f"{k}=1" for k in kws]
                yield "constant_primitive", f"X: {ty} = {fn}({', '.join(args)})" + TAIL
    # regex near misses in pattern functions, plain and f-string
    for p in NEAR_MISS_PATTERNS:
        for lit in (repr(p), "f" + repr(p)):
            yield "pattern", PATTERN_MODEL.format(lit=lit) + TAIL
    # contradictory / degenerate invariants
    for inv in [
        "len(self.x) < 3 and len(self.x) > 5", "len(self.x) >= 0", "len(self.x) < 0", "len(self.x) == 2 and len(self.x) == 2",
        "self.x < 3", "self.x is None", "not self.x", "self.x == self.x", "len(self.x) > len(self.x)", "self.y", "len(self) > 0",
        "all(c == 'a' for c in self.x)", "any(i > 0 for i in range(len(self.x)))", "self.x in Y", "matches_something(self.x)",
        "3 < len(self.x)", "3 < len(self.x) < 5", "(lambda: True)()", "self.x[0] == 'a'", "self.x + 1 == 2",
    ]:
        yield "invariant", f'@invariant(lambda self: {inv}, "Some description.")\nclass A:\n    x: str\n\n    def __init__(self, x: str) -> None:\n        self.x = x\n' + TAIL
    # default values of arguments: every expression form at the position of a default — of a constructor, a method and a
    # verification function, typed int / str / Optional — incl. unary and binary operators on every kind of literal
    DEFAULTS = [
        "None", "1", "-1", "+1", "~1", "--1", "-(-1)", "-1.5", "1.5", "True", "-True", "not True", '"a"', '-"a"', '+"a"', "-None", "+None", 'b"a"', '-b"a"', "...", "-...",
        "[]", "-[]", "[1]", "()", "{}", "-{}", "1 + 1", '"a" + "b"', "1 if True else 2", "int(1)", "A", "-A", "A.x", "E.a", "-E.a", "E", "lambda: 1", "(1)", "1j", "-1j",
        'f"a"', '-f"a"', "x", "-x", "self", "Some_set", "-Some_set", "0x7fffffffffffffffffff", "-0x7fffffffffffffffffff", "1e400", "-1e400",
    ]
    for d in DEFAULTS:
        for ty in ("int", "str", "Optional[int]", "E", "List[int]"):
            if ty not in ("int", "str") and (len(d) + len(ty)) % 3:
                continue  # a fixed, seed-independent thinning of the less common types
            yield "default", (
                'class E(Enum):\n    a = "a"\n\n\nSome_set: Set[str] = constant_set(values=["a"])\n\n\n'
                f"class A:\n    x: {ty}\n\n    def __init__(self, x: {ty} = {d}) -> None:\n        self.x = x\n\n"
                f"    @implementation_specific\n    def compute(self, y: {ty} = {d}) -> int:\n        pass\n\n\n"
                f"@verification\n@implementation_specific\ndef is_fine(z: {ty} = {d}) -> bool:\n    pass\n" + TAIL
            )
    # deep nesting (the front end recurses over the input: RecursionError beyond ~250 levels is the known finding C01-F1) and huge literals
    def _inv(e: str) -> str:
        return f'@invariant(lambda self: {e}, "d")\nclass A:\n    x: int\n\n    def __init__(self, x: int) -> None:\n        self.x = x\n' + TAIL

    for n in (100, 300):
        yield "deep", _inv("not " * n + "self.x")
        yield "deep", _inv("self" + ".x" * n + " > 0")
        yield "deep", _inv("self.x" + "[0]" * n + " > 0")
    yield "deep", _inv(" + ".join(["self.x"] * 300) + " > 0")
    yield "deep", _inv(" and ".join(["self.x > 0"] * 300))
    yield "deep", _inv("f(" * 90 + "self.x" + ")" * 90)
    yield "deep", "class A:\n    x: " + "Optional[" * 90 + "int" + "]" * 90 + "\n" + TAIL
    yield "deep", '@verification\ndef f(x: str) -> bool:\n    return match("^' + "(" * 3000 + "a" + ")" * 3000 + '$", x) is not None\n' + TAIL
    yield "deep", '@verification\ndef f(x: str) -> bool:\n    return match("^' + "(" * 90 + "a" + ")" * 90 + '$", x) is not None\n' + TAIL
    if ctx is not None and ctx.tier != "quick":
        names = [f"C{1100 - i:05d}" for i in range(1100)]  # the deepest descendant sorts first
        yield "deep", f"class {names[0]}:\n    pass\n" + "".join(f"class {names[i]}({names[i - 1]}):\n    pass\n" for i in range(1, 1100)) + TAIL
    big = "0x" + "f" * 5000
    for t in [f"class E(Enum):\n    a = {big}\n", f"X: Set[int] = constant_set(values=[-{big}])\n", f"X: int = constant_int(value={big})\n", f"class A:\n    x: {big}\n",
              f"class A:\n    x: int\n\n    def __init__(self, x: int = {big}) -> None:\n        self.x = x\n", f"X: float = constant_float(value=1e400)\n",
              "class E(Enum):\n    a = '" + "a" * 100000 + "'\n", "class " + "A" * 100000 + ":\n    pass\n"]:
        yield "huge", t + TAIL
    yield "huge", _inv("self.x > " + big)
    for raw in ["", "\n", "\x00", "class", "class A:\n", "def f(): pass", "x = 1", "__version__ = 1", "\ufeffclass A: pass", "class A(B): pass" + TAIL,
                "class A(A):\n    pass" + TAIL, "class A(Enum):\n    pass" + TAIL, "class A(Enum):\n    a = 1" + TAIL, "@abstract\nclass A:\n    pass" + TAIL,
                "class A:\n    x: Optional[Optional[int]]" + TAIL, "class A:\n    def __init__(self, *args, **kw) -> None:\n        pass" + TAIL]:
        yield "raw", raw


class _Tier:
    def __init__(self, tier: str) -> None:
        self.tier = tier


def enumerated_cases(tier: str) -> List[Tuple[str, str, Any]]:
    """The seed independent, enumerated part of the input space (apart from the corpus and the fixtures of the repository):
    targeted constructs, hand-written probes, and role x catalogue over the small valid bases (see ast_mutate.plan_roles), i.e.
    every construct class of the catalogues in every role the front end distinguishes."""
    from harness import ast_mutate, c01_probes

    cases: List[Tuple[str, str, Any]] = []
    for kind, text in targeted(_Tier(tier)):  # type: ignore
        cases.append((kind, text, {"text": text}))
    for text in c01_probes.probes():
        cases.append(("probe", text, {"text": text}))
    seen_roles: set = set()
    for b in ROLE_BASES:
        roles = [r for r in ast_mutate.role_names(b) if r not in seen_roles]
        seen_roles.update(roles)
        for label, m in ast_mutate.enumerate_roles(b, tier, roles):
            cases.append(("role-enumerated", m, {"text": m, "mutation": label}))
    return cases


# --------------------------------------------------------------------------- correspondence + oracle


def _judge_and_record(ctx: Ctx, kind: str, text: str, res: Dict[str, Any], what_input: Any) -> None:
    if res["kind"] == "crash":
        ctx.fail(what_input, f"{res['exc']}: {res['msg']}", f"C01:crash:{res['exc']}@{res['site']}")
    elif res["kind"] == "malformed":
        ctx.fail(what_input, f"load_model returned {res['msg']}", "C01:malformed-result")
    elif res["kind"] == "error" and res["msg"].strip() == "":
        ctx.fail(what_input, "load_model returned an empty error report", "C01:empty-report")
    elif res["kind"] == "done":
        if res["rc"] != 0 and res["stderr"].strip() == "":
            ctx.fail(what_input, f"CLI exits {res['rc']} with empty stderr", "C01:cli-empty-stderr")


def _explore(ctx: Ctx, with_model: bool) -> None:
    scratch = ctx.scratch()
    path = scratch / "model.py"
    n_mut = ctx.n(200, 6000)
    fx = fixtures(ctx)
    cases: List[Tuple[str, str, Any]] = []
    if not os.environ.get("C01_NO_CORPUS"):  # (only for the self-test: show that the enumerated slice alone finds a reverted repair)
        for c in corpus(ID):
            cases.append(("corpus", c["text"], {"corpus": c.get("name", "?")}))
    for p in fx:
        cases.append(("fixture", p.read_text(encoding="utf-8"), {"fixture": str(p.relative_to(REPO))}))
    cases.extend(enumerated_cases(ctx.tier))
    from harness import ast_mutate

    base = [p.read_text(encoding="utf-8") for p in fx if len(p.read_text(encoding="utf-8")) < 6000]
    for _ in range(n_mut):
        src = ctx.rng.choice(base)
        m = mutate_tokens(src, ctx.rng)
        if m is not None and m != src:
            if ctx.rng.random() < 0.3:
                m2 = mutate_tokens(m, ctx.rng)
                m = m2 if m2 is not None else m
            cases.append(("mutant", m, {"text": m}))
    # AST-level construct mutants (harness/ast_mutate.py) of VALID base models: fixtures that load and generated models
    valid_bases = _valid_bases(ctx, fx)
    for text in valid_bases[1:3]:
        # seed-independent slice of the positional engine: every catalogue entry once, at rotating positions of two valid fixtures
        for kind, cat in ast_mutate.KINDS:
            for entry in range(0, len(cat), 1 if ctx.tier != "quick" else 4):
                m = ast_mutate._apply(text, kind, entry * 7 + 3, entry)
                if m is not None:
                    cases.append(("ast-enumerated", m, {"text": m}))
    for _ in range(ctx.n(200, 6000)):
        got = ast_mutate.random_mutant(ctx.rng.choice(valid_bases), ctx.rng)
        if got is not None:
            cases.append(("ast-mutant", got[1], {"text": got[1], "mutation": got[0]}))
    role_bases = [RICH_BASE] * 3 + ROLE_BASES + valid_bases[1:]
    for _ in range(ctx.n(300, 6000)):
        got = ast_mutate.random_role_mutant(ctx.rng.choice(role_bases), ctx.rng)
        if got is not None and ctx.rng.random() < 0.35:  # a second, independent construct in another role
            got2 = ast_mutate.random_role_mutant(got[1], ctx.rng)
            if got2 is not None:
                got = (got[0] + " + " + got2[0], got2[1])
        if got is not None:
            cases.append(("role-mutant", got[1], {"text": got[1], "mutation": got[0]}))
    for _ in range(ctx.n(30, 500)):
        raw = bytes(ctx.rng.randrange(256) for _ in range(ctx.rng.randrange(1, 60)))
        cases.append(("garbage", raw, {"bytes": raw.hex()}))  # type: ignore

    reqs: List[str] = []
    req_meta: List[Tuple[Any, str]] = []
    for k, (kind, text, what) in enumerate(cases):
        if isinstance(text, bytes):
            path.write_bytes(text)
        else:
            try:
                path.write_text(text, encoding="utf-8")
            except UnicodeEncodeError:
                path.write_bytes(text.encode("utf-8", "surrogatepass"))
        res = load(path)
        ctx.count((kind, text), nontrivial=True, stream=kind)
        ctx.hit("load:" + res["kind"])
        if k % 150 == 0:
            ctx.sample({"kind": kind, "input": what, "outcome": res["kind"], "msg": res.get("msg", "")[:120]})
        _judge_and_record(ctx, kind, text if isinstance(text, str) else "", res, what)
        if res["kind"] == "error" and (kind in ("constant_set", "constant_primitive", "pattern", "raw", "garbage") or k % (10 if kind != "role-enumerated" else 40) == 0):
            # a rejected model through the real CLI: exit status 1 and a non-empty stderr, never an exception
            r = cli(path, scratch)
            _judge_and_record(ctx, kind, "", r, what)
            if r["kind"] == "done" and r["rc"] != 1:
                ctx.fail(what, f"load_model rejects the model but the CLI exits {r['rc']}", "C01:cli-status")
        # correspondence: stage composition on fixtures + targeted inputs
        if with_model and kind in ("fixture", "corpus", "invariant", "raw", "deep") and isinstance(text, str) and (
            res["kind"] != "crash" or res["exc"] == "RecursionError"
        ):
            try:
                ff = stages_first_failing(text)
            except BaseException:  # noqa
                ff = "crash"
            if ff is not None and ff.startswith("overflow:"):
                # a stage exhausts the recursion limit: Model.FrontEnd.loadG over the regenerated guard list says whether
                # load_model turns that into the report "too deeply nested" or lets the RecursionError escape
                ctx.hit("deep:" + ff)
                reqs.append(f"loadg - {ff.split(':', 1)[1]}")
                if res["kind"] == "crash":
                    got = "crash"
                else:
                    got = "error too-deep" if res.get("msg", "").startswith(TOO_DEEP_HEADLINE) else "error ?"
                req_meta.append((what, got))
            elif ff != "crash" and res["kind"] != "crash":
                reqs.append(f"load {ff or '-'}")
                got = "table" if res["kind"] == "table" else "error " + next((st for h, st in HEADLINE_TO_STAGE if res.get("msg", "").startswith(h)), "?")
                req_meta.append((what, got))
        # correspondence: IndexError behaviour of positional argument reads
        if with_model and kind in ("constant_set", "constant_primitive") and isinstance(text, str):
            m = re.search(r"\((.*)\)", text.split("\n")[0])
            argtxt = m.group(1) if m else ""
            npos = len([a for a in argtxt.split(", ") if a and "=" not in a])
            reqs.append(f"args {'set' if kind == 'constant_set' else 'prim'} {npos}")
            got = "crash" if (res["kind"] == "crash" and res["exc"] == "IndexError") else "ok"
            req_meta.append((what, got))
    if with_model and reqs:
        outs = ctx.model(reqs)
        for req, (what, got), out in zip(reqs, req_meta, outs):
            ctx.traces_validated += 1
            if req.startswith("args"):
                if out.split(" ")[0] != got:
                    ctx.disagree("constant-arg-reads", what, got, out)
            else:
                if out != got:
                    ctx.disagree("load_model-stages", what, got, out)


def correspond(ctx: Ctx) -> None:
    ctx.extra_cov["rule"] = (
        "inputs = corpus (witnesses of repaired crashes) + every meta_model.py fixture of dev/test_data + ENUMERATED seed independent part: "
        "targeted constructs (constant_set/constant_* with 0-6 positional arguments x keyword subsets, 78 near-miss regex patterns as plain and "
        "f-string pattern functions, 20 degenerate invariants, raw snippets), 156 hand-written probes, role x catalogue over 4 small valid bases "
        "(harness/ast_mutate.plan_roles: ~90 roles x role specific catalogues of expressions/types/statements/decorators/argument lists/bases/"
        "literals/docstrings/names; quick: whole catalogue for 10 roles, stride samples for the rest; thorough: everything) + SEEDED part: "
        "token-level mutants of the fixtures (delete/duplicate/swap/rename/literal/keyword/drop line/duplicate line, 30% double), positional AST "
        "mutants and role mutants (35% double) of valid models, random byte strings; all distinct by text, all counted non-trivial"
    )
    _explore(ctx, True)


def oracle(ctx: Ctx) -> None:
    if not ctx.driver_ok or ctx.searching:
        _explore(ctx, False)


def replay(ctx: Ctx, data: Dict[str, Any]) -> Any:
    inp = data["failure"]["input"] if "failure" in data else data
    scratch = ctx.scratch()
    path = scratch / "model.py"
    if "bytes" in inp:
        path.write_bytes(bytes.fromhex(inp["bytes"]))
    elif "fixture" in inp:
        path = REPO / inp["fixture"]
    else:
        path.write_text(inp["text"].encode("utf-8").decode("unicode_escape") if "\\u" in inp["text"] else inp["text"], encoding="utf-8", errors="surrogatepass")
    return {"load_model": load(path), "cli": cli(path, scratch)}
