"""C01 — the meta-model front end never crashes.

Gen: guarded positional-argument reads of _parse_constant_set/_parse_constant_primitive and the
stage skeleton of run.load_model.  Correspondence: IndexError behaviour of the real front end on
constant declarations with n positional arguments vs Model.FrontEnd.readArgs; load_model outcome vs
Model.FrontEnd.load on the first failing stage.  Oracle: crash oracle over fixtures, token-level
mutants of them, targeted constructs (constant argument shapes, near-miss regex patterns in pattern
functions, contradictory invariants) and byte garbage.
"""
from __future__ import annotations

import io
import itertools
import pathlib
import re
import tokenize
import traceback
from typing import Any, Dict, Iterator, List, Optional, Tuple

from harness.core import REPO, Ctx, corpus, crash_name, show

ID = "C01"
GEN = ["FrontEnd"]
LEAN_PROPS = ["AasVerif.Props.C01"]

TAIL = '\n\n__version__ = "dummy"\n__xml_namespace__ = "https://dummy.com"\n'

HEADLINE_TO_STAGE = [
    ("Failed to parse the meta-model", "parse.source_to_atok"),
    ("One or more unexpected imports", "parse.check_expected_imports"),
    ("Failed to construct the symbol table", "parse.atok_to_symbol_table"),
    ("Failed to translate the parsed symbol table", "intermediate.translate"),
]

NEAR_MISS_PATTERNS = [
    "^*$", "{", "a{", "a{2", "a{2,1}", "a{,}", "a{ 1 }", "[^\\U0001F600]", "[--a]", "[a-b-c]", "a{\u00b2}", "[]", "[^]", "[\\^-a]",
    "(", ")", "(a", "a)", "a|", "|", "a**", "a+*", "?", "+", "\\", "a\\", "[a", "[a-", "[z-a]", "\\x4", "\\u12", "\\U0001",
    "^a^b$", "^a*?$", "^(a*)*$", "^$", "a$b", "^\\d+$", "^[\\d]$", "^(?:a)$", "^(?P<n>a)$", "^a{1,2}{3}$", ".", "^.*$", "^\\.$",
    "^[\ud800]$", "^\U0001F600$", "^[a-\U0001F600]$", "^a{0}$", "^a{0,}$", "^a{,3}$", "^\\x00$", "^[\\x00-\\x1f]$", "^\\$",
]


# --------------------------------------------------------------------------- running the real front end


def _site(exc: BaseException) -> str:
    tb = traceback.extract_tb(exc.__traceback__)
    inner = None
    for fr in tb:
        if str(REPO / "aas_core_codegen") in fr.filename:
            inner = fr
    if inner is None:
        return "outside-repo"
    rel = pathlib.Path(inner.filename).relative_to(REPO / "aas_core_codegen")
    return f"{rel}:{inner.name}"


def load(path: pathlib.Path) -> Dict[str, Any]:
    from aas_core_codegen import run

    try:
        res = run.load_model(path)
    except BaseException as e:  # noqa
        return {"kind": "crash", "exc": type(e).__name__, "site": _site(e), "msg": str(e)[:200]}
    if res[1] is None and res[0] is not None:
        return {"kind": "table"}
    if res[0] is None and isinstance(res[1], str):
        return {"kind": "error", "msg": res[1]}
    return {"kind": "malformed", "msg": repr(res)[:200]}


def cli(path: pathlib.Path, scratch: pathlib.Path) -> Dict[str, Any]:
    import aas_core_codegen.main as m
    import tempfile

    snippets = REPO / "dev/test_data/main/jsonschema/expected/primitive_types/input/snippets"
    out, err = io.StringIO(), io.StringIO()
    saved = tempfile.tempdir
    tempfile.tempdir = str(scratch / "tmp")
    (scratch / "tmp").mkdir(exist_ok=True)
    try:
        rc = m.execute(m.Parameters(path, m.Target.JSONSCHEMA, snippets, scratch / "out"), out, err)
        return {"kind": "done", "rc": rc, "stderr": err.getvalue()}
    except BaseException as e:  # noqa
        return {"kind": "crash", "exc": type(e).__name__, "site": _site(e), "msg": str(e)[:200]}
    finally:
        tempfile.tempdir = saved


def stages_first_failing(text: str) -> Optional[str]:
    from aas_core_codegen import intermediate, parse

    atok, exc = parse.source_to_atok(source=text)
    if exc:
        return "parse.source_to_atok"
    if parse.check_expected_imports(atok=atok):
        return "parse.check_expected_imports"
    pst, error = parse.atok_to_symbol_table(atok=atok)
    if error is not None:
        return "parse.atok_to_symbol_table"
    _, error = intermediate.translate(parsed_symbol_table=pst, atok=atok)
    if error is not None:
        return "intermediate.translate"
    return None


# --------------------------------------------------------------------------- inputs


def fixtures(ctx: Ctx) -> List[pathlib.Path]:
    td = REPO / "dev" / "test_data"
    ps = sorted(td.glob("**/meta_model.py")) + [p for p in sorted((td / "common_meta_models").glob("*.py")) if not p.name.startswith("aas_core_meta")]
    return ps


_BASES_CACHE: List[str] = []


def _valid_bases(ctx: Ctx, fx: List[pathlib.Path]) -> List[str]:
    """Valid (accepted) base models for the AST mutants: a rich hand-written one, small accepted fixtures, generated ones."""
    if _BASES_CACHE:
        return _BASES_CACHE
    import random as _random
    scratch = ctx.scratch()
    path = scratch / "base.py"
    out = [RICH_BASE]
    for p in fx:
        t = p.read_text(encoding="utf-8")
        if 200 < len(t) < 5000 and "unexpected" not in str(p):
            path.write_text(t, encoding="utf-8")
            if load(path)["kind"] == "table":
                out.append(t)
        if len(out) >= 25:
            break
    try:
        from harness import mm

        r = _random.Random(20260921)  # fixed: the base set is seed independent
        for _ in range(6):
            t = mm.render(mm.random_mm(r, size=3))
            path.write_text(t, encoding="utf-8")
            if load(path)["kind"] == "table":
                out.append(t)
    except Exception:  # noqa
        pass
    _BASES_CACHE.extend(out)
    return _BASES_CACHE


RICH_BASE = '''class Kind(Enum):
    """Represent a kind."""

    One = "one"
    """First."""

    Two = "two"


@invariant(lambda self: len(self.x) > 0, "X is non-empty.")
class Code(str, DBC):
    """Represent a code."""


@abstract
@serialization(with_model_type=True)
class A(DBC):
    """Represent A, see :class:`B` and :attr:`x`."""

    x: int
    """Some x"""

    y: Optional[List[str]]

    def __init__(self, x: int, y: Optional[List[str]] = None) -> None:
        self.x = x
        self.y = y


@invariant(lambda self: not (self.y is not None) or len(self.y) >= 1, "Y is either not set or non-empty.")
@invariant(lambda self: len(self.z) > 0 and matches_something(self.z), "Z is non-empty and matches.")
@invariant(lambda self: self.kind is None or self.kind in Some_kinds, "Kind is in the set.")
@invariant(lambda self: all(len(item) < 5 for item in self.codes), "Codes are short.")
class B(A):
    z: str
    codes: List[Code]
    kind: Optional[Kind]

    def __init__(self, x: int, z: str, codes: List[Code], y: Optional[List[str]] = None, kind: Optional[Kind] = None) -> None:
        A.__init__(self, x, y)
        self.z = z
        self.codes = codes
        self.kind = kind

    @implementation_specific
    def do_something(self, a: int) -> bool:
        """Do something."""


@verification
def matches_something(text: str) -> bool:
    """Check that :paramref:`text` matches."""
    prefix = "[a-z]"
    pattern = f"^{prefix}+$"
    return match(pattern, text) is not None


@verification
@implementation_specific
def is_special(text: str) -> bool:
    """Check specially."""


Some_text: str = constant_str(value="some text", description="Some text.")

Some_kinds: Set[Kind] = constant_set(values=[Kind.One, Kind.Two], description="Some kinds.")

Some_strings: Set[str] = constant_set(values=["a", "b"], description="Some strings.", superset_of=[])

__version__ = "dummy"
__xml_namespace__ = "https://dummy.com"
'''


def mutate_tokens(text: str, rng: Any) -> Optional[str]:
    """One token-level edit of a source text (delete / duplicate / swap / replace / drop line)."""
    try:
        toks = list(tokenize.generate_tokens(io.StringIO(text).readline))
    except (tokenize.TokenError, IndentationError, SyntaxError):
        return None
    idx = [i for i, t in enumerate(toks) if t.type in (tokenize.NAME, tokenize.OP, tokenize.NUMBER, tokenize.STRING)]
    if len(idx) < 3:
        return None
    op = rng.choice(["delete", "duplicate", "swap", "rename", "literal", "dropline", "dupline", "keyword"])
    lines = text.split("\n")
    if op in ("dropline", "dupline"):
        k = rng.randrange(len(lines))
        if op == "dropline":
            del lines[k]
        else:
            lines.insert(k, lines[k])
        return "\n".join(lines)
    i = rng.choice(idx)
    t = toks[i]
    (r, c0), (_, c1) = t.start, t.end
    if t.start[0] != t.end[0]:
        return None
    line = lines[r - 1]
    if op == "delete":
        new = ""
    elif op == "duplicate":
        new = t.string + " " + t.string
    elif op == "swap":
        j = idx[(idx.index(i) + 1) % len(idx)]
        new = toks[j].string
    elif op == "rename":
        names = [x.string for x in toks if x.type == tokenize.NAME]
        new = rng.choice(names)
    elif op == "literal":
        new = rng.choice(["None", "0", "-1", "''", "b''", "1.5", "True", "[]", "...", "lambda: 0", "f'{x}'", "2**70"])
    else:
        new = rng.choice(["Optional", "List", "Set", "self", "DBC", "Enum", "abstract", "invariant", "len", "all", "any", "in", "not", "is"])
    lines[r - 1] = line[:c0] + new + line[c1:]
    return "\n".join(lines)


PATTERN_MODEL = '''@verification
def matches_something(text: str) -> bool:
    pattern = {lit}
    return match(pattern, text) is not None
'''


def targeted(ctx: Ctx) -> Iterator[Tuple[str, str]]:
    # constant argument shapes: n positional arguments x keyword subsets
    pos_pool = ['["a"]', '"d"', "[]", "4", "None", '"x"']
    for n in range(0, 7):
        for kws in itertools.chain.from_iterable(itertools.combinations(["values", "description", "superset_of", "bogus"], k) for k in range(0, 3)):
            args = pos_pool[:n] + [f"{k}={'[]' if k != 'description' else chr(34) + 'd' + chr(34)}" for k in kws]
            yield "constant_set", f"X: Set[str] = constant_set({', '.join(args)})" + TAIL
    prim_pool = ['"a"', '"d"', "3", "4", "5"]
    for fn, ty in [("constant_str", "str"), ("constant_int", "int"), ("constant_bool", "bool"), ("constant_float", "float"), ("constant_bytearray", "bytearray")]:
        for n in range(0, 6):
            for kws in [(), ("value",), ("description",), ("bogus",)]:
                args = prim_pool[:n] + [f"{k}=1" for k in kws]
                yield "constant_primitive", f"X: {ty} = {fn}({', '.join(args)})" + TAIL
    # regex near misses in pattern functions, plain and f-string
    for p in NEAR_MISS_PATTERNS:
        for lit in (repr(p), "f" + repr(p)):
            yield "pattern", PATTERN_MODEL.format(lit=lit) + TAIL
    # contradictory / degenerate invariants
    for inv in [
        "len(self.x) < 3 and len(self.x) > 5", "len(self.x) >= 0", "len(self.x) < 0", "len(self.x) == 2 and len(self.x) == 2",
        "self.x < 3", "self.x is None", "not self.x", "self.x == self.x", "len(self.x) > len(self.x)", "self.y", "len(self) > 0",
        "all(c == 'a' for c in self.x)", "any(i > 0 for i in range(len(self.x)))", "self.x in Y", "matches_something(self.x)",
        "3 < len(self.x)", "3 < len(self.x) < 5", "(lambda: True)()", "self.x[0] == 'a'", "self.x + 1 == 2",
    ]:
        yield "invariant", f'@invariant(lambda self: {inv}, "Some description.")\nclass A:\n    x: str\n\n    def __init__(self, x: str) -> None:\n        self.x = x\n' + TAIL
    for raw in ["", "\n", "\x00", "class", "class A:\n", "def f(): pass", "x = 1", "__version__ = 1", "\ufeffclass A: pass", "class A(B): pass" + TAIL,
                "class A(A):\n    pass" + TAIL, "class A(Enum):\n    pass" + TAIL, "class A(Enum):\n    a = 1" + TAIL, "@abstract\nclass A:\n    pass" + TAIL,
                "class A:\n    x: Optional[Optional[int]]" + TAIL, "class A:\n    def __init__(self, *args, **kw) -> None:\n        pass" + TAIL]:
        yield "raw", raw


# --------------------------------------------------------------------------- correspondence + oracle


def _judge_and_record(ctx: Ctx, kind: str, text: str, res: Dict[str, Any], what_input: Any) -> None:
    if res["kind"] == "crash":
        ctx.fail(what_input, f"{res['exc']}: {res['msg']}", f"C01:crash:{res['exc']}@{res['site']}")
    elif res["kind"] == "malformed":
        ctx.fail(what_input, f"load_model returned {res['msg']}", "C01:malformed-result")
    elif res["kind"] == "error" and res["msg"].strip() == "":
        ctx.fail(what_input, "load_model returned an empty error report", "C01:empty-report")
    elif res["kind"] == "done":
        if res["rc"] != 0 and res["stderr"].strip() == "":
            ctx.fail(what_input, f"CLI exits {res['rc']} with empty stderr", "C01:cli-empty-stderr")


def _explore(ctx: Ctx, with_model: bool) -> None:
    scratch = ctx.scratch()
    path = scratch / "model.py"
    n_mut = ctx.n(400, 8000)
    fx = fixtures(ctx)
    cases: List[Tuple[str, str, Any]] = []
    for c in corpus(ID):
        cases.append(("corpus", c["text"], {"corpus": c.get("name", "?")}))
    for p in fx:
        cases.append(("fixture", p.read_text(encoding="utf-8"), {"fixture": str(p.relative_to(REPO))}))
    for kind, text in targeted(ctx):
        cases.append((kind, text, {"text": text}))
    base = [p.read_text(encoding="utf-8") for p in fx if len(p.read_text(encoding="utf-8")) < 6000]
    for _ in range(n_mut):
        src = ctx.rng.choice(base)
        m = mutate_tokens(src, ctx.rng)
        if m is not None and m != src:
            if ctx.rng.random() < 0.3:
                m2 = mutate_tokens(m, ctx.rng)
                m = m2 if m2 is not None else m
            cases.append(("mutant", m, {"text": m}))
    # AST-level construct mutants (harness/ast_mutate.py) of VALID base models: fixtures that load and generated models
    from harness import ast_mutate

    valid_bases = _valid_bases(ctx, fx)
    for text in valid_bases[:3]:
        # seed-independent slice: every catalogue entry once, at rotating positions
        for kind, cat in ast_mutate.KINDS:
            for entry in range(len(cat)):
                m = ast_mutate._apply(text, kind, entry * 7 + 3, entry)
                if m is not None:
                    cases.append(("ast-enumerated", m, {"text": m}))
    for _ in range(ctx.n(500, 12000)):
        got = ast_mutate.random_mutant(ctx.rng.choice(valid_bases), ctx.rng)
        if got is not None:
            cases.append(("ast-mutant", got[1], {"text": got[1], "mutation": got[0]}))
    for _ in range(ctx.n(30, 500)):
        raw = bytes(ctx.rng.randrange(256) for _ in range(ctx.rng.randrange(1, 60)))
        cases.append(("garbage", raw, {"bytes": raw.hex()}))  # type: ignore

    reqs: List[str] = []
    req_meta: List[Tuple[Any, str]] = []
    for k, (kind, text, what) in enumerate(cases):
        if isinstance(text, bytes):
            path.write_bytes(text)
        else:
            try:
                path.write_text(text, encoding="utf-8")
            except UnicodeEncodeError:
                path.write_bytes(text.encode("utf-8", "surrogatepass"))
        res = load(path)
        ctx.count((kind, text), nontrivial=True, stream=kind)
        ctx.hit("load:" + res["kind"])
        if k % 150 == 0:
            ctx.sample({"kind": kind, "input": what, "outcome": res["kind"], "msg": res.get("msg", "")[:120]})
        _judge_and_record(ctx, kind, text if isinstance(text, str) else "", res, what)
        if res["kind"] == "error" and (kind in ("constant_set", "constant_primitive", "pattern", "raw", "garbage") or k % 10 == 0):
            # a rejected model through the real CLI: exit status 1 and a non-empty stderr, never an exception
            r = cli(path, scratch)
            _judge_and_record(ctx, kind, "", r, what)
            if r["kind"] == "done" and r["rc"] != 1:
                ctx.fail(what, f"load_model rejects the model but the CLI exits {r['rc']}", "C01:cli-status")
        # correspondence: stage composition on fixtures + targeted inputs
        if with_model and kind in ("fixture", "corpus", "invariant", "raw") and isinstance(text, str) and res["kind"] != "crash":
            try:
                ff = stages_first_failing(text)
            except BaseException:  # noqa
                ff = "crash"
            if ff != "crash":
                reqs.append(f"load {ff or '-'}")
                got = "table" if res["kind"] == "table" else "error " + next((st for h, st in HEADLINE_TO_STAGE if res.get("msg", "").startswith(h)), "?")
                req_meta.append((what, got))
        # correspondence: IndexError behaviour of positional argument reads
        if with_model and kind in ("constant_set", "constant_primitive") and isinstance(text, str):
            m = re.search(r"\((.*)\)", text.split("\n")[0])
            argtxt = m.group(1) if m else ""
            npos = len([a for a in argtxt.split(", ") if a and "=" not in a])
            reqs.append(f"args {'set' if kind == 'constant_set' else 'prim'} {npos}")
            got = "crash" if (res["kind"] == "crash" and res["exc"] == "IndexError") else "ok"
            req_meta.append((what, got))
    if with_model and reqs:
        outs = ctx.model(reqs)
        for req, (what, got), out in zip(reqs, req_meta, outs):
            ctx.traces_validated += 1
            if req.startswith("args"):
                if out.split(" ")[0] != got:
                    ctx.disagree("constant-arg-reads", what, got, out)
            else:
                if out != got:
                    ctx.disagree("load_model-stages", what, got, out)


def correspond(ctx: Ctx) -> None:
    ctx.extra_cov["rule"] = (
        "inputs = corpus + every meta_model.py fixture of dev/test_data + targeted constructs (constant_set/constant_* with 0-6 "
        "positional arguments x keyword subsets, 55 near-miss regex patterns as plain and f-string pattern functions, 20 "
        "degenerate invariants, raw snippets) + seeded token-level mutants of the fixtures (delete/duplicate/swap/rename/literal/"
        "keyword/drop line/duplicate line, 30% double mutants) + random byte strings; all distinct by text, all counted non-trivial"
    )
    _explore(ctx, True)


def oracle(ctx: Ctx) -> None:
    if not ctx.driver_ok or ctx.searching:
        _explore(ctx, False)


def replay(ctx: Ctx, data: Dict[str, Any]) -> Any:
    inp = data["failure"]["input"] if "failure" in data else data
    scratch = ctx.scratch()
    path = scratch / "model.py"
    if "bytes" in inp:
        path.write_bytes(bytes.fromhex(inp["bytes"]))
    elif "fixture" in inp:
        path = REPO / inp["fixture"]
    else:
        path.write_text(inp["text"].encode("utf-8").decode("unicode_escape") if "\\u" in inp["text"] else inp["text"], encoding="utf-8", errors="surrogatepass")
    return {"load_model": load(path), "cli": cli(path, scratch)}
