"""Input classes of C22 added after the second round of seeded changes (pure text generators, no repo import).

* ``ill_typed_*``: the *ill-typed invariant matrix* — value atoms of every kind the type inference distinguishes
  (verification functions, methods, enumerations as types, enumeration literals, constants, constant sets, properties of
  every primitive / optional / list / class / enumeration type, built-in functions, literals) plugged into every operator
  context an invariant may contain.  Nearly all combinations are refused (by the parser, by the intermediate stage or by
  the type inference / transpilation of an SDK generator) with a message which prints the *type* or the *syntax tree* of
  the offending expression: the statement of C22 on the stderr of rejected meta-models.
* ``degenerate_models``: accepted-but-degenerate members of every list-like construct of the meta-model language
  (constant sets with repeated members, many members, members which differ only in case / white space, of every
  primitive type and of enumeration literals; ``superset_of`` lists which are empty / repeat a set; single-member and
  single-literal collections; equal invariant descriptions; several patterns on one value; ...).
"""
from __future__ import annotations

import random
from typing import Dict, List, Sequence, Tuple

# --------------------------------------------------------------------------------------------- ill-typed invariants

# The head re-uses the classes and functions of ``corpus/C22/models/multi`` so that the snippets of that model (an
# implementation-specific method of ``Item`` and of its abstract parent, two implementation-specific verification
# functions; for all six SDK targets) can be used as they are.
ILL_TYPED_HEAD = '''\
"""Provide ill-typed invariants (C22)."""
from enum import Enum
from typing import List, Optional, Set

from icontract import invariant


class Modelling_kind(Enum):
    Template = "Template"
    Instance = "Instance"


class Color(Enum):
    Red = "red"
    Green = "green"


@verification
@implementation_specific
def names_are_unique(items: List["Item"]) -> bool:
    """Check that the names of the :paramref:`items` are unique."""


@verification
@implementation_specific
def is_well_formed(text: str) -> bool:
    """Check that the :paramref:`text` is well-formed."""


@verification
def matches_x(text: str) -> bool:
    """Check :paramref:`text`."""
    pattern = "^x*$"
    return match(pattern, text) is not None


@verification
def is_positive(value: int) -> bool:
    """Check :paramref:`value`."""
    return value > 0


@abstract
@serialization(with_model_type=True)
class Has_kind:
    kind: Optional["Modelling_kind"]

    @implementation_specific
    @non_mutating
    def kind_or_default(self) -> "Modelling_kind":
        pass

    def __init__(self, kind: Optional["Modelling_kind"] = None) -> None:
        self.kind = kind


class Item(Has_kind):
    name: str

    @implementation_specific
    @non_mutating
    def name_or_default(self) -> str:
        pass

    def __init__(self, name: str, kind: Optional["Modelling_kind"] = None) -> None:
        Has_kind.__init__(self, kind=kind)
        self.name = name


Colors: Set[Color] = constant_set(values=[Color.Red, Color.Green])

Words: Set[str] = constant_set(values=["a", "b"])

Some_text: str = constant_str(value="x")

Some_int: int = constant_int(value=3)


'''

ILL_TYPED_HOLDER = '''\
class Holder(DBC):
    some_color: Color
    some_int: int
    some_float: float
    some_bool: bool
    some_bytes: bytearray
    some_str: str
    some_strs: List[str]
    some_item: Item
    some_items: List[Item]
    maybe_color: Optional[Color]
    maybe_str: Optional[str]

    def __init__(
        self,
        some_color: Color,
        some_int: int,
        some_float: float,
        some_bool: bool,
        some_bytes: bytearray,
        some_str: str,
        some_strs: List[str],
        some_item: Item,
        some_items: List[Item],
        maybe_color: Optional[Color] = None,
        maybe_str: Optional[str] = None,
    ) -> None:
        self.some_color = some_color
        self.some_int = some_int
        self.some_float = some_float
        self.some_bool = some_bool
        self.some_bytes = some_bytes
        self.some_str = some_str
        self.some_strs = some_strs
        self.some_item = some_item
        self.some_items = some_items
        self.maybe_color = maybe_color
        self.maybe_str = maybe_str


'''

# One class per (atom, context) pair: the values live in the shared ``Holder`` (keeps the models small)
ILL_TYPED_CLASS = '''\
@invariant(
    lambda self: {expr},
    "Case {n}."
)
class Thing_{n}(DBC):
    holder: Holder

    def __init__(self, holder: Holder) -> None:
        self.holder = holder


'''

MODEL_TAIL = '__version__ = "dummy"\n__xml_namespace__ = "https://dummy.com"\n'

# (atom, kind of value)
ILL_TYPED_ATOMS: List[Tuple[str, str]] = [
    ("matches_x", "pattern verification function"),
    ("is_positive", "transpilable verification function"),
    ("is_well_formed", "implementation-specific verification function"),
    ("self.some_item.name_or_default", "method"),
    ("self.some_item.kind_or_default", "inherited method"),
    ("self.some_item.name_or_default()", "method call"),
    ("Color", "enumeration as type"),
    ("Color.Red", "enumeration literal"),
    ("self.some_color", "enumeration property"),
    ("self.maybe_color", "optional enumeration property"),
    ("self.some_color.value", "member of an enumeration instance"),
    ("Colors", "constant set of enumeration literals"),
    ("Words", "constant set of primitives"),
    ("Some_text", "constant str"),
    ("Some_int", "constant int"),
    ("self", "instance"),
    ("self.some_int", "int property"),
    ("self.some_float", "float property"),
    ("self.some_bool", "bool property"),
    ("self.some_bytes", "bytearray property"),
    ("self.some_str", "str property"),
    ("self.maybe_str", "optional str property"),
    ("self.some_strs", "list of str"),
    ("self.some_item", "class property"),
    ("self.some_items", "list of classes"),
    ("self.some_item.name", "nested property"),
    ("self.some_item.kind", "nested optional enumeration property"),
    ("Item", "class as value"),
    ("Thing_0", "own class as value"),
    ("len", "built-in function"),
    ("None", "None"),
    ("1", "int literal"),
    ('"x"', "str literal"),
    ("True", "bool literal"),
]

ILL_TYPED_CONTEXTS: List[str] = [
    "X is not None",
    "X is None",
    'X == "x"',
    "X == 1",
    "X > 0",
    "X < self.some_int",
    "len(X) > 0",
    'X.value == "x"',
    'X.name == "x"',
    "X.name_or_default() is None",
    'X[0] == "x"',
    'all(i == "x" for i in X)',
    "any(i > 0 for i in X)",
    "all(i > 0 for i in range(0, X))",
    'X("x")',
    "X(1)",
    "X()",
    '"a" in X',
    "X in Words",
    "X in Colors",
    "not X",
    "X and self.some_bool",
    "self.some_bool or X",
    "X + 1 > 0",
    "self.some_int - X > 0",
    "matches_x(X)",
    "is_positive(X)",
    "names_are_unique(X)",
    'f"{X}" == "x"',
    "not X or self.some_bool",
    "self.some_int == X",
    "self.some_str == X",
    "self.some_color == X",
    "X.unknown_member is None",
    "X",
    "len(self.some_strs) == X",
    "X.value",
    "all(X for i in self.some_strs)",
    "-X > 0",
]


def ill_typed_model(pairs: Sequence[Tuple[str, str]], list_of_str: bool = True) -> str:
    """The model with one class per (atom, context) pair, each carrying the one invariant.  Without ``list_of_str``
    the classes have no ``List[str]`` property (the Java generator refuses lists of primitives altogether); the list of
    classes stands in for it."""
    def expr(a: str, c: str) -> str:
        return c.replace("X", a).replace("self.some_", "self.holder.some_").replace("self.maybe_", "self.holder.maybe_")

    text = ILL_TYPED_HEAD + ILL_TYPED_HOLDER + "".join(ILL_TYPED_CLASS.format(expr=expr(a, c), n=i) for i, (a, c) in enumerate(pairs)) + MODEL_TAIL
    if not list_of_str:
        text = text.replace("    some_strs: List[str]\n", "").replace("        some_strs: List[str],\n", "").replace("        self.some_strs = some_strs\n", "").replace(".some_strs", ".some_items")
    return text


# A front-end error ends the run with the first offending class, so a pair which the *front end* refuses must not share a
# model with the others: ``None`` and a number as a value are refused by the parser in (nearly) every context; a call is
# refused when the callee is a literal, a call or a name which is no function; the negation of anything is refused.
ILL_TYPED_HAZARD_ATOMS = ["None", "1"]
ILL_TYPED_CALL_CONTEXTS = ['X("x")', "X(1)", "X()"]
ILL_TYPED_HAZARD_CONTEXTS = ["-X > 0"]
_FUNCTIONS = ["matches_x", "is_positive", "is_well_formed", "names_are_unique", "len"]


def _front_end_refuses(atom: str, context: str) -> bool:
    if atom in ILL_TYPED_HAZARD_ATOMS or context in ILL_TYPED_HAZARD_CONTEXTS:
        return True
    if context in ILL_TYPED_CALL_CONTEXTS:
        return atom.endswith(")") or atom[0] in '"0123456789' or atom in ("True", "False") or ("." not in atom and atom not in _FUNCTIONS)
    return False


def ill_typed_batches() -> List[Tuple[str, List[Tuple[str, str]]]]:
    """One model per context with a class for every atom, for the pairs which reach the generators: the report lists one
    error per ill-typed class."""
    out = []
    for c in ILL_TYPED_CONTEXTS:
        pairs = [(a, c) for a, _ in ILL_TYPED_ATOMS if not _front_end_refuses(a, c)]
        if pairs:
            out.append((f"ctx[{c}]", pairs))
    return out


def ill_typed_atom_batches() -> List[Tuple[str, List[Tuple[str, str]]]]:
    """The same pairs grouped the other way round: one model per atom with a class for every context."""
    out = []
    for a, _ in ILL_TYPED_ATOMS:
        pairs = [(a, c) for c in ILL_TYPED_CONTEXTS if not _front_end_refuses(a, c)]
        if pairs:
            out.append((f"atom[{a}]", pairs))
    return out


def ill_typed_singles(full: bool) -> List[Tuple[str, List[Tuple[str, str]]]]:
    """One model per pair, for pairs which the front end refuses: a call of every kind of non-function (a name of each
    kind, a literal, a call), negations, the hazard atoms in three contexts (``full``: every pair of the matrix)."""
    few = ("X is not None", 'X.value == "x"', "matches_x(X)")
    callees = ("Color", "Words", "Some_text", "self", "Item", '"x"', "True", "self.some_item.name_or_default()")
    out = []
    for a, _ in ILL_TYPED_ATOMS:
        for c in ILL_TYPED_CONTEXTS:
            if c in ILL_TYPED_HAZARD_CONTEXTS:
                chosen = a in ("matches_x", "self.some_int", "Color")
            elif a in ILL_TYPED_HAZARD_ATOMS:
                chosen = c in few or c == "X(1)"
            else:
                chosen = _front_end_refuses(a, c) and a in callees and (c != "X()" or a in ("Color", '"x"'))
            if full or chosen:
                out.append((f"[{a} @ {c}]", [(a, c)]))
    return out


# --------------------------------------------------------------------------------------------- degenerate collections

_DEG_IMPORTS = 'from enum import Enum\nfrom typing import List, Optional, Set\n\nfrom icontract import invariant\n\n\n'

# members differing only in case / white space / a trailing blank, in an order which is not the sorted one
DEGENERATE_WORDS = ["kilo", "Kilo", "KILO", "kilo ", " kilo", "ki lo", "kilo\\t", "mega", "Mega", "giga", "tera", "peta", "exa", "zetta", "yotta", ""]


def _constant_set(name: str, of: str, values: Sequence[str], superset_of: Sequence[str] = (), none_superset: bool = True, description: bool = True) -> str:
    lines = [f"{name}: Set[{of}] = constant_set(", "    values=[" + ", ".join(values) + "],"]
    if description:
        lines.append(f'    description="The set {name}.",')
    if superset_of or not none_superset:
        lines.append("    superset_of=[" + ", ".join(superset_of) + "],")
    lines.append(")")
    return "\n".join(lines) + "\n\n"


def _holder(name: str, props: Sequence[Tuple[str, str]], invariants: Sequence[Tuple[str, str]]) -> str:
    """A concrete class with required properties ``(name, type)`` and invariants ``(expression, description)``."""
    out: List[str] = []
    for expr, desc in invariants:
        out += ["@invariant(", f"    lambda self: {expr},", f'    "{desc}",', ")"]
    out += [f"class {name}(DBC):", f'    """Represent {name}."""', ""]
    for p, t in props:
        out += [f"    {p}: {t}", f'    """Property {p}"""', ""]
    out += ["    def __init__(self, " + ", ".join(f"{p}: {t}" + (" = None" if t.startswith("Optional[") else "") for p, t in props) + ") -> None:"]
    out += [f"        self.{p} = {p}" for p, _ in props] or ["        pass"]
    return "\n".join(out) + "\n\n\n"


def _quote(s: str) -> str:
    return '"' + s + '"'


def repeated(values: Sequence[str], rng: "random.Random | None" = None, times: int = 3) -> List[str]:
    """``values`` with some members listed again (not adjacent, not in the order of the first occurrences)."""
    vals = list(values)
    if rng is None:
        again = [vals[i] for i in (0, len(vals) // 2, len(vals) - 1)][:times]
        out = vals[:]
        out.insert(2, again[-1])
        out.append(again[0])
        out.insert(len(out) // 2, again[len(again) // 2])
        return out
    out = vals[:]
    for _ in range(times):
        out.insert(rng.randrange(len(out) + 1), rng.choice(vals))
    return out


_COLOR_NAMES = ["Red", "Green", "Blue", "Cyan", "Magenta", "Yellow", "Black", "White", "Orange", "Violet"]
_COLOR_ENUM = 'class Color(Enum):\n    """Represent a color."""\n\n' + "".join(f'    {n} = "{n.upper()}"\n' for n in _COLOR_NAMES) + "\n\n"
_COLORS = ["Color." + n for n in _COLOR_NAMES]
_PATTERN_FUNCS = "".join(
    f'@verification\ndef {fn}(text: str) -> bool:\n    """Check :paramref:`text`."""\n    pattern = "{pat}"\n    return match(pattern, text) is not None\n\n\n'
    for fn, pat in [("matches_lower", "^[a-z_]*$"), ("matches_leading_letter", "^[a-z][a-z_]*$"), ("matches_not_empty", "^[a-z_]+$"), ("matches_no_q", "^[a-pr-z_]*$")]
)


def _inv(expr: str, desc: str) -> str:
    return f'@invariant(\n    lambda self: {expr},\n    "{desc}",\n)\n'


def degenerate_parts() -> Dict[str, Tuple[str, str]]:
    """name -> (what it needs: "" / "color" / "patterns", text of the definitions).  All names are distinct over all
    parts, so that parts can be put into one model."""
    words = [_quote(w) for w in DEGENERATE_WORDS]
    ints = [str(i) for i in (10, 2, 33, 4, 5, 600, 7, 88, 9, 0, 1234567)]
    floats = ["1.5", "0.25", "3.0", "100.125", "2.0", "7.75", "0.5", "8.0", "9.5", "1e3"]
    shuffled = [_COLORS[i] for i in (7, 2, 9, 0, 4, 1, 8, 3, 6, 5)]
    parts: Dict[str, Tuple[str, str]] = {}
    # 1. constant sets of strings listing members twice and three times; >= 8 distinct members; case / white-space twins
    parts["dup_str"] = (
        "",
        _constant_set("Prefixes", "str", repeated(words))
        + _constant_set("Twice_everything", "str", words[:9] + words[:9])
        + _constant_set("Only_one_many_times", "str", [_quote("same")] * 8)
        + _holder("Str_holder", [("prefix", "str"), ("other", "str")], [("self.prefix in Prefixes", "Prefix shall be known."), ("self.other in Twice_everything", "Other shall be known.")]),
    )
    # 2. the same for the other primitive types (bytes literals and negative numbers are refused, see ``degenerate_refused``)
    parts["dup_int"] = (
        "",
        _constant_set("Sizes", "int", repeated(ints))
        + _constant_set("Single_size", "int", ["5"])
        + _constant_set("More_sizes", "int", repeated(ints + ["77", "78"]), ["Sizes", "Single_size", "Sizes"])
        + _holder("Int_holder", [("size", "int")], [("self.size in Sizes", "Size shall be known.")]),
    )
    parts["dup_float"] = ("", _constant_set("Ratios", "float", repeated(floats)) + _holder("Float_holder", [("ratio", "float")], []))
    parts["dup_bool"] = ("", _constant_set("Flags", "bool", ["True", "False", "True", "True", "False"]) + _holder("Bool_holder", [("flag", "bool")], []))
    # 3. many enumeration literals, not in the order of the enumeration (a repeated literal is refused)
    parts["many_enum"] = (
        "color",
        _constant_set("Some_colors", "Color", shuffled[:8])
        + _constant_set("Twice_every_color", "Color", shuffled, ["Some_colors", "Only_red", "Some_colors"])
        + _constant_set("Only_red", "Color", ["Color.Red"])
        + _holder(
            "Color_holder",
            [("color", "Color"), ("maybe_color", "Optional[Color]")],
            [("self.color in Some_colors", "Color shall be known."), ("self.maybe_color is None or self.maybe_color in Twice_every_color", "Maybe-color shall be known.")],
        ),
    )
    # 4. superset_of: empty list, one set, the same set twice, several sets in non-sorted order, chains; with repeated members in the subsets
    parts["supersets"] = (
        "color",
        _constant_set("Zulu_words", "str", [_quote("a"), _quote("b"), _quote("a")])
        + _constant_set("Alpha_words", "str", [_quote("c")])
        + _constant_set("Mike_words", "str", [_quote("b"), _quote("c"), _quote("b"), _quote("c")])
        + _constant_set("Empty_superset", "str", [_quote("x"), _quote("y")], [], none_superset=False)
        + _constant_set("Superset_of_one", "str", [_quote("c"), _quote("d")], ["Alpha_words"])
        + _constant_set("Superset_of_the_same_twice", "str", [_quote("a"), _quote("b"), _quote("z")], ["Zulu_words", "Zulu_words"])
        + _constant_set(
            "Superset_of_many", "str", repeated([_quote(c) for c in "zyxwvutsrqponmlkjihgfedcba"]), ["Zulu_words", "Mike_words", "Alpha_words", "Superset_of_one", "Zulu_words", "Superset_of_the_same_twice"]
        )
        + _constant_set("Warm_colors", "Color", ["Color.Red", "Color.Orange"])
        + _constant_set("Dark_colors", "Color", ["Color.Black"])
        + _constant_set("All_colors", "Color", list(reversed(_COLORS)), ["Warm_colors", "Dark_colors", "Warm_colors"])
        + _holder("Word_holder", [("word", "str"), ("hue", "Color")], [("self.word in Superset_of_many", "Word shall be known."), ("self.hue in All_colors", "Hue shall be known.")])
        + _holder("Narrow_word_holder", [("word", "str")], [("self.word in Zulu_words", "Word shall be known.")]),
    )
    # 5. several (and repeated) patterns on one value, the same condition in parent and child (equal *descriptions* are refused)
    narrower = 'class Narrower(Named, DBC):\n    """Represent something narrower."""\n\n    def __init__(self, name: str, other_name: str) -> None:\n        Named.__init__(self, name=name, other_name=other_name)\n\n\n'
    parts["equal_invariants"] = (
        "patterns",
        "@abstract\n@serialization(with_model_type=True)\n"
        + _holder(
            "Named",
            [("name", "str"), ("other_name", "str")],
            [("matches_lower(self.name)", "Name shall be fine."), ("matches_not_empty(self.name)", "Name shall not be empty."), ("len(self.name) >= 1", "Name shall be long."), ("matches_lower(self.other_name)", "Other name shall be fine.")],
        )
        # the child repeats two of the conditions of the parent (under other descriptions) and adds two more patterns on the same value
        + _inv("matches_no_q(self.name)", "Name shall contain no Q.") + _inv("matches_leading_letter(self.name)", "Name shall start with a letter.") + _inv("matches_lower(self.name)", "Name shall be fine, again.")
        + _inv("matches_lower(self.other_name)", "Other name shall be fine, again.") + _inv("matches_lower(self.name)", "Name shall be fine, once more.") + narrower
        + _inv("matches_lower(self)", "Text shall be fine.") + _inv("matches_not_empty(self)", "Text shall not be empty.") + _inv("matches_no_q(self)", "Text shall contain no Q.")
        + _inv("matches_lower(self)", "Text shall be fine, again.") + 'class Fine_text(str, DBC):\n    """Represent a fine text."""\n\n\n'
        + _inv("matches_lower(self)", "Text shall be fine, once more.") + _inv("matches_leading_letter(self)", "Text shall start with a letter.")
        + 'class Finer_text(Fine_text, DBC):\n    """Represent a finer text."""\n\n\n'
        + _holder(
            "Named_container",
            [("named_things", "List[Named]"), ("fine_text", "Fine_text"), ("finer_text", "Finer_text")],
            [("len(self.named_things) >= 1", "Named things shall be given."), ("len(self.named_things) >= 1", "Named things shall not be empty.")],
        ),
    )
    # 6. single-member collections: an enumeration with one literal, a set with one member, classes with one property and with none,
    #    the only concrete descendant of an abstract class
    parts["singles"] = (
        "",
        'class Lonely(Enum):\n    """Represent a lonely choice."""\n\n    Only = "only"\n\n\n'
        + _constant_set("One_word", "str", [_quote("one")])
        + _constant_set("One_choice", "Lonely", ["Lonely.Only"], description=False)
        + "@abstract\n@serialization(with_model_type=True)\n" + _holder("Abstract_thing", [], [])
        + 'class Only_descendant(Abstract_thing, DBC):\n    """Represent the only descendant."""\n\n    choice: Lonely\n    """Choice"""\n\n    def __init__(self, choice: Lonely) -> None:\n        self.choice = choice\n\n\n'
        + _holder("Propertyless", [], [])
        + _holder("Thing_container", [("thing", "Abstract_thing"), ("things", "List[Abstract_thing]"), ("one_word", "str")], [("self.one_word in One_word", "Word shall be the one.")]),
    )
    # 7. empty collections
    parts["empties"] = (
        "",
        _constant_set("No_words", "str", []) + _constant_set("Some_words", "str", [_quote("a")], ["No_words"]) + _holder("Some_word_holder", [("some_word", "str")], [("self.some_word in Some_words", "Word shall be known.")]),
    )
    parts["empty_enum"] = (
        "",
        'class Nothing(Enum):\n    """Represent no choice."""\n\n\n' + _constant_set("No_choices", "Nothing", []) + _holder("Nothing_holder", [("nothing", "Optional[Nothing]")], []),
    )
    return parts


DEGENERATE_GROUPS: Dict[str, List[str]] = {
    "deg_sets": ["dup_str", "dup_int", "dup_float", "dup_bool", "many_enum", "supersets"],
    "deg_invariants": ["equal_invariants"],
    "deg_small": ["singles", "empties", "empty_enum"],
}


def _assemble(doc: str, parts: Sequence[Tuple[str, str]]) -> str:
    needs = {n for n, _ in parts}
    return f'"""{doc} (C22)."""\n' + _DEG_IMPORTS + (_COLOR_ENUM if "color" in needs else "") + (_PATTERN_FUNCS if "patterns" in needs else "") + "".join(t for _, t in parts) + MODEL_TAIL


def degenerate_models(grouped: bool) -> Dict[str, str]:
    """The enumerated accepted members of the class: one model per construct family (so that the refusal of one construct
    by some generator does not hide the others), or (``grouped``, the quick tier) the families in three models."""
    parts = degenerate_parts()
    if grouped:
        return {g: _assemble(f"Provide degenerate collections: {', '.join(names)}", [parts[n] for n in names]) for g, names in DEGENERATE_GROUPS.items()}
    return {"deg_" + n: _assemble(f"Provide degenerate collections: {n}", [pt]) for n, pt in parts.items()}


def degenerate_refused() -> Dict[str, str]:
    """Degenerate members which the front end refuses (so far): the report must be the same in every process."""
    color, colors = _COLOR_ENUM, _COLORS
    byts = ['b"\\x00\\x01"', 'b"kilo"', 'b"Kilo"', 'b"kilo "', 'b""', 'b"\\xff"', 'b"mega"', 'b"giga"', 'b"tera"']
    models: Dict[str, str] = {}
    models["dup_enum"] = (
        '"""Provide constant sets of enumeration literals with repeated members (C22)."""\n' + _DEG_IMPORTS + color
        + _constant_set("Some_colors", "Color", repeated(colors))
        + _constant_set("Twice_every_color", "Color", colors + list(reversed(colors)))
        + _constant_set("Only_red", "Color", ["Color.Red", "Color.Red", "Color.Red"])
        + _holder("Something", [("color", "Color")], [("self.color in Some_colors", "Color shall be known.")])
        + MODEL_TAIL
    )
    models["dup_bytes"] = '"""Provide a constant set of bytes with repeated members (C22)."""\n' + _DEG_IMPORTS + _constant_set("Blobs", "bytearray", repeated(byts)) + _holder("Something", [("blob", "bytearray")], []) + MODEL_TAIL
    models["negative_numbers"] = (
        '"""Provide constant sets with negative numbers (C22)."""\n' + _DEG_IMPORTS + _constant_set("Sizes", "int", ["1", "-4", "1", "-4", "-5"]) + _constant_set("Ratios", "float", ["-3.0", "1.5", "-3.0"])
        + _holder("Something", [("size", "int")], []) + MODEL_TAIL
    )
    name_fine = [("matches_lower(self.name)", "Name shall be fine."), ("len(self.name) >= 1", "Name shall be fine."), ("matches_lower(self.name)", "Name shall be fine."), ("len(self.other) >= 1", "Other shall be fine."),
                 ("len(self.other) >= 2", "Other shall be fine.")]
    models["equal_descriptions"] = (
        '"""Provide invariants with equal descriptions in one class (C22)."""\n' + _DEG_IMPORTS
        + '@verification\ndef matches_lower(text: str) -> bool:\n    """Check :paramref:`text`."""\n    pattern = "^[a-z_]*$"\n    return match(pattern, text) is not None\n\n\n'
        + _holder("Named", [("name", "str"), ("other", "str")], name_fine)
        + _holder("Also_named", [("name", "str"), ("other", "str")], list(reversed(name_fine)))
        + MODEL_TAIL
    )
    models["equal_descriptions_inherited"] = (
        '"""Provide invariants whose descriptions repeat the ones of the parents (C22)."""\n' + _DEG_IMPORTS
        + "@abstract\n@serialization(with_model_type=True)\n" + _holder("Named", [("name", "str"), ("other", "str")], [("len(self.name) >= 1", "Name shall be fine."), ("len(self.other) >= 1", "Other shall be fine."), ("len(self.name) >= 2", "Name shall be long.")])
        + "".join(
            f'@invariant(\n    lambda self: len(self.{p}) >= {k},\n    "{d}",\n)\n' for k, (p, d) in enumerate([("other", "Other shall be fine."), ("name", "Name shall be long."), ("name", "Name shall be fine."), ("other", "Something else.")])
        )
        + 'class Narrower(Named, DBC):\n    """Represent something narrower."""\n\n    def __init__(self, name: str, other: str) -> None:\n        Named.__init__(self, name=name, other=other)\n\n\n'
        + MODEL_TAIL
    )
    models["equal_literal_values"] = (
        '"""Provide enumeration literals with equal values (C22)."""\n' + _DEG_IMPORTS
        + 'class Color(Enum):\n    """Represent a color."""\n\n    Red = "same"\n    Green = "same"\n    Blue = "other"\n    Cyan = "same"\n    Rot = "Same"\n    Gruen = "other"\n\n\n'
        + 'class Shape(Enum):\n    """Represent a shape."""\n\n    Circle = "o"\n    Ring = "o"\n    Circle = "O"\n\n\n'
        + _constant_set("Some_colors", "Color", ["Color.Red", "Color.Green", "Color.Cyan", "Color.Rot"])
        + _holder("Something", [("color", "Color")], [("self.color in Some_colors", "Color shall be known.")])
        + MODEL_TAIL
    )
    models["dangling_supersets"] = (
        '"""Provide sets with unknown subsets, listed twice (C22)."""\n' + _DEG_IMPORTS + color
        + _constant_set("Other_words", "str", [_quote("a")], ["Missing_words", "Unknown_words", "Missing_words", "Absent_words"])
        + _constant_set("Some_colors", "Color", ["Color.Red"], ["Missing_colors", "Absent_colors", "Missing_colors"])
        + _holder("Something", [("word", "str")], [])
        + MODEL_TAIL
    )
    models["ill_supersets"] = (
        '"""Provide a set which lists itself as a subset, ill-typed subsets and subsets with foreign members (C22)."""\n' + _DEG_IMPORTS + color
        + _constant_set("Words", "str", [_quote("a"), _quote("b")], ["Words"])
        + _constant_set("Numbers", "int", ["1", "2", "3"])
        + _constant_set("Big_words", "str", [_quote("z"), _quote("y"), _quote("x"), _quote("w"), _quote("v"), _quote("u"), _quote("t"), _quote("s"), _quote("r")])
        + _constant_set("Other_words", "str", [_quote("a")], ["Words", "Some_colors", "Numbers", "Big_words", "Words", "Big_words"])
        + _constant_set("Some_colors", "Color", ["Color.Red"], ["Other_words", "All_colors", "All_colors"])
        + _constant_set("All_colors", "Color", list(reversed(colors)))
        + _holder("Something", [("word", "str")], [])
        + MODEL_TAIL
    )
    return models


def generator_refused() -> Dict[str, Tuple[List[str], str]]:
    """Models which the front end accepts and a *generator* refuses: name -> (targets which refuse it, text); each with
    several offenders."""
    head = '"""Provide a model which a generator refuses (C22)."""\n' + _DEG_IMPORTS

    def pat(fn: str, p: str) -> str:
        return f'@verification\ndef {fn}(text: str) -> bool:\n    """Check :paramref:`text`."""\n    pattern = "{p}"\n    return match(pattern, text) is not None\n\n\n'

    def cls(name: str, invs: Sequence[Tuple[str, str]], extra: str = "") -> str:
        return (
            "".join(_inv(e, d) for e, d in invs)
            + f'class {name}(DBC):\n    """Represent {name}."""\n\n    text: str\n    """Text"""\n\n    other: str\n    """Other"""\n\n{extra}'
            + "    def __init__(self, text: str, other: str) -> None:\n        self.text = text\n        self.other = other\n\n\n"
        )

    sdk = ["cpp", "csharp", "golang", "java", "python", "typescript"]
    methods = '    def is_long(self) -> bool:\n        """Check the length."""\n        return len(self.text) > 10\n\n    def is_short(self) -> bool:\n        """Check the length."""\n        return len(self.text) < 3\n\n'
    out: Dict[str, Tuple[List[str], str]] = {}
    out["patterns_with_dot"] = (
        ["xsd"],
        head + pat("matches_a", "^a.*[0-9]$") + pat("matches_b", "^.b[0-9]*$") + pat("matches_c", "^[^c].*$")
        + cls("First", [("matches_a(self.text)", "A."), ("matches_b(self.text)", "B."), ("matches_c(self.other)", "C."), ("matches_a(self.other)", "A other.")])
        + cls("Second", [("matches_b(self.text)", "B."), ("matches_c(self.text)", "C."), ("matches_a(self.text)", "A.")])
        + MODEL_TAIL,
    )
    out["surrogate_constants"] = (
        ["golang"],
        head + 'Lone: str = constant_str(value="a\\ud800b", description="A lone surrogate.")\n\nAnother_lone: str = constant_str(value="\\udfff", description="Another lone surrogate.")\n\n'
        + 'Lone_words: Set[str] = constant_set(values=["x\\ud801", "fine", "\\udc00y"], description="Words.")\n\n' + cls("First", []) + MODEL_TAIL,
    )
    out["non_ascii_namespace"] = (["cpp", "xsd"], head + cls("First", []) + cls("Second", []) + '__version__ = "dummy"\n__xml_namespace__ = "https://d\u00fcmmy.com/\u4e16\u754c"\n')
    out["blank_in_namespace"] = (["xsd"], head + cls("First", []) + '__version__ = "dummy"\n__xml_namespace__ = "https://dummy .com/a b"\n')
    out["understood_methods"] = (sdk, head + cls("First", [], methods) + cls("Second", [], methods) + cls("Third", [], methods.replace("is_long", "is_huge")) + MODEL_TAIL)
    return out


def random_degenerate_refused(rng: random.Random) -> str:
    """A seeded random refused member: repeated enumeration literals and foreign members of subsets, many of each."""
    n = rng.randrange(8, 13)
    literals = [f"Literal_{i}" for i in range(n)]
    chosen = ["Choice." + lit for lit in literals]
    rng.shuffle(chosen)
    words = [_quote(f"word{i}") for i in range(n)]
    rng.shuffle(words)
    text = '"""Provide random refused constant sets (C22)."""\n' + _DEG_IMPORTS
    text += 'class Choice(Enum):\n    """Represent a choice."""\n\n' + "".join(f'    {lit} = "{lit.lower()}"\n' for lit in literals) + "\n\n"
    text += _constant_set("Choices", "Choice", repeated(chosen, rng, rng.randrange(3, 7)))
    text += _constant_set("Many_words", "str", repeated(words, rng, 3))
    text += _constant_set("Few_words", "str", words[:2], ["Many_words", "Many_words"])
    text += _holder("Something", [("word", "str")], [("self.word in Few_words", "Word shall be known.")])
    return text + MODEL_TAIL


def random_degenerate_model(rng: random.Random) -> str:
    """A seeded random member: constant sets of strings / integers / enumeration literals with 8-14 distinct members,
    1-5 of them listed again at random positions, a chain of supersets listed with repetitions, a class using them."""
    n = rng.randrange(8, 15)
    pool = [f"{rng.choice(['al', 'be', 'ga', 'de', 'ep', 'ze', 'et', 'th', 'io', 'ka'])}{rng.choice(['pha', 'ta', 'mma', 'lta', 'silon'])}{i}" for i in range(n)]
    for i in rng.sample(range(n), 2):  # twins which differ only in case / a blank
        pool.append(rng.choice([pool[i].upper(), pool[i].capitalize(), pool[i] + " ", " " + pool[i]]))
    rng.shuffle(pool)
    words = [_quote(w) for w in pool]
    ints = [str(rng.randrange(0, 5000)) for _ in range(n)]
    literals = [f"Literal_{i}" for i in range(n)]
    rng.shuffle(literals)
    text = '"""Provide random constant sets with repeated members (C22)."""\n' + _DEG_IMPORTS
    text += 'class Choice(Enum):\n    """Represent a choice."""\n\n' + "".join(f'    {lit} = "{lit.lower()}-{rng.choice("qwertz")}"\n' for lit in sorted(literals)) + "\n\n"
    sub = rng.sample(words, 3)
    text += _constant_set("Few_words", "str", repeated(sub, rng, 1))
    mid = sub + [w for w in rng.sample(words, 6) if w not in sub]
    text += _constant_set("More_words", "str", repeated(mid, rng, rng.randrange(1, 4)), rng.choice([["Few_words"], ["Few_words", "Few_words"]]))
    text += _constant_set("All_words", "str", repeated(words, rng, rng.randrange(1, 6)), rng.choice([["More_words", "Few_words"], ["Few_words", "More_words", "Few_words"], ["More_words"]]))
    text += _constant_set("Numbers", "int", repeated(ints, rng, rng.randrange(1, 6)))
    chosen = ["Choice." + lit for lit in literals]
    few = rng.sample(chosen, 3)
    text += _constant_set("Few_choices", "Choice", few)
    text += _constant_set("Choices", "Choice", chosen, rng.choice([[], ["Few_choices"], ["Few_choices", "Few_choices"]]))
    text += _holder(
        "Something",
        [("word", "str"), ("amount", "int"), ("choice", "Choice")],
        [("self.word in All_words", "Word shall be known."), ("self.amount in Numbers", "Amount shall be known."), ("self.choice in Choices", "Choice shall be known.")],
    )
    return text + MODEL_TAIL


# --------------------------------------------------------------------------------------------- refused-model representatives

REPRESENTATIVES = "corpus/C22/models/rejected/representatives.json"


def message_shape(line: str) -> str:
    """A line of an error report with everything input-specific masked (numbers, quoted names, paths, addresses)."""
    import re

    line = re.sub(r"0x[0-9a-f]+", "0xADDR", line)
    line = re.sub(r"'[^'\n]*'", "'Q'", line)
    line = re.sub(r'"[^"\n]*"', '"Q"', line)
    line = re.sub(r"\d+", "N", line)
    line = re.sub(r"/\S+", "/PATH", line)
    return line.strip()[:100]


def build_representatives(repo: str, out_path: str) -> None:
    """(Re)build the representatives: a greedy cover of the *shapes of the report lines* which the front end prints for
    the enumerated invalid meta-models of the C01 harness (targeted constructs, hand-written probes, role x catalogue
    mutants of the small valid bases; about 2 900 models), shortest reports first.  Run by hand on the pinned tree:
    ``VERIF_REPO=... python -m harness.props.c22_inputs``; the chosen texts (not indices) are stored."""
    import contextlib
    import io
    import json
    import pathlib
    import sys
    import tempfile

    sys.path.insert(0, repo)
    import aas_core_codegen.main as m  # noqa

    from harness.props import c01

    work = pathlib.Path(tempfile.mkdtemp(prefix="c22-representatives-"))
    (work / "snippets").mkdir()
    (work / "snippets" / "schema_base.json").write_text("{}\n")
    runs = []
    for kind, text, _ in c01.enumerated_cases("quick"):
        try:
            data = text.encode("utf-8")
            if json.loads(json.dumps(text)) != text or "\x00" in text:
                continue
        except (UnicodeError, ValueError):
            continue
        (work / "meta_model.py").write_bytes(data)
        out, err = io.StringIO(), io.StringIO()
        argv = sys.argv
        sys.argv = ["aas-core-codegen", "--model_path", str(work / "meta_model.py"), "--snippets_dir", str(work / "snippets"), "--output_dir", str(work / "out"), "--target", "jsonschema"]
        try:
            with contextlib.redirect_stdout(out), contextlib.redirect_stderr(err):
                try:
                    rc = m.main(prog="aas-core-codegen")
                except BaseException:  # noqa
                    continue  # crashes are the business of C01
        finally:
            sys.argv = argv
        if rc == 1 and err.getvalue().strip():
            runs.append((kind, text, err.getvalue()))
    covered: set = set()
    chosen = []
    for kind, text, err in sorted(runs, key=lambda r: (len(r[2]), r[1])):
        shapes = {message_shape(ln) for ln in err.split("\n") if ln.strip()}
        if shapes - covered:
            covered |= shapes
            chosen.append({"name": f"{kind}-{len(chosen):04d}", "text": text, "shape": sorted(shapes)[-1]})
    pathlib.Path(out_path).parent.mkdir(parents=True, exist_ok=True)
    pathlib.Path(out_path).write_text(json.dumps(chosen, indent=0, ensure_ascii=True) + "\n")
    print(f"{len(runs)} refused models, {len(covered)} line shapes, {len(chosen)} representatives -> {out_path}")


if __name__ == "__main__":
    import os
    import pathlib

    build_representatives(os.environ.get("VERIF_REPO", "/repo"), str(pathlib.Path(__file__).resolve().parents[2] / REPRESENTATIVES))
