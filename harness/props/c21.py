"""
C21 — Distinct meta-model names never collide in generated code.

correspond:
  * `conv`     every single-argument function of naming.py / <target>/naming.py vs Model.Naming
               on all case/underscore/digit variants of 1–3-part identifiers (seed independent) + random;
  * `isident`  common.IDENTIFIER_RE vs Naming.isIdent, and the real front end never accepts a
               non-ASCII identifier (the ASCII-only assumption of the model);
  * `verify`   verdict (+ number of collisions) of <target>.lib.verify_for_types /
               jsonschema + xsd generation vs Collide.verify on small generated meta-models seeded
               with near-collisions in every scope kind.
oracle (independent of Lean):
  methods (user snippets, never declared by a generator): two methods of a class that the target's method_name makes
  equal must make verify_for_types report an error;
  run main.execute per target; when it returns 0, read the generated files (c21_decl) and report
  every name declared twice in one scope / fewer JSON definitions or properties than entities / fewer named XSD root
  children per tag than entities (a repeated definition that was silently merged or dropped shows only in the count).

Input streams of the meta-model part: corpus, `enumerated_mms` (one hand-made model per scope kind), `enumerated_pair_mms`
(seed independent matrix: every kind combination of two entities x name pairs that collide under SOME target's conversion,
incl. entities of equal content, class vs a type called like its interface, literal and property pairs), seeded random.
"""
from __future__ import annotations

import importlib
import itertools
import json
import keyword
import pathlib
import re
import unicodedata
from typing import Any, Dict, Iterator, List, Optional, Sequence, Tuple

from harness import core
from harness.core import Ctx, corpus, crash_name, dec_text, enc_list, enc_text
from harness.props import c21_decl, c21_gen, c21_mm
from harness.props.c21_gen import gen_Naming  # noqa: F401  (used by the runner through GEN)

ID = "C21"
GEN = ["Naming"]

TARGETS = c21_mm.TARGETS
SDK = c21_mm.SDK_TARGETS

# functions of the naming modules that do not map one identifier to one identifier
NOT_CONVERSIONS = {
    "csharp.name_of",
    "java.name_of",
    "python.name_of",
    "typescript.name_of",
    "golang.receiver_name",
    "golang._over_potential_receivers",
}
TWO_ARGS = {"golang.enum_literal_name"}

# --------------------------------------------------------------------------- identifiers

PART_POOL = ["ab", "Ab", "AB", "aB", "a1", "A1", "1a", "1A", "1", ""]


def is_ident(s: str) -> bool:
    return re.fullmatch(r"[a-zA-Z_][a-zA-Z_0-9]*", s) is not None


def enumerated_identifiers() -> List[str]:
    """All 1–3-part names over PART_POOL that are identifiers (seed independent)."""
    out = []
    seen = set()
    for k in (1, 2, 3):
        for parts in itertools.product(PART_POOL, repeat=k):
            s = "_".join(parts)
            if is_ident(s) and s not in seen:
                seen.add(s)
                out.append(s)
    for s in ["type", "Type", "TYPE", "typE", "set_type", "x", "X", "_", "__", "a__b", "Model_type", "Value_data_type"]:
        if s not in seen:
            seen.add(s)
            out.append(s)
    return out


WORDS = ["thing", "URL", "url", "Url", "id", "ID", "x", "value", "data", "kind", "a1", "b2", "I", "k", "item", "choice", "abc", "no", "xs"]


def random_identifier(rng: Any, upper_first: bool = False) -> str:
    n = rng.choice([1, 1, 2, 2, 2, 3, 4])
    parts = []
    for i in range(n):
        w = rng.choice(WORDS)
        r = rng.random()
        if r < 0.15:
            w = w.upper()
        elif r < 0.3:
            w = w.capitalize()
        elif r < 0.4:
            w = w.lower()
        elif r < 0.45:
            w = str(rng.randint(0, 99)) + w
        elif r < 0.5:
            w = ""
        parts.append(w)
    s = "_".join(parts)
    if not is_ident(s) or keyword.iskeyword(s):
        s = "x" + s
    if upper_first:
        s = s.lstrip("_") or "X"
        if s[0].isdigit():
            s = "X" + s
        s = s[0].upper() + s[1:]
    return s


def near_variant(rng: Any, s: str, keep_first: bool = False) -> str:
    """A different identifier that collides with `s` under some (not all) conversions."""
    for _ in range(8):
        op = rng.choice(["upper-part", "lower-part", "cap-part", "swapcase-char", "double-us", "trail-us", "lead-us", "join-digit", "split-digit", "upper-all", "lower-all"])
        parts = s.split("_")
        i = rng.randrange(len(parts))
        t = s
        if op == "upper-part":
            parts[i] = parts[i].upper()
            t = "_".join(parts)
        elif op == "lower-part":
            parts[i] = parts[i].lower()
            t = "_".join(parts)
        elif op == "cap-part":
            parts[i] = parts[i].capitalize()
            t = "_".join(parts)
        elif op == "swapcase-char" and s:
            j = rng.randrange(len(s))
            t = s[:j] + s[j].swapcase() + s[j + 1 :]
        elif op == "double-us" and "_" in s:
            j = s.index("_")
            t = s[:j] + "_" + s[j:]
        elif op == "trail-us":
            t = s + "_"
        elif op == "lead-us":
            t = "_" + s
        elif op == "join-digit":
            t = re.sub(r"_(\d)", r"\1", s, count=1)
        elif op == "split-digit":
            t = re.sub(r"([a-zA-Z])(\d)", r"\1_\2", s, count=1)
        elif op == "upper-all":
            t = s.upper()
        elif op == "lower-all":
            t = s.lower()
        if keep_first and (not t or not t[0].isupper()):
            continue
        if t != s and is_ident(t) and not keyword.iskeyword(t):
            return t
    return s + "_"


# --------------------------------------------------------------------------- meta-model generator

SEED_KINDS = [
    "none",
    "structures",
    "interface",
    "literals",
    "props",
    "inherited-prop",
    "accessor",
    "methods",
    "method-prop",
    "consts",
    "funcs",
    "go-literal",
    "model-type",
    "enum-class",
]


def random_mm(rng: Any, seed_kind: Optional[str] = None, with_methods: bool = True) -> Dict[str, Any]:
    kind = seed_kind or rng.choice(SEED_KINDS)
    used_names: set = set()

    def fresh(upper_first: bool) -> str:
        for _ in range(50):
            s = random_identifier(rng, upper_first)
            if s not in used_names and s not in ("Enum", "DBC", "List", "Optional", "Set", "match", "int", "str") and not s.startswith("__"):
                used_names.add(s)
                return s
        s = ("X" if upper_first else "x") + str(len(used_names))
        used_names.add(s)
        return s

    def variant(s: str, keep_first: bool = False) -> str:
        for _ in range(20):
            t = near_variant(rng, s, keep_first)
            if t not in used_names and not t.startswith("__"):
                used_names.add(t)
                return t
        t = s + "_" + str(len(used_names))
        used_names.add(t)
        return t

    types: List[Dict[str, Any]] = []
    n_enums = rng.choice([0, 1, 1, 2])
    if kind in ("literals", "go-literal", "enum-class") and n_enums == 0:
        n_enums = 1
    for _ in range(n_enums):
        lits = []
        lit_names: set = set()
        for _ in range(rng.choice([1, 2, 3])):
            s = random_identifier(rng, upper_first=rng.random() < 0.7)
            if s not in lit_names and not s.startswith("_"):
                lit_names.add(s)
                lits.append(s)
        types.append({"kind": "enum", "name": fresh(True), "literals": lits or ["A"]})
    if rng.random() < 0.3:
        types.append({"kind": "cprim", "name": fresh(True)})
    n_classes = rng.choice([1, 2, 2, 3, 4])
    classes: List[Dict[str, Any]] = []
    for i in range(n_classes):
        parent = None
        abstract = rng.random() < 0.3
        cands = [c for c in classes if c["abstract"] or c.get("with_model_type")]
        if cands and rng.random() < 0.5:
            parent = rng.choice(cands)["name"]
        inherited = set(c21_mm._inherited_props({"types": classes}, {"parent": parent})) if parent else set()
        inherited_m = set(c21_mm.all_methods({"types": classes}, {"parent": parent, "methods": []})) if parent else set()
        props: List[Any] = []
        names: set = set(inherited) | inherited_m
        for _ in range(rng.choice([0, 1, 2, 2, 3])):
            s = random_identifier(rng)
            if s not in names and s != "self" and not s.startswith("__"):
                names.add(s)
                props.append([s, "int"])
        methods: List[str] = []
        if with_methods and rng.random() < 0.4:
            for _ in range(rng.choice([1, 2])):
                s = random_identifier(rng)
                if s not in names and not s.startswith("__"):
                    names.add(s)
                    methods.append(s)
        c = {
            "kind": "class",
            "name": fresh(True),
            "abstract": abstract,
            "parent": parent,
            "props": props,
            "methods": methods,
            "with_model_type": (not abstract) and rng.random() < 0.4,
        }
        classes.append(c)
        types.append(c)
    # references: some properties get an enum / class type
    referable = [t for t in types if t["kind"] in ("enum", "class")]
    for c in classes:
        for p in c["props"]:
            if rng.random() < 0.3 and referable:
                ref = rng.choice(referable)
                if ref is not c:
                    p[1] = ref["name"]
    consts = [{"name": fresh(True), "kind": rng.choice(["str", "set"])} for _ in range(rng.choice([0, 1, 2]))]
    funcs = ["matches_" + random_identifier(rng) for _ in range(rng.choice([0, 1, 2]))]
    funcs = list(dict.fromkeys(funcs))
    mm = {"types": types, "consts": consts, "funcs": funcs, "seeded": kind}

    def fix_abstract() -> None:
        # an abstract class without a concrete descendant, and a class without any property, crash several
        # generators (not our property)
        fl = flags_of(mm)
        for t in classes:
            if t.get("abstract") and not fl["has_desc"][t["name"]]:
                t["abstract"] = False
        for t in classes:
            if not c21_mm.all_props(mm, t):
                t["props"].append(["only_prop", "int"])

    def member_names(c: Dict[str, Any]) -> set:
        return set(c21_mm.all_props(mm, c)) | set(c21_mm.all_methods(mm, c))

    def descendants_ok(c: Dict[str, Any], name: str) -> bool:
        # a new member must not clash (as a Python name) with members of c's subclasses
        for d in classes:
            cur = d
            chain = []
            while cur is not None:
                chain.append(cur)
                cur = next((x for x in classes if x["name"] == cur.get("parent")), None)
            if c in chain and name in member_names(d):
                return False
        return True

    enums = [t for t in types if t["kind"] == "enum"]
    c = rng.choice(classes)
    if kind == "structures":
        # a second entity of any kind whose name nearly equals the name of an existing one; in 40 % of the cases of EQUAL
        # content (same properties / same literal values), so that the two generated definitions are equal as well
        a = rng.choice(types)
        nm = variant(a["name"], keep_first=True)
        same = rng.random() < 0.4
        r = rng.random()
        new: Dict[str, Any]
        if (same and a["kind"] == "enum") or (not same and r < 0.2):
            new = {"kind": "enum", "name": nm, "literals": ["A"]}
            if same:
                a["values"] = [f"w{k}" for k in range(len(a["literals"]))]
                new["literals"] = list(a["literals"])
                new["values"] = list(a["values"])
                if rng.random() < 0.5:
                    # (the definition is a sorted set of values: neither the names nor the order of the literals matter)
                    new["literals"] = [f"Lit_{k}" for k in range(len(a["literals"]))][::-1]
                    new["values"] = list(a["values"])[::-1]
        elif (same and a["kind"] == "cprim") or (not same and r < 0.3):
            new = {"kind": "cprim", "name": nm}
        else:
            new = dict(rng.choice(classes), name=nm, parent=None, props=[["p", "int"]], methods=[], with_model_type=False)
            new["abstract"] = rng.random() < 0.3
            if same and a["kind"] == "class":
                new["props"] = [list(c21_mm.prop_pair(p)) for p in a["props"]]
                new["abstract"] = False
        types.insert(rng.randrange(len(types) + 1), new)
        if new["kind"] == "class":
            classes.append(new)
    elif kind == "interface":
        a = rng.choice(classes)
        nm = "I_" + a["name"]
        r = rng.random()
        if r < 0.3:
            nm = "I" + a["name"][0].lower() + a["name"][1:]
        elif r < 0.8:
            # capital kept: the front end reserves only `I_`; Go keeps capitalised parts, so this is `I<Name>` there
            nm = "I" + a["name"]
        if nm not in used_names:
            used_names.add(nm)
            if rng.random() < 0.5:
                types.append({"kind": "enum", "name": nm, "literals": ["A"]})
            else:
                new = {"kind": "class", "name": nm, "abstract": False, "parent": None, "props": [], "methods": [], "with_model_type": False}
                types.append(new)
                classes.append(new)
    elif kind == "enum-class":
        e = rng.choice(enums)
        new = {"kind": "class", "name": variant(e["name"], keep_first=True), "abstract": rng.random() < 0.5, "parent": None, "props": [], "methods": [], "with_model_type": False}
        types.insert(rng.randrange(len(types) + 1), new)
        classes.append(new)
    elif kind == "literals":
        e = rng.choice(enums)
        base = rng.choice(e["literals"])
        for _ in range(10):
            v = near_variant(rng, base)
            if v not in e["literals"] and not v.startswith("_"):
                e["literals"].insert(rng.randrange(len(e["literals"]) + 1), v)
                break
    elif kind in ("props", "inherited-prop"):
        pool = c21_mm.own_props(c) if kind == "props" else c21_mm._inherited_props(mm, c)
        if not pool:
            c["props"].append(["some_URL", "int"]) if "some_URL" not in member_names(c) else None
            pool = c21_mm.own_props(c)
        if pool:
            base = rng.choice(pool)
            for _ in range(10):
                v = near_variant(rng, base)
                if v not in member_names(c) and v != "self" and not v.startswith("__") and descendants_ok(c, v):
                    c["props"].append([v, "int"])
                    break
    elif kind == "accessor":
        pool = c21_mm.own_props(c)
        if pool:
            base = rng.choice(pool)
            v = rng.choice(["set_", "mutable_", "get_", "Set_", "SET_"]) + base
            if v not in member_names(c) and descendants_ok(c, v):
                c["props"].append([v, "int"])
    elif kind in ("methods", "method-prop") and with_methods:
        pool = c21_mm.all_methods(mm, c) if kind == "methods" else c21_mm.all_props(mm, c)
        if not pool and kind == "methods":
            if "do_it" not in member_names(c) and descendants_ok(c, "do_it"):
                c["methods"].append("do_it")
            pool = c21_mm.all_methods(mm, c)
        if pool:
            base = rng.choice(pool)
            cand = [near_variant(rng, base) for _ in range(6)] + ["get_" + base, "set_" + base]
            rng.shuffle(cand)
            for v in cand:
                if v not in member_names(c) and v != "self" and not v.startswith("__") and descendants_ok(c, v):
                    c["methods"].append(v)
                    break
    elif kind == "consts":
        if not consts:
            consts.append({"name": fresh(True), "kind": "str"})
        base = rng.choice(consts)["name"]
        consts.append({"name": variant(base), "kind": rng.choice(["str", "set"])})
    elif kind == "funcs":
        if not funcs:
            funcs.append("matches_something")
        base = rng.choice(funcs)
        for _ in range(10):
            v = near_variant(rng, base)
            if v not in funcs and v not in used_names and not v.startswith("__"):
                funcs.append(v)
                break
    elif kind == "go-literal":
        # enum `A_b` literal `C`  vs  enum `A` literal `B_c`; or a literal colliding with a structure name
        e = rng.choice(enums)
        lit = rng.choice(e["literals"])
        if rng.random() < 0.5:
            nm = e["name"] + "_" + lit
            if nm not in used_names and nm[0].isupper():
                used_names.add(nm)
                new = {"kind": "class", "name": nm, "abstract": False, "parent": None, "props": [], "methods": [], "with_model_type": False}
                types.append(new)
                classes.append(new)
        else:
            parts = (e["name"] + "_" + lit).split("_")
            if len(parts) >= 3:
                k = rng.randrange(1, len(parts) - 1)
                en, ln = "_".join(parts[: k + 1]), "_".join(parts[k + 1 :])
                if en not in used_names and is_ident(en) and is_ident(ln) and en[0].isupper() and en != e["name"]:
                    used_names.add(en)
                    types.append({"kind": "enum", "name": en, "literals": [ln]})
    elif kind == "model-type":
        nm = rng.choice(["Model_type", "ModelType", "Model_Type", "MODEL_TYPE", "Model__type"])
        if nm not in used_names:
            used_names.add(nm)
            if rng.random() < 0.5:
                types.append({"kind": "enum", "name": nm, "literals": ["A"]})
            else:
                new = {"kind": "class", "name": nm, "abstract": False, "parent": None, "props": [], "methods": [], "with_model_type": False}
                types.append(new)
                classes.append(new)
    fix_abstract()
    return mm


def enumerated_mms() -> List[Dict[str, Any]]:
    """Seed independent: one hand-made model per scope kind (with and without the collision)."""

    def cls(name: str, props: Sequence[str] = (), methods: Sequence[str] = (), abstract: bool = False, parent: Optional[str] = None) -> Dict[str, Any]:
        return {"kind": "class", "name": name, "abstract": abstract, "parent": parent, "props": [[p, "int"] for p in props], "methods": list(methods)}

    def enum(name: str, lits: Sequence[str]) -> Dict[str, Any]:
        return {"kind": "enum", "name": name, "literals": list(lits)}

    def mm(types: List[Dict[str, Any]], consts: Sequence[str] = (), funcs: Sequence[str] = ()) -> Dict[str, Any]:
        return {"types": types, "consts": [{"name": c, "kind": "str"} for c in consts], "funcs": list(funcs)}

    base = [enum("Color_kind", ["Red_one", "Green"]), cls("Something", ["some_prop", "other"])]
    out = [
        mm(base, ["Some_const"], ["matches_something"]),
        mm([enum("Color", ["Red"]), cls("Something", ["some_URL", "some_url"])]),
        mm([enum("Color", ["Red"]), cls("Something", ["some_URL", "some_Url"])]),
        mm([enum("Color", ["Red"]), cls("Something", ["x", "set_x"])]),
        mm([enum("Color", ["Red"]), cls("Something", ["x", "mutable_x"])]),
        mm([enum("Color", ["Red"]), cls("Something", ["x", "get_x"])]),
        mm([cls("Something", ["x"], ["X"])]),
        mm([cls("Something", ["x"], ["do_it", "do_It"])]),
        mm([cls("Something", ["x"], ["get_x"])]),
        mm([cls("Stem", ["x"], abstract=True), cls("Something", ["X"], parent="Stem")]),
        mm([enum("Color", ["Red_one", "Red_One"]), cls("Something", ["x"])]),
        mm([enum("Color", ["Red_one", "red_one"]), cls("Something", ["x"])]),
        mm([enum("Color", ["Red_1", "Red1"]), cls("Something", ["x"])]),
        mm([enum("Color", ["Red"]), enum("COLOR", ["Red"]), cls("Something", ["x"])]),
        mm([enum("Some_thing", ["Red"]), cls("Something", ["x"]), cls("SomeThing", ["y"])]),
        mm([enum("Kind_a", ["Red"]), cls("Kind_A", ["x"])]),
        mm([enum("Kind_a", ["Red"]), enum("Kind_A", ["Green"]), cls("Something", ["x"])]),
        mm([cls("Some_URL", ["x"]), cls("Some_Url", ["y"])]),
        mm([cls("Some_URL", ["x"], abstract=True), cls("Some_Url", ["y"], abstract=True), cls("Leaf", ["z"], parent="Some_URL"), cls("Leaf_two", ["z"], parent="Some_Url")]),
        mm([cls("Something", ["x"]), cls("I_something", ["y"])]),
        mm([cls("Something", ["x"]), enum("Isomething", ["A"])]),
        mm([cls("Something", ["x"], abstract=True), cls("ISomething", ["y"], abstract=True), cls("A", ["a"], parent="Something"), cls("B", ["b"], parent="ISomething")]),
        mm([enum("Color_kind", ["Red"]), enum("Color", ["Kind_red"]), cls("Something", ["x"])]),
        mm([enum("Color", ["Red"]), cls("Color_red", ["x"])]),
        mm(base, ["Some_const", "Some_Const"]),
        mm(base, ["Some_const", "SOME_CONST"]),
        mm(base, [], ["matches_x", "matches_X"]),
        mm(base, [], ["matches_x", "matches__x"]),
        mm([cls("Model_type", ["x"])]),
        mm([enum("Model_type", ["A"]), cls("Something", ["x"])]),
        mm([cls("Stem", ["x"], abstract=True), cls("Leaf", ["y"], parent="Stem"), cls("Stem_abstract", ["z"])]),
        mm([enum("Color", ["Red"]), cls("COLOR", ["x"])]) | {"types": [enum("Color", ["Red"]), {"kind": "class", "name": "COLOR", "abstract": False, "parent": None, "props": [["c", "Color"]], "methods": []}]},
        mm([{"kind": "cprim", "name": "Non_empty"}, cls("Non_Empty", ["x"])]),
        mm([cls("something", ["x"])]),
        mm([cls("Something", ["type", "Type"])]),
        mm([cls("Something", ["a__b", "a_b"])]),
        # (added with the repairs of C21-F1 … F37: variants that the coarse sigs of the former findings had masked)
        mm(base, [], ["matches_x", "_matches_x"]),   # java / typescript: construct<Name> of a pattern verification
        mm(base, [], ["matches_x", "MATCHES_x"]),    # golang: <name>Re of a pattern verification (private name)
        mm([cls("Thing", ["_url", "URL"])]),         # java getters / typescript set<Prop>FromJsonable
        mm([cls("Thing", ["url", "URL"])]),          # golang private struct fields
        mm([cls("Color", ["x"]), cls("COLOR", ["y"])]),  # golang colorToMap
        mm([cls("Stem", ["a__b"], abstract=True), cls("Something", ["a_b"], parent="Stem")]),  # inherited + own JSON / XML name
        mm([enum("Thing1", ["Red"]), cls("Thing_1", ["x"], abstract=True), cls("Leaf", ["y"], parent="Thing_1")]),  # golang Thing1FromJsonable
        mm([cls("ModelType", ["x"])]),
        mm([enum("Model__type", ["A"]), cls("Something", ["x"])]),
        mm([cls("Foo", ["x"]), cls("Model_type_foo", ["y"])]),  # golang: the global constant ModelTypeFoo vs the struct
        # methods spread over a hierarchy (only the in-process verdict and the method oracle see them)
        mm([cls("Stem", ["x"], ["do_it"], abstract=True), cls("Something", ["y"], ["do_It"], parent="Stem")]),
        mm([cls("Ground", ["x"], ["do_URL"], abstract=True), cls("Stem", ["mid"], abstract=True, parent="Ground"), cls("Something", ["y"], ["do_Url"], parent="Stem")]),
        mm([cls("Stem", ["x"], ["do_it"]), cls("Something", ["y"], ["other", "do__it"], parent="Stem")]),
    ]
    return out


# ---- seed-independent pair matrix (added after the seeded changes C21-2 / C21-3)
#
# Pairs of DIFFERENT source names that some (not every) target conversion maps to one generated name.  The pools are
# fixed text (never computed with the project's naming functions, so a changed naming function cannot move them).

TYPE_NAME_PAIRS = [
    ("Some_URL", "Some_Url"),      # abbreviation vs capitalised part: the camel-case targets, JSON, XSD
    ("Some_url", "Some_Url"),      # lower vs capitalised part: every target
    ("Some__thing", "Some_thing"),  # empty part
    ("Thing_1", "Thing1"),         # digit part joined
    ("COLOR", "Color"),            # all upper vs capitalised
    ("Thing_", "Thing"),           # trailing underscore
    ("SomeThing", "Something"),    # inner capital (`capitalize()` lowers the rest; Go keeps it)
    ("X_Y", "XY"),                 # single-letter parts: only the abbreviation-keeping targets (python, golang)
    ("Thing_ID", "Thing_id"),
]

# (class, other type): the name of the other type equals `I` + the generated name of the class where capitalised parts
# are kept (golang); the front end reserves only the prefix `I_`.  The last pair is the control (no target collides).
INTERFACE_PAIRS = [
    ("Foo", "IFoo"),
    ("Foo_bar", "IFoo_bar"),
    ("Foo_bar", "IFooBar"),
    ("URL", "IURL"),
    ("X", "IX"),
    ("Foo", "Ifoo"),
]

LITERAL_NAME_PAIRS = [
    ("Red_one", "Red_One"), ("Red_1", "Red1"), ("URL_x", "Url_x"), ("red", "RED"), ("A_b", "Ab"), ("a__b", "a_b"), ("X_Y", "XY"),
    ("Some_ID", "Some_id"),
]

PROPERTY_NAME_PAIRS = [
    ("some_URL", "some_url"), ("a__b", "a_b"), ("x_1", "x1"), ("URL_of", "url_of"), ("someThing", "something"), ("x_Y", "xY"),
    ("value_ID", "value_Id"),
]

ENTITY_KINDS = ["leaf", "abstract", "parent", "enum", "cprim"]


def _cls(name: str, props: Sequence[Any] = (), abstract: bool = False, parent: Optional[str] = None) -> Dict[str, Any]:
    return {
        "kind": "class", "name": name, "abstract": abstract, "parent": parent,
        "props": [[p, "int"] if isinstance(p, str) else list(p) for p in props], "methods": [],
    }


def _entity(kind: str, name: str, tag: str, same: bool) -> List[Dict[str, Any]]:
    """One entity of the given kind called `name` (+ what it needs: a concrete child).  `same`: the content does not
    depend on `tag`, so two entities of one kind get EQUAL definitions."""
    own = "x" if same else {"a": "x", "b": "y"}[tag]
    child = _cls(f"Child_of_{tag}", [f"own_{tag}"], parent=name)
    if kind == "leaf":
        return [_cls(name, [own])]
    if kind == "abstract":
        return [_cls(name, [own], abstract=True), child]
    if kind == "parent":
        return [_cls(name, [own]), child]
    if kind == "enum":
        if same or tag == "a":
            return [{"kind": "enum", "name": name, "literals": ["First", "Second"], "values": ["first", "second"]}]
        return [{"kind": "enum", "name": name, "literals": ["Third"], "values": ["third"]}]
    return [{"kind": "cprim", "name": name}]


def pair_mm(ka: str, na: str, kb: str, nb: str, same: bool = False, swap: bool = False, holder: bool = False) -> Dict[str, Any]:
    a, b = _entity(ka, na, "a", same), _entity(kb, nb, "b", same)
    types = (b + a) if swap else (a + b)
    if holder:
        # the two entities are USED as property types (XSD emits a simpleType only for used enumerations, the JSON
        # schema a `_choice` definition only for used abstract classes)
        types.append(_cls("Holder", [["ref_a", na], ["ref_b", nb]]))
    elif not any(t["kind"] == "class" and not t["abstract"] for t in types):
        # (the C# generator refuses a model without any concrete class: not this property's subject)
        types.append(_cls("Anchor", ["z"]))
    return {"types": types, "consts": [], "funcs": [], "seeded": f"pair:{ka}/{kb}" + (":same" if same else "")}


def enumerated_pair_mms() -> List[Dict[str, Any]]:
    """Seed independent: two entities of every kind combination (leaf class / abstract class / concrete class with a
    descendant / enumeration / constrained primitive) whose source names differ but collide under some target's
    conversion, incl. entities of EQUAL content; a class vs a type called like its interface; literal pairs; property
    pairs at every place of a hierarchy."""
    out: List[Dict[str, Any]] = []
    combos = [(ka, kb) for i, ka in enumerate(ENTITY_KINDS) for kb in ENTITY_KINDS[i:]]
    k = 0
    for ci, (ka, kb) in enumerate(combos):
        for j in range(3):
            na, nb = TYPE_NAME_PAIRS[k % len(TYPE_NAME_PAIRS)]
            k += 1
            out.append(pair_mm(ka, na, kb, nb, swap=(ci + j) % 2 == 1, holder=j != 1))
        if ka == kb or {ka, kb} <= {"leaf", "abstract", "parent"}:
            for j in range(2):
                na, nb = TYPE_NAME_PAIRS[(ci + 4 * j) % len(TYPE_NAME_PAIRS)]
                out.append(pair_mm(ka, na, kb, nb, same=True, swap=j == 1, holder=j == 0))
    # the seeds' own witnesses of the equal-definition case (one key for two entities)
    out.append(pair_mm("enum", "Some_URL", "enum", "Some_url", same=True, holder=True))
    out.append(pair_mm("leaf", "Thing_ID", "leaf", "Thing_id", same=True))
    # class vs a type called like its interface
    k = 0
    for na, nb in INTERFACE_PAIRS:
        for kb in ENTITY_KINDS:
            ka = ["leaf", "parent", "abstract"][k % 3]
            out.append(pair_mm(ka, na, kb, nb, swap=k % 2 == 1, holder=k % 3 == 0))
            k += 1
    out.append(pair_mm("leaf", "Foo", "leaf", "IFoo", same=True))
    # two leaves beneath one abstract class
    out.append({"types": [_cls("Stem", ["b"], abstract=True), _cls("Foo", ["x"], parent="Stem"), _cls("IFoo", ["y"], parent="Stem")], "consts": [], "funcs": []})
    # an enumeration `I` whose literal is called like a class: Go's global constant `IFoo` vs the interface of `Foo`
    out.append({"types": [_cls("Foo", ["x"]), {"kind": "enum", "name": "I", "literals": ["Foo"]}], "consts": [], "funcs": []})
    out.append({"types": [_cls("Foo", ["x"], abstract=True), _cls("Leaf", ["y"], parent="Foo"), {"kind": "enum", "name": "I", "literals": ["Foo", "Bar"]}], "consts": [], "funcs": []})
    # keys derived from a class with descendants (`_abstract`, `_choice`, `_t`) vs a type called like that
    for suffix in ("abstract", "choice", "t", "Choice"):
        for kb in ("leaf", "enum"):
            out.append(pair_mm("parent" if suffix != "choice" else "abstract", "Stem", kb, f"Stem_{suffix}", holder=True))
    # literal pairs within one enumeration (used and unused); the same pair in two enumerations never collides
    for i, (la, lb) in enumerate(LITERAL_NAME_PAIRS):
        e = {"kind": "enum", "name": "Color", "literals": ["Other", la, lb] if i % 2 else [la, lb]}
        types: List[Dict[str, Any]] = [e, _cls("Something", [["c", "Color"]] if i % 3 else ["x"])]
        out.append({"types": types, "consts": [], "funcs": []})
    out.append({"types": [{"kind": "enum", "name": "Color", "literals": ["Red_one"]}, {"kind": "enum", "name": "Hue", "literals": ["Red_One"]}, _cls("Something", ["x"])], "consts": [], "funcs": []})
    # Go: literals are global constants — enum+literal vs enum+literal, vs a class, vs an enumeration
    out.append({"types": [{"kind": "enum", "name": "Color", "literals": ["Red_one"]}, {"kind": "enum", "name": "Color_red", "literals": ["One"]}, _cls("Something", ["x"])], "consts": [], "funcs": []})
    out.append({"types": [{"kind": "enum", "name": "Color", "literals": ["Red_one"]}, {"kind": "enum", "name": "ColorRed", "literals": ["One"]}, _cls("Something", ["x"])], "consts": [], "funcs": []})
    out.append({"types": [{"kind": "enum", "name": "Color", "literals": ["Red"]}, {"kind": "enum", "name": "ColorRed", "literals": ["A"]}, _cls("Something", ["x"])], "consts": [], "funcs": []})
    out.append({"types": [{"kind": "enum", "name": "Color", "literals": ["URL"]}, _cls("ColorURL", ["x"])], "consts": [], "funcs": []})
    # property pairs: both own / abstract parent + child / grandparent + grandchild / concrete parent + child / siblings
    for i, (pa, pb) in enumerate(PROPERTY_NAME_PAIRS):
        place = i % 4
        if place == 0:
            types = [_cls("Something", [pa, "between", pb])]
        elif place == 1:
            types = [_cls("Stem", [pa], abstract=True), _cls("Something", [pb], parent="Stem")]
        elif place == 2:
            types = [_cls("Ground", [pa], abstract=True), _cls("Stem", ["mid"], abstract=True, parent="Ground"), _cls("Something", [pb], parent="Stem")]
        else:
            types = [_cls("Stem", [pa]), _cls("Something", ["mid", pb], parent="Stem")]
        out.append({"types": types, "consts": [], "funcs": []})
        if i < 3:
            # two siblings with the colliding pair split between them: no shared scope, every target must accept
            out.append({"types": [_cls("Stem", ["b"], abstract=True), _cls("One", [pa], parent="Stem"), _cls("Two", [pb], parent="Stem")], "consts": [], "funcs": []})
    # class-typed and enumeration-typed colliding properties (the accessor / setter names of typed members)
    out.append({"types": [{"kind": "enum", "name": "Color", "literals": ["Red"]}, _cls("Leaf", ["z"]), _cls("Something", [["some_URL", "Leaf"], ["some_url", "Color"]])], "consts": [], "funcs": []})
    return out


# --------------------------------------------------------------------------- wire


def flags_of(mm: Dict[str, Any]) -> Dict[str, Dict[str, bool]]:
    """hasDesc / used per type name, computed from the abstract meta-model."""
    classes = {t["name"]: t for t in mm["types"] if t["kind"] == "class"}
    has_desc = {n: False for n in classes}
    for t in classes.values():
        if not t.get("abstract"):
            cur = t.get("parent")
            seen = set()
            while cur in classes and cur not in seen:
                seen.add(cur)
                has_desc[cur] = True
                cur = classes[cur].get("parent")
    used = {t["name"]: False for t in mm["types"]}
    for t in classes.values():
        for p in t["props"]:
            ty = c21_mm.prop_pair(p)[1]
            if ty in used:
                used[ty] = True
    return {"has_desc": has_desc, "used": used}


def enc_mm(mm: Dict[str, Any]) -> str:
    fl = flags_of(mm)
    items = []
    for t in mm["types"]:
        if t["kind"] == "enum":
            items.append(f"e:{enc_text(t['name'])}:{int(fl['used'][t['name']])}:{enc_list(t['literals'])}")
        elif t["kind"] == "cprim":
            items.append(f"p:{enc_text(t['name'])}")
        else:
            bits = f"{int(bool(t.get('abstract')))}{int(fl['has_desc'][t['name']])}{int(fl['used'][t['name']])}"
            items.append(
                f"c:{enc_text(t['name'])}:{bits}:{enc_list(c21_mm.all_props(mm, t))}:"
                f"{enc_list(c21_mm.own_props(t))}:{enc_list(c21_mm.all_methods(mm, t))}"
            )
    types = ";".join(items) if items else "none"
    return f"{types} {enc_list([c['name'] for c in mm.get('consts', [])])} {enc_list(list(mm.get('funcs', [])))}"


def canon_model(ans: str) -> str:
    """`ok` | `err <n>` | `crash:<Type>` from the driver's answer."""
    if ans == "ok" or ans == "bad-op":
        return ans
    if ans.startswith("err "):
        return f"err {len(ans[4:].split(';'))}"
    if ans.startswith("crash:"):
        return ans.split("@")[0]
    return ans


# --------------------------------------------------------------------------- real implementation


def impl_conv(fn: str, ctx_text: str, text: str) -> str:
    mod, name = fn.split(".", 1)
    try:
        if mod == "naming":
            m = importlib.import_module("aas_core_codegen.naming")
        else:
            m = importlib.import_module(f"aas_core_codegen.{mod}.naming")
        f = getattr(m, name)
        if fn in TWO_ARGS:
            return "ok " + enc_text(f(ctx_text, text))
        return "ok " + enc_text(f(text))
    except BaseException as e:  # noqa
        return crash_name(e)


def count_leaves(errors: Sequence[Any]) -> int:
    n = 0
    for e in errors:
        if getattr(e, "underlying", None):
            n += count_leaves(e.underlying)
        else:
            n += 1
    return n


def impl_verify_sdk(symbol_table: Any, target: str) -> str:
    try:
        lib = importlib.import_module(f"aas_core_codegen.{target}.lib")
        _, errors = lib.verify_for_types(symbol_table)
        if errors is None:
            return "ok"
        return f"err {count_leaves(errors)}"
    except BaseException as e:  # noqa
        return crash_name(e)


SCHEMA_COLLISION_RE = {
    "jsonschema": re.compile(r"has been\s+already provided in the definitions|collides\s+with\s+the\s+JSON\s+name"),
    "xsd": re.compile(r"conflicting definitions in the schema|collides\s+with\s+the\s+XML\s+name"),
}


def verdict_of_run(target: str, rc: Any, stderr: str) -> str:
    if rc == 0:
        return "ok"
    if isinstance(rc, str):
        return rc
    if target in SCHEMA_COLLISION_RE:
        return "err" if SCHEMA_COLLISION_RE[target].search(stderr) else "err:other"
    return "err" if "collide" in stderr or "collision" in stderr.lower() else "err:other"


# --------------------------------------------------------------------------- oracle


def expected_json_counts(mm: Dict[str, Any]) -> Tuple[int, int]:
    """(number of definitions, number of meta-model properties) the schema must contain — from the
    entity set alone (no naming function involved)."""
    fl = flags_of(mm)
    ndefs = 1  # ModelType
    nprops = 0
    for t in mm["types"]:
        if t["kind"] == "enum":
            ndefs += 1
        elif t["kind"] == "class":
            concrete = not t.get("abstract")
            has_desc = fl["has_desc"][t["name"]]
            if has_desc:
                ndefs += 1
                if concrete or fl["used"][t["name"]]:
                    ndefs += 1
            if concrete:
                ndefs += 1
            if concrete or has_desc:
                nprops += len(t["props"])
    return ndefs, nprops


def expected_xsd_counts(mm: Dict[str, Any]) -> Dict[str, int]:
    """Number of named root children per tag the XSD must contain — from the entity set alone: a complex type and a
    group per class, a choice group per class with concrete descendants, a simple type per enumeration that is the
    type of some property."""
    fl = flags_of(mm)
    classes = [t for t in mm["types"] if t["kind"] == "class"]
    return {
        "complexType": len(classes),
        "group": len(classes) + sum(1 for c in classes if fl["has_desc"][c["name"]]),
        "simpleType": sum(1 for t in mm["types"] if t["kind"] == "enum" and fl["used"][t["name"]]),
    }


def _norm(s: str) -> str:
    """The coarsest normalisation any of the conversions could apply (written from the property text, not
    from the project's naming functions): case and underscores are ignored."""
    return s.replace("_", "").lower()


def _dup_names(names: Sequence[str]) -> List[str]:
    seen, out = set(), []
    for n in names:
        if n in seen and n not in out:
            out.append(n)
        seen.add(n)
    return out


def colliding_groups(mm: Dict[str, Any]) -> Dict[str, List[str]]:
    """Entity groups of the meta-model in which two different entities have the same normalised name,
    with those normalised names."""
    groups: Dict[str, List[str]] = {}

    def add(group: str, names: Sequence[str]) -> None:
        if names:
            groups.setdefault(group, [])
            groups[group] += [n for n in names if n not in groups[group]]

    add("constants", _dup_names([_norm(c["name"]) for c in mm.get("consts", [])]))
    add("functions", _dup_names([_norm(f) for f in mm.get("funcs", [])]))
    structures = [_norm(t["name"]) for t in mm["types"]]
    enums = [t for t in mm["types"] if t["kind"] == "enum"]
    for e in enums:
        add("literals", _dup_names([_norm(l) for l in e["literals"]]))
    glob = [_norm(e["name"] + l) for e in enums for l in e["literals"]]
    add("literals", _dup_names(glob))
    add("literals", sorted(set(glob) & (set(structures) | {"i" + x for x in structures})))
    for t in mm["types"]:
        if t["kind"] == "class":
            props = [_norm(x) for x in c21_mm.all_props(mm, t)]
            members = props + [_norm(x) for x in c21_mm.all_methods(mm, t)]
            add("members", _dup_names(members))
            add("members", sorted(m for m in members if any(m == pre + q for q in props for pre in ("get", "set"))))
    # two CONSTRAINED PRIMITIVES: they declare no structure of their own in any SDK target, only derived helpers
    # (`Verify<Name>` …) — a root cause of its own (no structure check looks at constrained primitives at all)
    add("cprims", _dup_names([_norm(t["name"]) for t in mm["types"] if t["kind"] == "cprim"]))
    add("structures", _dup_names(structures))
    add("structures", sorted(set(structures) & {"i" + x for x in structures}))
    return groups


def attribute(target: str, d: Dict[str, str], groups: Dict[str, List[str]], mm_types: Sequence[Dict[str, Any]] = ()) -> str:
    """Scope kind (root cause) of one duplicate declaration: among the entity groups that can put names into
    that kind of place and that do contain a normalised-name collision, the one whose colliding name is the
    longest one contained in the duplicated name (first candidate if none is contained)."""
    file_class = d["sig"].split(":")[2]
    scope, decl = d["scope"], d["decl"]
    stem = file_class.split("/")[-1].split(".")[0].lower()
    if target == "xsd":
        # the XSD scopes are few and model independent: name them directly
        return f"C21:xsd:{scope}"
    dup = _norm(d["name"])
    if "modeltype" in dup and any(_norm(t["name"]) == "modeltype" for t in mm_types):
        # an our type called like the generated `ModelType` enumeration (`Model_type` is reserved by the front
        # end, `ModelType` / `Model__type` are not)
        return f"C21:{target}:reserved-ModelType"
    cands = []
    if stem.startswith("constants"):
        cands.append("constants")
    if scope == "enum-body" or decl == "literal" or (target == "golang" and stem == "types" and scope == "module" and decl == "var"):
        # (Go enumeration literals are module-level constants of types.go)
        cands.append("literals")
    if stem.startswith("verification") or stem.startswith("pattern"):
        cands.append("functions")
    if scope in ("class-body", "interface-body", "struct-body", "properties", "required", "sequence"):
        cands.append("members")
    cands.append("cprims")  # (before `structures`: on a tie the more specific group wins)
    cands.append("structures")
    cands = [c for c in cands if c in groups]
    if not cands:
        return f"C21:{target}:unattributed:{file_class}:{scope}:{decl}"
    best, best_len = cands[0], -1
    for c in cands:
        n = max((len(x) for x in groups[c] if x in dup), default=-1)
        if n > best_len:
            best, best_len = c, n
    if best in ("constants", "functions"):
        # nothing at all checks these two kinds: one root cause per target
        return f"C21:{target}:{best}"
    # elsewhere the kind of place matters (a duplicated class is another defect than a duplicated helper
    # function derived from the class name)
    return f"C21:{target}:{best}:{scope}:{decl}"


def judge_output(target: str, out: pathlib.Path, mm: Dict[str, Any]) -> List[Tuple[str, str]]:
    """The statement of C21 decided on one generated output. Returns [(sig, what)], one per scope kind."""
    bad: Dict[str, str] = {}
    groups = colliding_groups(mm)
    for d in c21_decl.duplicates(target, out):
        sig = attribute(target, d, groups, mm["types"])
        what = f"{target}: {d['decl']} {d['name']!r} is declared twice in {d['scope']} {d.get('scope_name', '')!r} of {d['file']}"
        bad.setdefault(sig, what)
    if target == "jsonschema":
        keys = c21_decl.json_keys(out)
        ndefs, nprops = expected_json_counts(mm)
        if len(set(keys["definitions"])) < ndefs:
            bad.setdefault(
                "C21:jsonschema:structures", f"jsonschema: {len(set(keys['definitions']))} definitions for {ndefs} entities (a definition was overwritten)"
            )
        got = sum(1 for ps in keys["properties"].values() for p in ps if p != "modelType")
        if got < nprops:
            bad.setdefault("C21:jsonschema:members", f"jsonschema: {got} properties in the schema for {nprops} meta-model properties (one overwrote another)")
    if target == "xsd":
        try:
            names = c21_decl.xsd_names(out)
        except Exception:  # noqa: BLE001  (an unreadable schema is reported by `duplicates` / other properties)
            names = None
        if names is not None:
            for tag, want in expected_xsd_counts(mm).items():
                got_n = len(set(names.get(tag, [])))
                if got_n < want:
                    bad.setdefault(f"C21:xsd:xs:{tag}", f"xsd: {got_n} distinct xs:{tag} names for {want} entities (a definition was dropped or merged)")
    return sorted(bad.items())


class Runner:
    """Runs front end + targets for abstract meta-models; shared by correspondence, oracle and replay."""

    def __init__(self, ctx: Ctx) -> None:
        self.ctx = ctx
        self.scratch = ctx.scratch()
        self.k = 0

    def front(self, mm: Dict[str, Any]) -> Tuple[Optional[Any], str, str]:
        src = c21_mm.render(mm)
        st, verdict = c21_mm.load_symbol_table(src, self.scratch)
        return st, verdict, src

    def generate(self, mm: Dict[str, Any], targets: Sequence[str]) -> Dict[str, Tuple[str, List[Tuple[str, str]]]]:
        """target -> (verdict, oracle failures) via main.execute (methods stripped: they need snippets)."""
        src = c21_mm.render(c21_mm.strip_methods(mm))
        self.k += 1
        tag = f"m{self.k % 4}"
        res = {}
        for t in targets:
            rc, err, out = c21_mm.run_target(core.REPO, self.scratch, src, t, tag)
            verdict = verdict_of_run(t, rc, err)
            fails = judge_output(t, out, c21_mm.strip_methods(mm)) if rc == 0 else []
            res[t] = (verdict, fails)
        return res


MAX_FAILURES_PER_SIG = 2


def record_failure(ctx: Ctx, mm: Dict[str, Any], what: str, sig: str) -> None:
    """`ctx.fail`, at most MAX_FAILURES_PER_SIG times per root cause: the runner keeps the first 200 failures only, and
    the many models that show a KNOWN finding again and again must not push an unlisted one out of that list."""
    seen: Dict[str, int] = ctx.__dict__.setdefault("_c21_sig_seen", {})
    seen[sig] = seen.get(sig, 0) + 1
    if seen[sig] <= MAX_FAILURES_PER_SIG:
        ctx.fail(mm, what, sig)


def check_mm(ctx: Ctx, runner: Runner, mm: Dict[str, Any], stream: str, with_model: bool, generate: bool) -> Dict[str, Any]:
    """One meta-model through everything; returns a record (used by replay)."""
    rec: Dict[str, Any] = {}
    st, front, _ = runner.front(mm)
    rec["front"] = front
    ctx.count(json.dumps(mm, sort_keys=True), nontrivial=len(mm["types"]) > 1, stream=stream)
    ctx.hit("front:" + front.split(":")[0])
    if st is None:
        return rec
    wire = enc_mm(mm)
    # cross-check the flags the harness computes against the real symbol table
    fl = flags_of(mm)
    try:
        from aas_core_codegen import intermediate

        ids = intermediate.collect_ids_of_our_types_in_properties(symbol_table=st)
        for ot in st.our_types:
            if isinstance(ot, (intermediate.AbstractClass, intermediate.ConcreteClass)):
                if (len(ot.concrete_descendants) > 0) != fl["has_desc"][ot.name] or (id(ot) in ids) != fl["used"][ot.name]:
                    ctx.disagree("flags", mm, [len(ot.concrete_descendants), id(ot) in ids], [ot.name, fl["has_desc"][ot.name], fl["used"][ot.name]])
                t = next(x for x in mm["types"] if x["name"] == ot.name)
                if [p.name for p in ot.properties] != c21_mm.all_props(mm, t) or [m.name for m in ot.methods] != c21_mm.all_methods(mm, t):
                    ctx.disagree("members", mm, [[p.name for p in ot.properties], [m.name for m in ot.methods]], [c21_mm.all_props(mm, t), c21_mm.all_methods(mm, t)])
            elif isinstance(ot, intermediate.Enumeration):
                if (id(ot) in ids) != fl["used"][ot.name]:
                    ctx.disagree("flags", mm, id(ot) in ids, [ot.name, fl["used"][ot.name]])
    except BaseException as e:  # noqa
        ctx.note(f"flag cross-check failed: {crash_name(e)}")
    # SDK verdicts in process (methods included)
    impl: Dict[str, str] = {t: impl_verify_sdk(st, t) for t in SDK}
    gen: Dict[str, Tuple[str, List[Tuple[str, str]]]] = {}
    has_methods = any(t.get("methods") for t in mm["types"] if t["kind"] == "class")
    if generate:
        gen = runner.generate(mm, TARGETS)
        for t in ("jsonschema", "xsd"):
            impl[t] = gen[t][0]
    rec["impl"] = impl
    # Direct oracle for METHODS. Their bodies are user snippets, so a collision of two methods never shows as a duplicate
    # declaration the generator wrote; what can be observed is the second sentence of the property: if the target's own
    # conversion of method names makes two methods of one class (inherited ones included) equal, the target reports an error.
    if has_methods:
        for t in SDK:
            if impl[t] != "ok":
                continue
            try:
                conv = importlib.import_module(f"aas_core_codegen.{t}.naming").method_name
            except BaseException as e:  # noqa
                ctx.note(f"method oracle: {t}.naming.method_name unavailable: {crash_name(e)}")
                continue
            for cl in mm["types"]:
                if cl["kind"] != "class":
                    continue
                try:
                    names = [str(conv(m)) for m in c21_mm.all_methods(mm, cl)]
                except BaseException:  # noqa  (a raising naming function is the subject of the `conv` stream)
                    continue
                dup = _dup_names(names)
                if dup:
                    ctx.hit(f"oracle:methods-not-reported:{t}")
                    record_failure(
                        ctx, mm,
                        f"{t}: {len([n for n in names if n == dup[0]])} methods of class {cl['name']!r} (inherited ones included) are all "
                        f"converted to {dup[0]!r}, but verify_for_types reports no collision",
                        f"C21:{t}:methods:not-reported",
                    )
                    break
    model: Dict[str, str] = {}
    unchecked: Dict[str, str] = {}
    if with_model:
        targets = list(impl.keys())
        answers = ctx.model([f"verify {t} {wire}" for t in targets] + [f"unchecked {t} {wire}" for t in targets])
        for i, t in enumerate(targets):
            model[t] = canon_model(answers[i])
            unchecked[t] = canon_model(answers[len(targets) + i])
            got = impl[t]
            want = model[t]
            if t in ("jsonschema", "xsd") and want.startswith("err"):
                want = "err"
            if t in ("jsonschema", "xsd") and not want.startswith("crash") and got.startswith("crash") and unchecked[t] == got:
                # the schema generators also convert the property names (an unchecked scope of the model) and only
                # look at the collected errors afterwards: a naming function raising there is predicted by `unchecked`
                want = got
            if got != want:
                ctx.disagree(f"verify:{t}", mm, got, answers[i])
            ctx.traces_validated += 1
            ctx.hit(f"verdict:{t}:{got.split(' ')[0].split(':')[0]}")
        rec["model"] = model
        rec["model_unchecked"] = unchecked
    if generate:
        rec["oracle"] = {}
        for t in TARGETS:
            verdict, fails = gen[t]
            # the CLI path must agree with the in-process check (methods aside)
            if t in SDK and not has_methods:
                # a collision found by the check must come out as an error report (never a crash, never code);
                # a crash after a passing check belongs to another property (C02)
                v_cli, v_chk = verdict.split(" ")[0], impl[t].split(" ")[0]
                if (v_chk == "err") != (v_cli == "err") or (v_chk.startswith("crash") and v_cli == "ok"):
                    ctx.disagree(f"cli-vs-verify:{t}", mm, verdict, impl[t])
                    if v_chk == "err" and v_cli.startswith("crash"):
                        record_failure(ctx, mm, f"{t}: the collision found by verify_for_types is not reported, main.execute raises {v_cli}", f"C21:{t}:collision-not-reported")
                ctx.hit(f"cli:{t}:{v_cli.split(':')[0]}")
            rec["oracle"][t] = [list(f) for f in fails]
            for sig, what in fails:
                ctx.hit("oracle:" + sig)
                record_failure(ctx, mm, what, sig)
            # cross-check of the hand-written emitted-scope table: a collision the model predicts
            # in an unchecked scope must be visible in the generated code
            if with_model and not has_methods and verdict == "ok" and unchecked.get(t, "ok").startswith("err") and not fails:
                ctx.disagree(f"scope-table:{t}", mm, "no duplicate in the generated code", unchecked[t])
            if with_model and verdict == "ok" and fails and unchecked.get(t, "ok") == "ok":
                ctx.hit(f"oracle-beyond-scope-table:{t}")
    return rec


def mm_stream(ctx: Ctx) -> Iterator[Tuple[Dict[str, Any], str]]:
    for c in corpus(ID):
        if "mm" in c:
            yield c["mm"], "corpus"
    for mm in enumerated_mms():
        yield mm, "enumerated"
    for mm in enumerated_pair_mms():
        yield mm, "enumerated"
    scratch = ctx.scratch()

    def accepted(kind: Optional[str]) -> Dict[str, Any]:
        # rejection sampling against the real front end (reserved names, `I_` / `mutable` prefixes …);
        # the last draw is used even if it is rejected, so the "front end rejects" path stays covered
        mm = random_mm(ctx.rng, kind)
        for _ in range(5):
            if c21_mm.load_symbol_table(c21_mm.render(mm), scratch)[1] == "ok":
                break
            ctx.hit("generator:redraw")
            mm = random_mm(ctx.rng, kind)
        return mm

    for kind in SEED_KINDS:
        for _ in range(ctx.n(2, 30)):
            yield accepted(kind), "random:" + kind
    for _ in range(ctx.n(20, 600)):
        yield accepted(None), "random"


def conv_functions() -> List[str]:
    table, custom = c21_gen.naming_tables(core.REPO)
    fns = [f for f in list(table) + custom if f not in NOT_CONVERSIONS]
    return sorted(fns)


def run_conv(ctx: Ctx) -> None:
    fns = conv_functions()
    idents = [c["ident"] for c in corpus(ID) if "ident" in c]
    n_corpus = len(idents)
    idents += enumerated_identifiers()
    n_enum = len(idents)
    for _ in range(ctx.n(150, 2000)):
        s = random_identifier(ctx.rng, ctx.rng.random() < 0.4)
        idents.append(s if ctx.rng.random() < 0.5 else near_variant(ctx.rng, s))
    lines = []
    meta = []
    for i, s in enumerate(idents):
        stream = "conv:corpus" if i < n_corpus else "conv:enumerated" if i < n_enum else "conv:random"
        for fn in fns:
            if fn in TWO_ARGS:
                for cx in ("Color_kind", "URL", "a__b"):
                    lines.append(f"conv {fn} {enc_text(cx)} {enc_text(s)}")
                    meta.append((fn, cx, s, stream))
            else:
                lines.append(f"conv {fn} - {enc_text(s)}")
                meta.append((fn, "", s, stream))
    answers = ctx.model(lines)
    for (fn, cx, s, stream), ans in zip(meta, answers):
        got = impl_conv(fn, cx, s)
        want = ans.split("@")[0] if ans.startswith("crash:") else ans
        ctx.count((fn, cx, s), nontrivial=("_" in s or s.lower() != s), stream=stream)
        if got != want:
            ctx.disagree("conv", {"fn": fn, "ctx": cx, "ident": s}, got, ans)
        ctx.traces_validated += 1
        ctx.hit("conv:" + ("crash" if got.startswith("crash") else "ok"))
    ctx.sample({"conv functions": len(fns), "identifiers": len(idents), "example": [meta[7], answers[7]] if len(meta) > 7 else None})


MALFORMED = ["", "1a", "a-b", "a b", "ä", "Ärger", "straße", "ǆ", "ı", "İ", "ﬁ", "á", "𝐀", "µ", "a.b", "K", "ⅰ", "_ä", "a$"]


def run_isident(ctx: Ctx) -> None:
    """IDENTIFIER_RE vs isIdent; the front end never accepts a non-ASCII identifier."""
    from aas_core_codegen.common import IDENTIFIER_RE

    texts = MALFORMED + enumerated_identifiers()[:200] + ["_", "_1", "a_", "A", "z9"]
    answers = ctx.model([f"isident {enc_text(s)}" for s in texts])
    for s, ans in zip(texts, answers):
        got = "1" if IDENTIFIER_RE.fullmatch(s) else "0"
        ctx.count(("isident", s), nontrivial=False, stream="isident")
        if got != ans:
            ctx.disagree("isident", s, got, ans)
        ctx.traces_validated += 1
    scratch = ctx.scratch()
    for s in MALFORMED:
        if not s.isidentifier() or s.isascii():
            continue
        if unicodedata.normalize("NFKC", s).isascii():
            # CPython normalises identifiers to NFKC while parsing: `ﬁ` reaches the front end as `fi`
            continue
        for shape in ("class", "prop", "literal", "const", "func"):
            if shape == "class":
                mm = {"types": [{"kind": "class", "name": "X" + s, "abstract": False, "parent": None, "props": [["x", "int"]], "methods": []}], "consts": [], "funcs": []}
            elif shape == "prop":
                mm = {"types": [{"kind": "class", "name": "Something", "abstract": False, "parent": None, "props": [[s, "int"]], "methods": []}], "consts": [], "funcs": []}
            elif shape == "literal":
                mm = {"types": [{"kind": "enum", "name": "Color", "literals": [s]}], "consts": [], "funcs": []}
            elif shape == "const":
                mm = {"types": [], "consts": [{"name": s, "kind": "str"}], "funcs": []}
            else:
                mm = {"types": [], "consts": [], "funcs": ["matches_" + s]}
            _, verdict = c21_mm.load_symbol_table(c21_mm.render(mm), scratch)
            ctx.count(("non-ascii", shape, s), nontrivial=False, stream="non-ascii-front-end")
            ctx.hit("non-ascii:" + verdict.split(":")[0])
            if verdict == "ok":
                # the model's ASCII-only domain assumption is wrong: identifiers outside isIdent reach the generators
                ctx.disagree("non-ascii-accepted", {"shape": shape, "ident": s}, verdict, "rejected or crash")
    ctx.assumptions.append(
        "C21: identifiers are ASCII ([a-zA-Z_][a-zA-Z_0-9]*); validated on every run: IDENTIFIER_RE == Naming.isIdent on the "
        "probe set and the front end rejects (or crashes on) every non-ASCII identifier probe"
    )


def _run(ctx: Ctx, with_model: bool) -> None:
    runner = Runner(ctx)
    if with_model:
        run_conv(ctx)
        run_isident(ctx)
    k = 0
    gen_budget = ctx.n(30, 350)
    for mm, stream in mm_stream(ctx):
        k += 1
        # every enumerated/corpus model is generated for all targets; random ones while the budget lasts
        generate = stream in ("corpus", "enumerated") or gen_budget > 0
        if generate and stream not in ("corpus", "enumerated"):
            gen_budget -= 1
        rec = check_mm(ctx, runner, mm, stream, with_model, generate)
        if k % 23 == 1:
            ctx.sample({"mm": mm, "result": rec})


def correspond(ctx: Ctx) -> None:
    ctx.extra_cov["rule"] = (
        "conv: (function, identifier) pairs — all 1–3-part identifiers over 10 part shapes (case/digit/empty) x every "
        "naming function + seeded random near-collisions; non-trivial = identifier has an underscore or an upper-case letter. "
        "verify: meta-models (corpus + 49 hand-made, one per scope kind + the seed-independent pair matrix: leaf / abstract / "
        "parent class, enumeration, constrained primitive in every combination x 9 colliding name-pair shapes, also with EQUAL "
        "content; class vs a type called I<Name>; literal pairs; property pairs at every place of a hierarchy + seeded random "
        "with a near-collision planted in a chosen scope kind, 40 % of the planted structures of equal content) x 8 targets; "
        "non-trivial = more than one type; distinct by value"
    )
    _run(ctx, True)


def oracle(ctx: Ctx) -> None:
    if not ctx.driver_ok or ctx.searching:
        _run(ctx, False)


def replay(ctx: Ctx, data: Dict[str, Any]) -> Any:
    inp = data["failure"]["input"] if "failure" in data else data
    if "mm" in inp:
        inp = inp["mm"]
    if "ident" in inp and "types" not in inp:
        fns = conv_functions()
        res = {}
        for fn in fns:
            if fn in TWO_ARGS:
                continue
            res[fn] = {"impl": impl_conv(fn, "", inp["ident"])}
            if ctx.driver_ok:
                res[fn]["model"] = ctx.model([f"conv {fn} - {enc_text(inp['ident'])}"])[0]
        return res
    runner = Runner(ctx)
    return check_mm(ctx, runner, inp, "replay", ctx.driver_ok, True)
