"""C13 — XSD is valid and never rejects valid data.

Three parts:

* Gen: the two escaping tables of ``xsd/main.py:_XsdRenderer``, the character class of the textual
  un-escaping regular expressions as written, the primitive map and the call skeleton of
  ``_translate_pattern`` (``Gen/Xsd.lean``).
* correspondence: ``_translate_pattern`` / ``_undo_escaping_*`` against ``Model/XsdPattern.lean``;
  the Lean reader+matcher of XSD regular expressions (``XsdRe``) against the independent ``xmlschema``
  library (many patterns per schema).
* direct oracle (independent of Lean, written from the statement): per pattern, the translated
  pattern obeys the escape grammar of the W3C recommendation, the one-facet schema loads in XSD 1.0
  and 1.1 mode, and every sampled XML string without line breaks that Python's ``re`` accepts is
  accepted by the facet; per meta-model, ``schema.xsd`` loads in both modes and the XML documents
  the generated SDK writes for invariant-satisfying instances validate.
"""
from __future__ import annotations

import ast
import json
import pathlib
import re
import warnings
import xml.sax.saxutils as saxutils
from typing import Any, Dict, Iterator, List, Optional, Sequence, Tuple

from harness import retree_wire
from harness.core import Ctx, corpus, crash_name, dec_text, enc_text
from harness.extract import ExtractError, HEADER, _class, _func, _parse, lean_text

ID = "C13"
GEN = ["Xsd"]
SRC = "aas_core_codegen/xsd/main.py"

# --------------------------------------------------------------------------- Gen


def _dict_of(cls: ast.ClassDef, name: str) -> Dict[str, str]:
    for node in cls.body:
        if isinstance(node, ast.Assign) and len(node.targets) == 1 and isinstance(node.targets[0], ast.Name) and node.targets[0].id == name:
            val = node.value
            if not isinstance(val, ast.Dict):
                raise ExtractError(f"_XsdRenderer.{name} is not a dict literal")
            out: Dict[str, str] = {}
            for k, v in zip(val.keys, val.values):
                if not (isinstance(k, ast.Constant) and isinstance(k.value, str) and len(k.value) == 1 and isinstance(v, ast.Constant) and isinstance(v.value, str)):
                    raise ExtractError(f"_XsdRenderer.{name} has an entry that is not character -> string")
                out[k.value] = v.value
            return out
    raise ExtractError(f"_XsdRenderer.{name} not found")


def _regex_source(mod: ast.Module, name: str) -> str:
    for node in mod.body:
        if isinstance(node, ast.Assign) and len(node.targets) == 1 and isinstance(node.targets[0], ast.Name) and node.targets[0].id == name:
            call = node.value
            if isinstance(call, ast.Call) and isinstance(call.func, ast.Attribute) and call.func.attr == "compile" and len(call.args) == 1:
                arg = call.args[0]
                if isinstance(arg, ast.Constant) and isinstance(arg.value, str):
                    return arg.value
            raise ExtractError(f"{name} is not re.compile(<string literal>)")
    raise ExtractError(f"{name} not found")


def _class_ranges(body: str) -> List[Tuple[int, int]]:
    """The ranges of a character class body such as ``a-fA-F0-9`` (no escapes expected)."""
    if "\\" in body or "^" in body or "[" in body:
        raise ExtractError(f"character class {body!r} is not a plain list of ranges")
    out = []
    i = 0
    while i < len(body):
        if i + 2 < len(body) and body[i + 1] == "-":
            out.append((ord(body[i]), ord(body[i + 2])))
            i += 3
        else:
            out.append((ord(body[i]), ord(body[i])))
            i += 1
    return out


def _calls_in_order(fn: ast.FunctionDef) -> List[str]:
    """Dotted names of the calls of a function body in source order (the skeleton of the pipeline)."""
    calls = []
    for node in ast.walk(fn):
        if isinstance(node, ast.Call):
            f = node.func
            if isinstance(f, ast.Attribute):
                base = f.value.id if isinstance(f.value, ast.Name) else "?"
                name = f"{base}.{f.attr}"
            elif isinstance(f, ast.Name):
                name = f.id
            else:
                continue
            kws = ",".join(f"{k.arg}={k.value.id}" for k in node.keywords if k.arg == "renderer" and isinstance(k.value, ast.Name))
            calls.append((node.lineno, node.col_offset, name + (f"({kws})" if kws else ""), node))
    calls.sort(key=lambda c: (c[0], c[1]))
    return [c[2] for c in calls]


def gen_Xsd(repo: pathlib.Path) -> str:
    mod = _parse(repo, SRC)
    cls = _class(mod, "_XsdRenderer")
    if not (len(cls.bases) == 1 and isinstance(cls.bases[0], ast.Attribute) and cls.bases[0].attr == "Renderer"):
        raise ExtractError("_XsdRenderer does not derive from retree.Renderer")
    lit = _dict_of(cls, "_ESCAPING_IN_CHARACTER_LITERALS")
    rng = _dict_of(cls, "_ESCAPING_IN_RANGE")
    overridden = sorted(n.name for n in cls.body if isinstance(n, ast.FunctionDef))
    if overridden != ["char_to_str_and_escape_or_encode_if_necessary", "transform_quantifier"]:
        raise ExtractError(f"_XsdRenderer overrides {overridden}, the model knows two overrides")
    # the base class must take the tables from the instance
    rmod = _parse(repo, "aas_core_codegen/parse/retree/_render.py")
    rcls = _class(rmod, "Renderer")
    for n in ast.walk(rcls):
        if isinstance(n, ast.keyword) and n.arg == "escaping":
            v = n.value
            if not (isinstance(v, ast.Attribute) and isinstance(v.value, ast.Name) and v.value.id == "self"):
                raise ExtractError("retree.Renderer does not read its escaping tables from the instance (self.…)")

    rx = _regex_source(mod, "_ESCAPE_BACKSLASH_X_RE")
    m = re.fullmatch(r"\\\\x\(\[([^\]]*)\]\{2\}\)", rx)
    if not m:
        raise ExtractError(f"_ESCAPE_BACKSLASH_X_RE has an unknown shape: {rx!r}")
    cls_x = _class_ranges(m.group(1))
    rxu = _regex_source(mod, "_ESCAPE_BACKSLASH_X_U_U_RE")
    m = re.fullmatch(r"\(\\\\x\(\[([^\]]*)\]\{2\}\)\|\\\\u\(\[([^\]]*)\]\{4\}\)\|\\\\U\(\[([^\]]*)\]\{8\}\)\)", rxu)
    if not m:
        raise ExtractError(f"_ESCAPE_BACKSLASH_X_U_U_RE has an unknown shape: {rxu!r}")
    if not (m.group(1) == m.group(2) == m.group(3)):
        raise ExtractError("the three character classes of _ESCAPE_BACKSLASH_X_U_U_RE differ")
    cls_xuu = _class_ranges(m.group(1))

    steps = [c for c in _calls_in_order(_func(mod, "_translate_pattern")) if not c.startswith("?.") and c not in ("isinstance", "ord")]

    # _PRIMITIVE_MAP
    prim: List[Tuple[str, str]] = []
    for node in mod.body:
        if isinstance(node, ast.Assign) and isinstance(node.targets[0], ast.Name) and node.targets[0].id == "_PRIMITIVE_MAP":
            if not isinstance(node.value, ast.Dict):
                raise ExtractError("_PRIMITIVE_MAP is not a dict literal")
            for k, v in zip(node.value.keys, node.value.values):
                if not (isinstance(k, ast.Attribute) and isinstance(v, ast.Constant) and isinstance(v.value, str)):
                    raise ExtractError("_PRIMITIVE_MAP has an unexpected entry")
                prim.append((k.attr, v.value))
    if not prim:
        raise ExtractError("_PRIMITIVE_MAP not found")

    def table(d: Dict[str, str]) -> str:
        return "[" + ", ".join(f"({ord(k)}, {lean_text(v)})" for k, v in d.items()) + "]"

    def ranges(rs: List[Tuple[int, int]]) -> str:
        return "[" + ", ".join(f"({a}, {b})" for a, b in rs) + "]"

    def strs(ss: Sequence[str]) -> str:
        return "[" + ", ".join(json.dumps(s) for s in ss) + "]"

    return (
        "import AasVerif.Model.Text\n"
        + HEADER.format(src=SRC)
        + "namespace AasVerif.Gen.Xsd\n"
        + "/-- `_XsdRenderer._ESCAPING_IN_CHARACTER_LITERALS`: (character, escaped text) -/\n"
        + f"def xsdLiteral : List (Nat × Text) := {table(lit)}\n"
        + "/-- `_XsdRenderer._ESCAPING_IN_RANGE` -/\n"
        + f"def xsdRange : List (Nat × Text) := {table(rng)}\n"
        + "/-- the character class of `_ESCAPE_BACKSLASH_X_RE` as written (inclusive ranges) -/\n"
        + f"def hexClassX : List (Nat × Nat) := {ranges(cls_x)}\n"
        + "/-- the character class of `_ESCAPE_BACKSLASH_X_U_U_RE` as written -/\n"
        + f"def hexClassXuU : List (Nat × Nat) := {ranges(cls_xuu)}\n"
        + "/-- the calls of `_translate_pattern` in source order -/\n"
        + f"def translateSteps : List String := {strs(steps)}\n"
        + "/-- `_PRIMITIVE_MAP`: (primitive type, XSD type) -/\n"
        + f"def primitiveMap : List (String × String) := [{', '.join('(' + json.dumps(a) + ', ' + json.dumps(b) + ')' for a, b in prim)}]\n"
        + "end AasVerif.Gen.Xsd\n"
    )
