"""C13 — XSD is valid and never rejects valid data.

Three parts:

* Gen: the two escaping tables of ``xsd/main.py:_XsdRenderer``, the character class of the textual
  un-escaping regular expressions as written, the primitive map and the call skeleton of
  ``_translate_pattern`` (``Gen/Xsd.lean``).
* correspondence: ``_translate_pattern`` / ``_undo_escaping_*`` against ``Model/XsdPattern.lean``;
  the Lean reader+matcher of XSD regular expressions (``XsdRe``) against the independent ``xmlschema``
  library (many patterns per schema).
* direct oracle (independent of Lean, written from the statement): per pattern, the translated
  pattern obeys the escape grammar of the W3C recommendation, the one-facet schema loads in XSD 1.0
  and 1.1 mode, and every sampled XML string without line breaks that Python's ``re`` accepts is
  accepted by the facet; per meta-model, ``schema.xsd`` loads in both modes and the XML documents
  the generated SDK writes for invariant-satisfying instances validate.  Before the random models: the
  enumerated boundary families of ``c14_models`` (list sizes and string lengths over
  {0, 1, 2, 9, 10, 11, 99, 100}, values with 2-3 patterns) with designed valid instances whose
  constrained values sit at the minimum, strictly between and at the maximum.
"""
from __future__ import annotations

import ast
import itertools
import json
import pathlib
import re
import warnings
import xml.sax.saxutils as saxutils
from typing import Any, Dict, Iterator, List, Optional, Sequence, Tuple

from harness import extract, retree_wire
from harness.core import Ctx, corpus, crash_name, dec_text, enc_text
from harness.extract import ExtractError, HEADER, _class, _func, _parse, lean_text

ID = "C13"
GEN = ["Xsd"]
SRC = "aas_core_codegen/xsd/main.py"

# --------------------------------------------------------------------------- Gen


def _dict_of(cls: ast.ClassDef, name: str) -> Dict[str, str]:
    for node in cls.body:
        if isinstance(node, ast.Assign) and len(node.targets) == 1 and isinstance(node.targets[0], ast.Name) and node.targets[0].id == name:
            val = node.value
            if not isinstance(val, ast.Dict):
                raise ExtractError(f"_XsdRenderer.{name} is not a dict literal")
            out: Dict[str, str] = {}
            for k, v in zip(val.keys, val.values):
                if not (isinstance(k, ast.Constant) and isinstance(k.value, str) and len(k.value) == 1 and isinstance(v, ast.Constant) and isinstance(v.value, str)):
                    raise ExtractError(f"_XsdRenderer.{name} has an entry that is not character -> string")
                out[k.value] = v.value
            return out
    raise ExtractError(f"_XsdRenderer.{name} not found")


def _regex_source(mod: ast.Module, name: str) -> str:
    for node in mod.body:
        if isinstance(node, ast.Assign) and len(node.targets) == 1 and isinstance(node.targets[0], ast.Name) and node.targets[0].id == name:
            call = node.value
            if isinstance(call, ast.Call) and isinstance(call.func, ast.Attribute) and call.func.attr == "compile" and len(call.args) == 1:
                arg = call.args[0]
                if isinstance(arg, ast.Constant) and isinstance(arg.value, str):
                    return arg.value
            raise ExtractError(f"{name} is not re.compile(<string literal>)")
    raise ExtractError(f"{name} not found")


def _class_ranges(body: str) -> List[Tuple[int, int]]:
    """The ranges of a character class body such as ``a-fA-F0-9`` (no escapes expected)."""
    if "\\" in body or "^" in body or "[" in body:
        raise ExtractError(f"character class {body!r} is not a plain list of ranges")
    out = []
    i = 0
    while i < len(body):
        if i + 2 < len(body) and body[i + 1] == "-":
            out.append((ord(body[i]), ord(body[i + 2])))
            i += 3
        else:
            out.append((ord(body[i]), ord(body[i])))
            i += 1
    return out


def _calls_in_order(fn: ast.FunctionDef) -> List[str]:
    """Dotted names of the calls of a function body in source order (the skeleton of the pipeline)."""
    calls = []
    for node in ast.walk(fn):
        if isinstance(node, ast.Call):
            f = node.func
            if isinstance(f, ast.Attribute):
                base = f.value.id if isinstance(f.value, ast.Name) else "?"
                name = f"{base}.{f.attr}"
            elif isinstance(f, ast.Name):
                name = f.id
            else:
                continue
            kws = ",".join(f"{k.arg}={k.value.id}" for k in node.keywords if k.arg == "renderer" and isinstance(k.value, ast.Name))
            calls.append((node.lineno, node.col_offset, name + (f"({kws})" if kws else ""), node))
    calls.sort(key=lambda c: (c[0], c[1]))
    return [c[2] for c in calls]


def gen_Xsd(repo: pathlib.Path) -> str:
    mod = _parse(repo, SRC)
    cls = _class(mod, "_XsdRenderer")
    if not (len(cls.bases) == 1 and isinstance(cls.bases[0], ast.Attribute) and cls.bases[0].attr == "Renderer"):
        raise ExtractError("_XsdRenderer does not derive from retree.Renderer")
    lit = _dict_of(cls, "_ESCAPING_IN_CHARACTER_LITERALS")
    rng = _dict_of(cls, "_ESCAPING_IN_RANGE")
    overridden = sorted(n.name for n in cls.body if isinstance(n, ast.FunctionDef))
    if overridden != ["char_to_str_and_escape_or_encode_if_necessary", "transform_quantifier"]:
        raise ExtractError(f"_XsdRenderer overrides {overridden}, the model knows two overrides")
    # the base class must take the tables from the instance
    rmod = _parse(repo, "aas_core_codegen/parse/retree/_render.py")
    rcls = _class(rmod, "Renderer")
    for n in ast.walk(rcls):
        if isinstance(n, ast.keyword) and n.arg == "escaping":
            v = n.value
            if not (isinstance(v, ast.Attribute) and isinstance(v.value, ast.Name) and v.value.id == "self"):
                raise ExtractError("retree.Renderer does not read its escaping tables from the instance (self.…)")

    rx = _regex_source(mod, "_ESCAPE_BACKSLASH_X_RE")
    m = re.fullmatch(r"\\\\\\\\\|\\\\x\(\[([^\]]*)\]\{2\}\)", rx)
    if not m:
        raise ExtractError(f"_ESCAPE_BACKSLASH_X_RE has an unknown shape: {rx!r}")
    cls_x = _class_ranges(m.group(1))
    # the un-escaping function — itself or through the module-level helpers it calls — iterates over the matches of ITS
    # expression and skips the escaped backslash with a `continue`
    for fname, rname in (("_undo_escaping_backslash_x_in_pattern", "_ESCAPE_BACKSLASH_X_RE"),):
        scopes = extract._reachable_functions(mod, _func(mod, fname))
        skips = [
            n for scope in scopes for n in ast.walk(extract.expand_locals(scope))
            if isinstance(n, ast.If) and isinstance(n.test, ast.Compare) and isinstance(n.test.comparators[0], ast.Constant)
            and n.test.comparators[0].value == "\\\\" and any(isinstance(b, ast.Continue) for b in n.body)
        ]
        if len(skips) != 1:
            raise ExtractError(f"{fname} does not skip the escaped backslash with a `continue`")
        if not any(isinstance(n, ast.Name) and n.id == rname for scope in scopes for n in ast.walk(scope)):
            raise ExtractError(f"{fname} does not use {rname}")

    # the preparation of the patterns for greenery (repair of C13-F1 / C14-F1 and of the anchors-as-characters defect)
    gcls = _class(mod, "_GreeneryRenderer")
    if not (len(gcls.bases) == 1 and isinstance(gcls.bases[0], ast.Name) and gcls.bases[0].id == "_XsdRenderer"):
        raise ExtractError("_GreeneryRenderer does not derive from _XsdRenderer")
    glit = _dict_of(gcls, "_ESCAPING_IN_CHARACTER_LITERALS")
    grng = _dict_of(gcls, "_ESCAPING_IN_RANGE")
    goverridden = sorted(n.name for n in gcls.body if isinstance(n, ast.FunctionDef))
    if goverridden != ["char_to_str_and_escape_or_encode_if_necessary", "transform_char_set"]:
        raise ExtractError(f"_GreeneryRenderer overrides {goverridden}, the model knows two overrides")
    gsteps = [c for c in _calls_in_order(_func(mod, "_render_pattern_for_greenery")) if not c.startswith("?.") and c not in ("isinstance", "ord")]
    # in _translate_to_simple_type: every pattern of the intersection is prepared by _render_pattern_for_greenery, nothing else
    # is handed to greenery.parse, and the text of the intersection goes through the escaping of ^/$ into _translate_pattern
    tfn = _func(mod, "_translate_to_simple_type")
    gparse_args = [
        n.args[0] for n in ast.walk(tfn)
        if isinstance(n, ast.Call) and isinstance(n.func, ast.Attribute) and n.func.attr == "parse"
        and isinstance(n.func.value, ast.Name) and n.func.value.id == "greenery"
    ]
    if len(gparse_args) != 1 or not (isinstance(gparse_args[0], ast.Name) and gparse_args[0].id == "translated_for_greenery"):
        raise ExtractError("_translate_to_simple_type: greenery.parse is not called once on `translated_for_greenery`")
    prepared = [
        n for n in ast.walk(tfn)
        if isinstance(n, ast.Assign) and isinstance(n.value, ast.Call) and isinstance(n.value.func, ast.Name)
        and n.value.func.id == "_render_pattern_for_greenery"
        and any(isinstance(e, ast.Name) and e.id == "translated_for_greenery" for t in n.targets for e in ast.walk(t))
    ]
    if len(prepared) != 1:
        raise ExtractError("_translate_to_simple_type: `translated_for_greenery` is not the result of _render_pattern_for_greenery")
    merged = [
        n for n in ast.walk(tfn)
        if isinstance(n, ast.Call) and isinstance(n.func, ast.Name) and n.func.id == "_translate_pattern" and len(n.args) == 1
        and isinstance(n.args[0], ast.Call) and isinstance(n.args[0].func, ast.Name)
        and n.args[0].func.id == "_escape_carets_and_dollars_rendered_by_greenery"
        and ast.unparse(n.args[0].args[0]) == "str(merger)"
    ]
    if len(merged) != 1:
        raise ExtractError("_translate_to_simple_type: the intersection is not translated as _translate_pattern(_escape_carets_and_dollars_rendered_by_greenery(str(merger)))")

    steps = [c for c in _calls_in_order(_func(mod, "_translate_pattern")) if not c.startswith("?.") and c not in ("isinstance", "ord")]

    # _PRIMITIVE_MAP
    prim: List[Tuple[str, str]] = []
    for node in mod.body:
        if isinstance(node, ast.Assign) and isinstance(node.targets[0], ast.Name) and node.targets[0].id == "_PRIMITIVE_MAP":
            if not isinstance(node.value, ast.Dict):
                raise ExtractError("_PRIMITIVE_MAP is not a dict literal")
            for k, v in zip(node.value.keys, node.value.values):
                if not (isinstance(k, ast.Attribute) and isinstance(v, ast.Constant) and isinstance(v.value, str)):
                    raise ExtractError("_PRIMITIVE_MAP has an unexpected entry")
                prim.append((k.attr, v.value))
    if not prim:
        raise ExtractError("_PRIMITIVE_MAP not found")

    # the XML-character pattern that _translate_to_simple_type skips
    # (written in the comparison or as a module-level constant; in the function or in a module-level helper it calls)
    xml_pats = [
        c.value
        for scope in extract._reachable_functions(mod, _func(mod, "_translate_to_simple_type"))
        for n in ast.walk(scope)
        if isinstance(n, ast.Compare) and len(n.ops) == 1 and isinstance(n.ops[0], ast.NotEq)
        for c in [extract._resolve_module_constant(mod, side) for side in (n.left, n.comparators[0])]
        if isinstance(c, ast.Constant) and isinstance(c.value, str)
    ]
    if len(xml_pats) != 1:
        raise ExtractError(f"expected one `pattern != <constant>` in _translate_to_simple_type, found {len(xml_pats)}")

    def table(d: Dict[str, str]) -> str:
        return "[" + ", ".join(f"({ord(k)}, {lean_text(v)})" for k, v in d.items()) + "]"

    def ranges(rs: List[Tuple[int, int]]) -> str:
        return "[" + ", ".join(f"({a}, {b})" for a, b in rs) + "]"

    def strs(ss: Sequence[str]) -> str:
        return "[" + ", ".join(json.dumps(s) for s in ss) + "]"

    return (
        "import AasVerif.Model.Text\n"
        + HEADER.format(src=SRC)
        + "namespace AasVerif.Gen.Xsd\n"
        + "/-- `_XsdRenderer._ESCAPING_IN_CHARACTER_LITERALS`: (character, escaped text) -/\n"
        + f"def xsdLiteral : List (Nat × Text) := {table(lit)}\n"
        + "/-- `_XsdRenderer._ESCAPING_IN_RANGE` -/\n"
        + f"def xsdRange : List (Nat × Text) := {table(rng)}\n"
        + "/-- the character class of `_ESCAPE_BACKSLASH_X_RE` as written (inclusive ranges) -/\n"
        + f"def hexClassX : List (Nat × Nat) := {ranges(cls_x)}\n"
        + "/-- `_GreeneryRenderer._ESCAPING_IN_CHARACTER_LITERALS` -/\n"
        + f"def grnLiteral : List (Nat × Text) := {table(glit)}\n"
        + "/-- `_GreeneryRenderer._ESCAPING_IN_RANGE` -/\n"
        + f"def grnRange : List (Nat × Text) := {table(grng)}\n"
        + "/-- the calls of `_render_pattern_for_greenery` in source order -/\n"
        + f"def greenerySteps : List String := {strs(gsteps)}\n"
        + "/-- the calls of `_translate_pattern` in source order -/\n"
        + f"def translateSteps : List String := {strs(steps)}\n"
        + "/-- `_PRIMITIVE_MAP`: (primitive type, XSD type) -/\n"
        + f"def primitiveMap : List (String × String) := [{', '.join('(' + json.dumps(a) + ', ' + json.dumps(b) + ')' for a, b in prim)}]\n"
        + "/-- the pattern `_translate_to_simple_type` leaves out -/\n"
        + f"def xmlCharPattern : Text := {lean_text(xml_pats[0])}\n"
        + "end AasVerif.Gen.Xsd\n"
    )


# --------------------------------------------------------------------------- the XSD regular-expression grammar (W3C), read independently

_SINGLE_ESC = set("nrt\\|.?*+(){}-[]^")
_MULTI_ESC = set("sSiIcCdDwW")
_XSD_META = set(".\\?*+{}()|[]")


class _SpecError(Exception):
    pass


def spec_validate(t: str) -> Optional[str]:
    """
    None if ``t`` is a regular expression of XML Schema 1.1 (appendix G; where 1.0 and 1.1 differ — the braces — the
    stricter reading), otherwise the reason.  A plain recursive-descent reading of the grammar, written independently of
    the Lean reader.  ``unsupported:`` reasons mark legal constructs (multi-character escapes, subtraction).
    """
    pos = 0
    n = len(t)

    def peek() -> str:
        return t[pos] if pos < n else ""

    def escape(in_class: bool) -> None:
        nonlocal pos
        pos += 1
        c = peek()
        if c == "":
            raise _SpecError("dangling backslash")
        if c in _SINGLE_ESC:
            pos += 1
        elif c in _MULTI_ESC or c in "pP":
            raise _SpecError("unsupported: multi-character escape \\" + c)
        else:
            raise _SpecError(f"illegal escape \\{c}")

    def char_class() -> None:
        nonlocal pos
        pos += 1  # [
        if peek() == "^":
            pos += 1
        members = 0
        while True:
            c = peek()
            if c == "":
                raise _SpecError("unterminated character class")
            if c == "]":
                if members == 0:
                    raise _SpecError("empty character class")
                pos += 1
                return
            if c == "[":
                raise _SpecError("raw [ in a character class")
            if c == "-":
                nxt = t[pos + 1] if pos + 1 < n else ""
                if nxt == "[":
                    raise _SpecError("unsupported: character class subtraction")
                if members == 0 or nxt == "]":
                    pos += 1
                    members += 1
                    continue
                raise _SpecError("dash inside a character class that is neither first, last nor a range")
            # a member: char or escape, optionally a range
            if c == "\\":
                start = t[pos + 1 : pos + 2]
                escape(True)
            else:
                start = c
                pos += 1
            members += 1
            if peek() == "-" and pos + 1 < n and t[pos + 1] not in "]":
                if t[pos + 1] == "[":
                    raise _SpecError("unsupported: character class subtraction")
                pos += 1
                e = peek()
                if e == "-":
                    raise _SpecError("dash as the end of a range")
                if e == "\\":
                    end = t[pos + 1 : pos + 2]
                    escape(True)
                    end = {"n": "\n", "r": "\r", "t": "\t"}.get(end, end)
                else:
                    end = e
                    pos += 1
                s0 = {"n": "\n", "r": "\r", "t": "\t"}.get(start, start) if c == "\\" else start
                if s0 > end:
                    raise _SpecError("reversed range")

    def quantifier() -> None:
        nonlocal pos
        c = peek()
        if c in ("?", "*", "+"):
            pos += 1
        elif c == "{":
            m = re.compile(r"\{([0-9]+)(,([0-9]*))?\}").match(t, pos)
            if not m:
                raise _SpecError("malformed quantity")
            if m.group(3) and int(m.group(1)) > int(m.group(3)):
                raise _SpecError("quantity minimum above maximum")
            pos = m.end()

    def regexp(depth: int) -> None:
        nonlocal pos
        while True:
            # branch
            while True:
                c = peek()
                if c == "" or c == "|":
                    break
                if c == ")":
                    if depth == 0:
                        raise _SpecError("unbalanced )")
                    break
                if c == "(":
                    pos += 1
                    regexp(depth + 1)
                    if peek() != ")":
                        raise _SpecError("unbalanced (")
                    pos += 1
                elif c == "[":
                    char_class()
                elif c == "\\":
                    escape(False)
                elif c == ".":
                    pos += 1
                elif c in "?*+{":
                    raise _SpecError(f"quantifier {c} without an atom")
                elif c in "}]":
                    raise _SpecError(f"raw {c}")
                else:
                    pos += 1
                quantifier()
            if peek() == "|":
                pos += 1
                continue
            return

    try:
        regexp(0)
        if pos != n:
            raise _SpecError("trailing input")
    except _SpecError as e:
        return str(e)
    return None


# --------------------------------------------------------------------------- implementation side


def impl_translate(p: str) -> str:
    """Canonical outcome of ``_translate_pattern``: ``ok <text>`` | ``err parse <offset>`` | ``err nonxml <code>`` | ``crash:<Type>``."""
    from aas_core_codegen.xsd import main as xsd_main

    try:
        text, error = xsd_main._translate_pattern(p)
    except BaseException as e:  # noqa
        return crash_name(e)
    if error is None:
        return "ok " + enc_text(text)
    m = re.search(r"the character U\+([0-9A-F]{4,6}) which is not allowed in XML", error)
    if m:
        return f"err nonxml {int(m.group(1), 16)}"
    lines = error.split("\n")
    if len(lines) >= 3 and lines[-1].endswith("^"):
        return "err parse"
    return "err other " + error[:60]


def impl_undo(which: str, p: str) -> str:
    from aas_core_codegen.xsd import main as xsd_main

    if which == "greenery":
        return impl_greenery(p)
    try:
        fn = xsd_main._undo_escaping_backslash_x_in_pattern if which == "undox" else xsd_main._escape_carets_and_dollars_rendered_by_greenery
        return "ok " + enc_text(fn(p))
    except BaseException as e:  # noqa
        return "crash " + ("ValueError" if isinstance(e, (ValueError, OverflowError)) else type(e).__name__)


def impl_greenery(p: str) -> str:
    """Canonical outcome of ``_render_pattern_for_greenery``: ``ok <text>`` | ``err parse`` | ``crash:<Type>``."""
    from aas_core_codegen.xsd import main as xsd_main

    try:
        text, error = xsd_main._render_pattern_for_greenery(p)
    except BaseException as e:  # noqa
        return crash_name(e)
    if error is None:
        return "ok " + enc_text(text)
    lines = error.split("\n")
    if len(lines) >= 3 and lines[-1].endswith("^"):
        return "err parse"
    return "err other " + error[:60]


def is_xml_string(s: str) -> bool:
    """XML 1.0 characters without line breaks (the restriction of the statement)."""
    for c in s:
        o = ord(c)
        if o in (0xA, 0xD):
            return False
        if not (o == 0x9 or 0x20 <= o <= 0xD7FF or 0xE000 <= o <= 0xFFFD or 0x10000 <= o <= 0x10FFFF):
            return False
    return True


# --------------------------------------------------------------------------- pattern generators

#: characters that are special in one of the two dialects, in XML, or in the escape tables
SPECIALS = list(".^$*+?{}[]()|\\-#&<>\"' \t,:_~") + ["\n", "\r", "é", "\x7f", "\x85", "ÿ", "Ā", " ", "퟿", "", "�", "\U00010000", "\U0001f600"]
NON_XML = ["\x00", "\x08", "\x0b", "\x0c", "\x1f", "\ud800", "\udfff", "￾", "￿"]

V3_PATTERNS = [
    "^([!#$%&'*+\\-.^_`|~0-9a-zA-Z])+/([!#$%&'*+\\-.^_`|~0-9a-zA-Z])+([ \t]*;[ \t]*([!#$%&'*+\\-.^_`|~0-9a-zA-Z])+=(([!#$%&'*+\\-.^_`|~0-9a-zA-Z])+|\"(([\t !#-\\[\\]-~]|[\\x80-\\xff])|\\\\([\t !-~]|[\\x80-\\xff]))*\"))*$",
    "^-?(([1-9][0-9][0-9][0-9]+)|(0[0-9][0-9][0-9]))-((0[1-9])|(1[0-2]))-((0[1-9])|([12][0-9])|(3[01]))T(((([01][0-9])|(2[0-3])):[0-5][0-9]:([0-5][0-9])(\\.[0-9]+)?)|24:00:00(\\.0+)?)(Z|\\+00:00|-00:00)$",
    "^[a-zA-Z][a-zA-Z0-9_]*$",
    "^(0|[1-9][0-9]*)$",
    "^[\\x09\\x0A\\x0D\\x20-\\uD7FF\\uE000-\\uFFFD\\U00010000-\\U0010FFFF]*$",
    "^([a-zA-Z]{2,3}(-[a-zA-Z]{3}(-[a-zA-Z]{3}){0,2})?|[a-zA-Z]{4}|[a-zA-Z]{5,8})(-[a-zA-Z]{4})?(-([a-zA-Z]{2}|[0-9]{3}))?$",
    "^file:(//((localhost|(\\[((([0-9A-Fa-f]{1,4}:){6}([0-9A-Fa-f]{1,4}:[0-9A-Fa-f]{1,4}))|::)\\])|([a-zA-Z0-9\\-._~]|%[0-9A-Fa-f][0-9A-Fa-f]|[!$&'()*+,;=])*)?/((([a-zA-Z0-9\\-._~]|%[0-9A-Fa-f][0-9A-Fa-f]|[!$&'()*+,;=]|[:@]))+(/(([a-zA-Z0-9\\-._~]|[:@]))*)*)?)$",
]


def hex_forms(c: str) -> List[str]:
    o = ord(c)
    out = []
    if o < 256:
        out += [f"\\x{o:02x}", f"\\x{o:02X}"]
    if o < 0x10000:
        out.append(f"\\u{o:04x}")
    else:
        out.append(f"\\U{o:08x}")
    return out


def enumerated_patterns() -> Iterator[str]:
    """Seed-independent patterns that alone hit every branch of the translation and of the reader."""
    py_lit_esc = "tnrfv.^$(){}[]\\*+?#"
    py_rng_esc = "tnrfv\\[]^-"
    yield "^$"
    for c in SPECIALS + NON_XML + list("aZ0"):
        forms = list(hex_forms(c))
        if c not in "^$*+?{}[]()|\\.\n\r\x0b\x0c" and c not in "":
            forms.append(c)
        if c in ".^$(){}[]\\*+?#":
            forms.append("\\" + c)
        for f in forms:
            yield f"^a{f}b$"
            yield f"^{f}$"
            yield f"^{f}*$"
            yield f"^x{f}{{2,3}}$"
        cls_forms = list(hex_forms(c))
        if c not in "[]\\-^\n\r\x0b\x0c":
            cls_forms.append(c)
        if c in "\\[]^-":
            cls_forms.append("\\" + c)
        for f in cls_forms:
            yield f"^[{f}]$"
            yield f"^[a{f}]$"
            yield f"^[{f}a]$"
            yield f"^[^{f}]$"
            yield f"^[^b{f}]+$"
            if ord(c) >= 0x30:
                yield f"^[0-{f}]$"
            if ord(c) <= 0x7A:
                yield f"^[{f}-z]$"
    for e in py_lit_esc:
        yield f"^\\{e}$"
        yield f"^a\\{e}+$"
    for e in py_rng_esc:
        yield f"^[\\{e}]$"
        yield f"^[x\\{e}y]$"
    # dashes and carets in sets
    for s in ["[-]", "[-a]", "[a-]", "[-a-c]", "[a-c-]", "[^-]", "[^-a]", "[^a-]", "[a\\-c]", "[\\--a]", "[+-\\-]", "[+--]", "[ --]", "[^^]", "[\\^]", "[a^]", "[\\^-a]", "[^\\^]",
              "[\\x2d]", "[a\\x2d]", "[\\x2da]", "[\\x2d-a]", "[\\x5e]", "[\\x5ea]", "[a\\x5e]", "[^\\x5e]", "[\\x5e-a]", "[!-\\x5e]", "[\\u005e-\\u005f]"]:
        yield f"^{s}$"
        yield f"^x{s}*y$"
    # quantifiers
    for q in ["*", "+", "?", "*?", "+?", "??", "{0}", "{1}", "{2}", "{0,1}", "{0,2}", "{1,}", "{2,}", "{,2}", "{2,5}", "{10,12}", "{2}?", "{2,}?", "{0,2}?", "{1,3}?", "{007}", "{3,3}"]:
        yield f"^a{q}$"
        yield f"^(ab){q}c$"
        yield f"^[ab]{q}\\.{q}$"
    # groups and unions
    for s in ["()", "(a)", "(a|b)", "(a|)", "(|a)", "a|b", "(a|b|c)*", "((a))", "(a(b|c)d)+", "(a|b)(c|d)", "a||b", "(())", "(a)|(b)", "|", "a|", "|a"]:
        yield f"^{s}$"
    yield "^a^b$"
    yield "^a$b$"
    yield "^(^a$)$"
    yield "^(^a$|b)$"
    yield "^.$"
    yield "^.*$"
    yield "^a.b$"
    yield "^\\\\x41$"
    yield "^\\\\x2a$"
    yield "^\\\\xAG$"
    yield "^a\\x5c$"
    yield "^\\x5cd$"
    yield "^\\x5c\\x5c$"
    yield "^a\\x2ab\\$$"
    yield "^\\x28\\x29$"
    yield "^[\\x5d]$"
    yield "^[\\x5b]$"
    yield "^a\\x7cb$"
    yield "^a\\x7bb$"
    yield "^\\u00e4\\u1234\\U0001F600$"
    yield "^[\\u00e4-\\u1234]$"
    yield "^[\\U00010000-\\U0010FFFF]$"
    for p in V3_PATTERNS:
        yield p
    # rejected by the front end: must come back as errors
    for p in ["^\\d$", "^[\\s]$", "^(?:a)$", "^a{2,1}$", "^[b-a]$", "^[]$", "^\\$", "^a", "^[a", "^(a$", "^\\q$", "^*$", "^a{$", "^\\x4$", "^\\U00110000$", ""]:
        yield p


def random_patterns(ctx: Ctx, n: int) -> Iterator[Tuple[str, str]]:
    from harness import mm
    from harness.props import c16

    for i in range(n):
        r = i % 5
        if r == 0:
            yield mm.safe_pattern(ctx.rng, depth=2), "safe-pattern"
            continue
        wire = ",".join(c16.gen_union(ctx, 2, True, False))
        try:
            parts = c16.impl_render(c16.build_tree(wire))
        except BaseException:  # noqa
            continue
        if isinstance(parts, str) or any(not isinstance(x, str) for x in parts):
            continue
        body = "".join(parts)
        if r == 1:
            yield "^(" + body + ")$", "rendered-trees"
        elif r == 2:
            yield "^" + body.replace("|", "") + "$", "rendered-trees"
        else:
            mut = c16.mutate(ctx, ["^(" + body + ")$"])
            if len(mut) == 1 and isinstance(mut[0], str):
                yield mut[0], "near-miss"


def candidate_strings(ctx: Ctx, p: str, tree: Any) -> List[str]:
    """Strings to try against a pattern: samples of its language, neighbours, its own characters."""
    from harness import mm
    from harness.props import c16

    out: List[str] = []
    for _ in range(3):
        try:
            s = mm.sample_match(p, ctx.rng)
        except BaseException:  # noqa
            s = None
        if s is not None:
            out.append(s)
    if tree is not None:
        try:
            out += c16.match_strings(ctx, p, tree)
        except BaseException:  # noqa
            pass
    out += ["", "a", "ab", "*", "$", "^", "|", "\\", "a*b$", "aab$", "-", "a|b", "{", "}", "[", "]", "(", ")", ".", "x", "\t", "?", "+"]
    seen = set()
    res = []
    for s in out:
        if s not in seen and is_xml_string(s) and len(s) <= 60:
            seen.add(s)
            res.append(s)
    return res[:56]


# --------------------------------------------------------------------------- xmlschema batches

_XS = "http://www.w3.org/2001/XMLSchema"


def facet_schema_text(pats: Sequence[str]) -> str:
    parts = [f'<xs:schema xmlns:xs="{_XS}">']
    for i, t in enumerate(pats):
        parts.append(f'<xs:simpleType name="p{i}"><xs:restriction base="xs:string"><xs:pattern value={saxutils.quoteattr(t)}/></xs:restriction></xs:simpleType>')
    parts.append("</xs:schema>")
    return "".join(parts)


def load_facets(pats: Sequence[str], version: str) -> List[Any]:
    """For every XSD pattern text: the simple type with that facet, or the load error (str)."""
    import xmlschema

    cls = xmlschema.XMLSchema10 if version == "1.0" else xmlschema.XMLSchema11

    def load(idx: List[int]) -> Dict[int, Any]:
        if not idx:
            return {}
        try:
            with warnings.catch_warnings():
                warnings.simplefilter("ignore")
                s = cls(facet_schema_text([pats[i] for i in idx]))
            return {i: s.types[f"p{k}"] for k, i in enumerate(idx)}
        except BaseException as e:  # noqa
            if len(idx) == 1:
                return {idx[0]: f"{type(e).__name__}: {str(e).strip().splitlines()[0][:160]}"}
            mid = len(idx) // 2
            out = load(idx[:mid])
            out.update(load(idx[mid:]))
            return out

    ok_xml = [i for i, t in enumerate(pats) if all(_is_xml_char(c) for c in t)]
    res = load(ok_xml)
    return [res.get(i, "not-representable-in-XML") for i in range(len(pats))]


def _is_xml_char(c: str) -> bool:
    o = ord(c)
    return o in (0x9, 0xA, 0xD) or 0x20 <= o <= 0xD7FF or 0xE000 <= o <= 0xFFFD or 0x10000 <= o <= 0x10FFFF


_ESC_ENDPOINT_RE = re.compile(r"\\.-|-\\|\\\\[sSiIcCdDwWpP]")


def xmlschema_blind(t: str) -> bool:
    """
    xmlschema 4.x mis-reads a dash next to an escape inside a class (``[-\\t]`` does not accept the tab) an escaped backslash followed by a letter of a class escape (``[^\\\\c]``) and a range whose start or end is an escape (``[\\t-z]`` is read as the three members
    tab, dash, z; ``[\\n-\\[]`` is refused) although ``seRange ::= charOrEsc '-' charOrEsc`` allows it.  For such patterns
    the judge is Python's ``re`` on the pattern converted by ``xsd_to_python`` (an independent, direct conversion).
    """
    return _ESC_ENDPOINT_RE.search(t) is not None


def xsd_to_python(t: str) -> Optional[Any]:
    """A compiled Python regular expression with the language of the XSD pattern ``t`` (which obeys the grammar)."""
    out = []
    i = 0
    in_class = False
    while i < len(t):
        c = t[i]
        if c == "\\":
            out.append(t[i : i + 2])
            i += 2
            continue
        if in_class:
            if c == "]":
                in_class = False
            out.append("\\" + c if c in "&~|" else c)
        elif c == "[":
            in_class = True
            out.append(c)
            if t[i + 1 : i + 2] == "^":
                out.append("^")
                i += 1
        elif c == ".":
            out.append("[^\\n\\r]")
        elif c in "^$":
            out.append("\\" + c)
        else:
            out.append(c)
        i += 1
    try:
        with warnings.catch_warnings():
            warnings.simplefilter("ignore")
            return re.compile("".join(out), re.S)
    except BaseException:  # noqa
        return None


class PyFacet:
    """Stand-in for an xmlschema simple type where xmlschema is blind."""

    def __init__(self, t: str) -> None:
        self.rx = xsd_to_python(t)

    def is_valid(self, s: str) -> bool:
        from harness.props import c16

        return c16._with_alarm(1.0, lambda: self.rx.fullmatch(s) is not None)


def facet_valid(ty: Any, s: str) -> Optional[bool]:
    try:
        return bool(ty.is_valid(s))
    except BaseException:  # noqa
        return None


# --------------------------------------------------------------------------- pattern-level stage


def _accepted_shape(tree: Any) -> bool:
    """The front end's own requirement (`_verify_patterns_anchored_at_start_and_end`)."""
    from aas_core_codegen.parse import retree

    u = tree.union.uniates
    if len(u) != 1 or len(u[0].concatenants) == 0:
        return False
    first, last = u[0].concatenants[0].value, u[0].concatenants[-1].value
    return isinstance(first, retree.Symbol) and first.kind is retree.SymbolKind.START and isinstance(last, retree.Symbol) and last.kind is retree.SymbolKind.END


def _py_fullmatch(p: str, s: str) -> Optional[bool]:
    from harness.props import c16

    try:
        with warnings.catch_warnings():
            warnings.simplefilter("ignore")
            cp = re.compile(p)
        return c16._with_alarm(1.0, lambda: cp.match(s) is not None)
    except BaseException:  # noqa
        return None


def pattern_stage(ctx: Ctx, pats: List[Tuple[str, str]], with_model: bool) -> None:
    from aas_core_codegen.parse import retree

    outs = [impl_translate(p) for p, _ in pats]
    trees = []
    for p, _ in pats:
        try:
            t, e = retree.parse([p])
        except BaseException:  # noqa
            t = None
        trees.append(t)
    # --- model: translate
    if with_model:
        answers = ctx.model(["translate " + enc_text(p) for p, _ in pats])
        for (p, stream), got, want in zip(pats, outs, answers):
            ctx.traces_validated += 1
            if got != want:
                ctx.disagree("translate/" + stream, {"pattern": p}, got, want)
        # --- model: the preparation of a pattern for the external intersection
        answers = ctx.model(["greenery " + enc_text(p) for p, _ in pats])
        for (p, stream), want in zip(pats, answers):
            got = impl_greenery(p)
            ctx.traces_validated += 1
            ctx.hit("greenery=" + got.split(" ")[0])
            if got != want:
                ctx.disagree("greenery/" + stream, {"pattern": p, "function": "greenery"}, got, want)
    translated = [(i, dec_text(o[3:])) for i, o in enumerate(outs) if o.startswith("ok ")]
    texts = [t for _, t in translated]
    ty10 = load_facets(texts, "1.0")
    ty11 = load_facets(texts, "1.1")
    for k, t in enumerate(texts):
        if xmlschema_blind(t) and spec_validate(t) is None:
            ctx.hit("judge=python-fallback(xmlschema mis-reads escaped range ends)")
            ty10[k] = ty11[k] = PyFacet(t)
    cands = [candidate_strings(ctx, pats[i][0], trees[i]) for i, _ in translated]
    # --- model: reader + matcher versus xmlschema
    reads: List[str] = []
    if with_model:
        reads = ctx.model(["match " + enc_text(t) + " " + (",".join(enc_text(s) for s in c) if c else "[]") for t, c in zip(texts, cands)])
    for k, (i, t) in enumerate(translated):
        p, stream = pats[i]
        ctx.count(p, nontrivial=len(p) > 2, stream="pattern/" + stream)
        accepted = trees[i] is not None and _accepted_shape(trees[i])
        ctx.hit("pattern-accepted-by-front-end=" + str(accepted))
        inp = {"pattern": p}
        # (1) the grammar of the recommendation
        why = spec_validate(t)
        if why is not None and accepted:
            kind = why.split(" ")[0] + ("-" + why.split("\\")[1][:1] if "\\" in why else "")
            ctx.fail(inp, f"the XSD pattern {t!r} is not a regular expression of XML Schema: {why}", "C13:pattern-grammar:" + kind)
        # (2) the schema loads
        for ver, tys in (("1.0", ty10), ("1.1", ty11)):
            if isinstance(tys[k], str) and accepted:
                ctx.fail(inp, f"the schema with the pattern {t!r} does not load as XSD {ver}: {tys[k]}", "C13:pattern-schema-invalid:" + tys[k].split(":")[0])
        # (3) the language
        verdicts = []
        for s in cands[k]:
            v10 = facet_valid(ty10[k], s) if not isinstance(ty10[k], str) else None
            verdicts.append(v10)
            if not accepted:
                continue
            py = _py_fullmatch(p, s)
            if py is None:
                ctx.hit("python-match=gave-up")
                continue
            ctx.hit("python-match=" + str(py))
            if py:
                v11 = facet_valid(ty11[k], s) if not isinstance(ty11[k], str) else None
                for ver, v in (("1.0", v10), ("1.1", v11)):
                    if v is False:
                        ctx.fail({"pattern": p, "text": s}, f"Python accepts {s!r} for {p!r}, the XSD {ver} pattern {t!r} rejects it", "C13:pattern-rejects-valid:" + _shape_of(trees[i]))
                        break
        # (4) the Lean reader and matcher against the two independent readings
        if with_model:
            ans = reads[k]
            ctx.traces_validated += 1
            lean_ok = ans.startswith("ok ")
            ctx.hit("lean-read=" + (ans if not lean_ok else "ok"))
            if lean_ok != (why is None):
                if not (not lean_ok and ans == "err unsupported" and why is not None and why.startswith("unsupported")):
                    ctx.disagree("xsd-read/" + stream, {"xsd_pattern": t}, why or "valid", ans)
            if lean_ok:
                if isinstance(ty10[k], str):
                    ctx.disagree("xsd-read/xmlschema", {"xsd_pattern": t}, ty10[k], ans[:20])
                else:
                    bits = ans[3:]
                    for s, b, v in zip(cands[k], bits, verdicts):
                        if v is not None and (b == "1") != v:
                            ctx.disagree("xsd-match/" + stream, {"xsd_pattern": t, "text": s}, v, b == "1")
                            break
            if k % 211 == 0:
                ctx.sample({"pattern": p, "xsd": t, "lean": ans[:80], "strings": len(cands[k])})
    for (p, stream), o in zip(pats, outs):
        cls = o.split(" ")[0] + (" " + o.split(" ")[1] if o.startswith("err") else "")
        ctx.hit("translate=" + cls)
        if o.startswith("crash"):
            ctx.count(p, stream="pattern/" + stream)
            ctx.fail({"pattern": p}, f"_translate_pattern raised {o}", "C13:translate-raises:" + o.split(":")[1])


def _shape_of(tree: Any) -> str:
    from harness.props import c16

    try:
        return c16._shape(tree)
    except BaseException:  # noqa
        return "?"


def undo_stage(ctx: Ctx) -> None:
    """The two textual un-escaping functions (no longer a part of the pipeline, still public helpers with pinned tests)."""
    seeds = ["", "test me", "\\xff", "A\\xffB", "A\\xf1B\\xf2C", "\\x2a", "\\\\x41", "\\x4", "\\x", "\\xg1", "\\xAG", "\\x_1", "\\xfF", "\\x\\x41", "\\u0041", "\\u00e4x", "\\U0001f600",
             "\\UFFFFFFFF", "\\U0011000", "\\u12", "\\\\u0041", "a\\", "\\", "\\x4\\x41", "\\xZZ", "\\x`a", "\\u12_4", "\\xa[", "x41", "\\X41"] + V3_PATTERNS
    alphabet = ["\\", "x", "u", "U", "4", "1", "a", "F", "G", "g", "_", "[", "`", "Z", "é", "0", "f"]
    items = list(seeds)
    for _ in range(ctx.n(600, 20000)):
        items.append("".join(ctx.rng.choice(alphabet) for _ in range(ctx.rng.randint(0, 12))))
    # the scanner that escapes ^/$ in what greenery renders: texts in greenery's dialect (sets, escapes, ^/$ inside and outside)
    esc_seeds = ["", "a$b", "^", "$", "a^b$c", "[$^]", "[^$]^", "\\^", "\\$", "\\\\$", "[\\]$]$", "[a\\]^", "($*[^$x])*$+", "a\\", "[", "[a", "]$", "a]^[b]$", "\\[$\\]^",
                 "[^\\^]^", "\\x24$", "(\\$|^){2,}", "[\\\\]$", "[[]$", "\\[a]^"]
    esc_alphabet = ["\\", "^", "$", "[", "]", "a", "(", ")", "*", "-", "x"]
    esc_items = list(esc_seeds)
    for _ in range(ctx.n(600, 20000)):
        esc_items.append("".join(ctx.rng.choice(esc_alphabet) for _ in range(ctx.rng.randint(0, 12))))
    for which, its in (("undox", items), ("escanchors", esc_items)):
        got = [impl_undo(which, s) for s in its]
        want = ctx.model([f"{which} {enc_text(s)}" for s in its])
        for s, g, w in zip(its, got, want):
            ctx.count((which, s), nontrivial="\\" in s or "^" in s or "$" in s, stream=which)
            ctx.traces_validated += 1
            ctx.hit(f"{which}=" + g.split(" ")[0])
            if g != w:
                ctx.disagree(which, {"text": s, "function": which}, g, w)


# --------------------------------------------------------------------------- two or more patterns on one value (pattern level)

#: anchored patterns whose pairwise intersections exercise the hand-over to greenery: special characters written as
#: ``\\xHH``/``\\uHHHH`` (former findings C13-F1 / C14-F1), and the characters ``^``/``$`` accepted somewhere — in ``.``, in a
#: complemented set, in a set (the anchors were handed over as characters; second repair)
INTERSECTION_POOL = [
    "^a\\x2ab$", "^[a-z*]+$", "^a\\u002bb$", "^[a-b*+]+$", "^\\x28a\\x29$", "^[()a]+$", "^a\\x7b2\\x7d$", "^[a{}2]+$", "^a\\x3fb?$", "^[?ab]+$",
    "^[\\x5ea]+$", "^[a-z]+$", "^a\\.b$", "^[a-z.]+$", "^[-a]+$", "^a\\x2db$", "^[\\x2da]b$", "^[a\\x5d]+$", "^a\\x5cb$", "^[\\x5c-\\x5da]+$",
    "^a.b$", "^.*$", "^.+$", "^.{2}$", "^[^x]*$", "^[^x]+$", "^[a-z$]+$", "^a[$]b$", "^[$]+$", "^.*a$", "^a.*$", "^[^a]$", "^(a|.)b$", "^.?x?$",
    "^[a\\^]+$", "^a[\\^]b$", "^[ -~]+$", "^[^ ]*$", "^(.b|a.)$", "^a\\x24$", "^\\x5ea$", "^a\\$b?$", "^\\^.$", "^[$a]+$", "^a\\U0001F600$", "^[a\\U0001F600]+$",
]

_INTERSECTION_ALPHABET = ["a", "b", "x", ".", "$", "^", "*", "+", "-", "]", "\\", "(", "2", " ", "\U0001f600"]


def impl_intersect(patterns: Sequence[str]) -> str:
    """Canonical outcome of ``_translate_to_simple_type`` on a string value with the given patterns: ``ok <XSD pattern>`` | ``err <text>`` | ``crash:<Type>``."""
    from aas_core_codegen import infer_for_schema, intermediate
    from aas_core_codegen.xsd import main as xsd_main

    try:
        constraints = infer_for_schema.Constraints(patterns=[infer_for_schema.PatternConstraint(pattern=p) for p in patterns])
        simple_type, error = xsd_main._translate_to_simple_type(primitive_type=intermediate.PrimitiveType.STR, constraints=constraints)
    except BaseException as e:  # noqa
        return crash_name(e)
    if error is not None:
        return "err " + error
    assert simple_type is not None and simple_type.restriction is not None and simple_type.restriction.pattern is not None
    return "ok " + enc_text(simple_type.restriction.pattern)


def intersection_shape(patterns: Sequence[str]) -> str:
    from harness.props import c14_models

    if c14_models.escaped_metacharacter_intersected(patterns):
        return "escaped-metacharacter"
    if any(re.search(r"\.|\[\^|\$(?!$)|(?<!^)\^", re.sub(r"\\\\.", "", p)) for p in patterns):
        return "caret-or-dollar-accepted"
    return "other"


def _intersection_strings(patterns: Sequence[str], extra: Sequence[str]) -> List[str]:
    present = [c for c in _INTERSECTION_ALPHABET if any(c in p for p in patterns)]
    alphabet = (["a", "b", "$", "^"] + [c for c in present if c not in "ab$^"])[:7]
    out = list(extra)
    for n in range(0, 4):
        for t in itertools.product(alphabet, repeat=n):
            out.append("".join(t))
    return [w for w in dict.fromkeys(out) if is_xml_string(w)]


def judge_intersection(ctx: Ctx, patterns: Sequence[str], stream: str, extra: Sequence[str] = (), accepts_invalid: bool = False) -> Dict[str, Any]:
    """
    The statement on one value with two or more patterns, decided at the level of the facet: the XSD pattern the generator writes
    accepts every sampled XML string without line breaks that all the patterns match (C13; ``accepts_invalid``: and rejects the
    others, C14).  Judges: Python's ``re`` for the meta-model patterns, xmlschema (both versions) and the direct conversion of the
    XSD pattern to Python for the facet.
    """
    prop = "C14" if accepts_invalid else "C13"
    res: Dict[str, Any] = {"impl": impl_intersect(patterns)}
    ctx.count(("intersection", tuple(patterns)), nontrivial=True, stream="intersection/" + stream)
    out = res["impl"]
    inp = {"intersect": list(patterns)}
    if out.startswith("crash"):
        ctx.fail(inp, f"_translate_to_simple_type raises {out} on the patterns {list(patterns)!r}", f"{prop}:intersection-raises:{out.split(':')[-1]}")
        return res
    if not out.startswith("ok "):
        klass = _reason_class_of_refusal(out)
        ctx.hit("intersection=refused:" + klass)
        res["refused"] = klass
        return res
    t = dec_text(out[3:])
    res["xsd_pattern"] = t
    ctx.hit("intersection=translated")
    try:
        cps = [re.compile(p) for p in patterns]
    except BaseException:  # noqa
        return res
    facets: List[Tuple[str, Any]] = [("re on the converted XSD pattern", PyFacet(t))]
    if not xmlschema_blind(t):
        for ver in ("1.0", "1.1"):
            ty = load_facets([t], ver)[0]
            if isinstance(ty, str):
                ctx.fail(inp, f"the schema with the intersected pattern {t!r} does not load as XSD {ver}: {ty}", f"{prop}:intersection-schema-invalid:" + ty.split(":")[0])
                return res
            facets.append(("xmlschema " + ver, ty))
    if facets[0][1].rx is None:
        ctx.fail(inp, f"the intersected XSD pattern {t!r} is not readable", f"{prop}:intersection-schema-invalid:unreadable")
        return res
    shape = intersection_shape(patterns)
    for w in _intersection_strings(patterns, extra):
        want = all(cp.match(w) is not None for cp in cps)
        for name, ty in facets:
            got = facet_valid(ty, w)
            if got is None:
                continue
            if want and not got and not accepts_invalid:
                ctx.fail({**inp, "text": w}, f"{w!r} matches all of {list(patterns)!r} but the XSD pattern {t!r} rejects it ({name})", f"C13:intersection-rejects-valid:{shape}")
                return res
            if got and not want and accepts_invalid:
                broken = [p for p, cp in zip(patterns, cps) if cp.match(w) is None]
                ctx.fail({**inp, "text": w}, f"{w!r} breaks {broken!r} but the XSD pattern {t!r} written for {list(patterns)!r} accepts it ({name})", f"C14:intersection-accepts-invalid:{shape}")
                return res
    ctx.hit("intersection=agrees:" + shape)
    return res


def _reason_class_of_refusal(out: str) -> str:
    for key, name in (("greenery failed to parse", "greenery-parse"), ("greenery failed to intersect", "greenery-intersect"), ("Unexpected escaping", "unexpected-escaping"), ("Expected a closing bracket", "empty-intersection"),
                      ("Unexpected quantifier after the symbol", "quantified-anchor"), ("not allowed in XML", "non-xml-character"), ("escaping at the moment", "class-escape")):
        if key in out:
            return name
    return "other"


def _anchors(tree: Any) -> Tuple[int, int]:
    """(start anchors, end anchors) anywhere in the tree: the front end accepts a pattern with exactly one of each (first and last)."""
    from aas_core_codegen.parse import retree

    class V(retree.PassThroughVisitor):  # type: ignore[misc]
        def __init__(self) -> None:
            self.n = [0, 0]

        def visit_symbol(self, node: Any) -> None:
            if node.kind is retree.SymbolKind.START:
                self.n[0] += 1
            elif node.kind is retree.SymbolKind.END:
                self.n[1] += 1

    v = V()
    v.visit(tree)
    return v.n[0], v.n[1]


def intersection_stage(ctx: Ctx, accepts_invalid: bool = False) -> None:
    for prop in ("C13", "C14"):
        for c in corpus(prop):
            if "intersect" in c:
                judge_intersection(ctx, c["intersect"], "corpus", extra=c.get("texts", []), accepts_invalid=accepts_invalid)
            elif "model_patterns" in c:
                judge_intersection(ctx, c["model_patterns"], "corpus", extra=[w for w in (c.get("valid"), c.get("mutant")) if isinstance(w, str)], accepts_invalid=accepts_invalid)
    pool = INTERSECTION_POOL
    pairs = list(itertools.combinations(pool, 2))
    if ctx.tier == "quick":
        # a seed-independent third of the pairs (every pattern meets every third other one), all of them in the thorough tier
        pairs = [pr for k, pr in enumerate(pairs) if k % 3 == 0]
    for pr in pairs:
        judge_intersection(ctx, pr, "enumerated", accepts_invalid=accepts_invalid)
    for tr in (("^.*$", "^[ -~]+$", "^[^x]*$"), ("^a\\x2ab?$", "^[a-z*]+$", "^.{2,3}$"), ("^[$a]+$", "^.+$", "^[^b]*$")):
        judge_intersection(ctx, tr, "enumerated", accepts_invalid=accepts_invalid)
    rnd = [p for p, _ in random_patterns(ctx, ctx.n(60, 900))]
    acc = []
    from aas_core_codegen.parse import retree

    for p in rnd:
        try:
            t, e = retree.parse([p])
        except BaseException:  # noqa
            continue
        # greenery builds automata: keep the repetition counts small (a{1234} & b{17,100} is minutes of work, not a verdict)
        if t is not None and _accepted_shape(t) and _anchors(t) == (1, 1) and len(p) < 40 and re.search(r"[0-9]{2}", p) is None:
            acc.append(p)
    for _ in range(ctx.n(40, 600)):
        if len(acc) < 2:
            break
        k = 2 if ctx.rng.random() < 0.85 else 3
        judge_intersection(ctx, ctx.rng.sample(acc + pool, k), "random", accepts_invalid=accepts_invalid)


# --------------------------------------------------------------------------- meta-model level

#: accepted patterns that exercise the escapes; planted into the pattern functions of random models
MODEL_PATTERNS = [
    "^a\\x2ab\\$$", "^[\\x2d\\x5e]+$", "^a*?b+?$", "^x\\x7cy$", "^\\^\\$\\.$", "^[a\\-c]{2}$", "^[^\\x5e-]+$", "^\\u00e4+\\U0001F600?$",
    "^(a|b\\x29)+$", "^\\x5c[\\x5c]$", "^[\\x5b-\\x5d]$", "^a\\{1\\}$", "^\\(\\)\\[\\]$", "^-[-]$", "^[!#$%&'*+\\-.^_`|~0-9a-zA-Z]+$", "^\\\\x41$", "^[+-\\-]$",
]


def all_roots_snippet(symbol_table: Any) -> str:
    from aas_core_codegen import intermediate, naming
    from aas_core_codegen.xsd import naming as xsd_naming

    ns = symbol_table.meta_model.xml_namespace
    elements = "".join(
        f'    <xs:element name="{naming.xml_class_name(c.name)}" type="{xsd_naming.type_name(c.name)}" />\n'
        for c in symbol_table.classes
        if isinstance(c, intermediate.ConcreteClass)
    )
    return (
        f'<xs:schema\n        xmlns:xs="{_XS}"\n        xmlns="{ns}"\n        elementFormDefault="qualified"\n'
        f'        targetNamespace="{ns}"\n>\n{elements}</xs:schema>'
    )


class Built:
    """One meta-model taken through the XSD generator, xmlschema and the Python SDK."""

    def __init__(self) -> None:
        self.source = ""
        self.mm: Any = None
        self.error: Optional[str] = None  # the front end or the XSD generator reported errors
        self.crash: Optional[str] = None
        self.xsd_text: Optional[str] = None
        self.schemas: Dict[str, Any] = {}  # version -> XMLSchema | error text
        self.sdk: Any = None
        self.symbol_table: Any = None


def build_model(ctx: Ctx, m: Any, with_sdk: bool = True) -> Built:
    from harness import mm
    import xmlschema

    b = Built()
    b.mm = m
    b.source = mm.render(m)
    loaded = mm.load(b.source)
    st, err = loaded
    if st is None:
        b.error = "front end: " + (err or getattr(loaded, "crash", None) or "?")[:300]
        return b
    b.symbol_table = st
    scratch = ctx.scratch()
    out = scratch / f"xsd{id(b)}"
    snippets = dict(mm.snippets_for("xsd", st))
    snippets["root_element.xml"] = all_roots_snippet(st)
    res = mm.generate("xsd", b.source, out, snippets=snippets, symbol_table=st)
    if res.exception:
        b.crash = res.exception
        b.error = (res.traceback or "")[-600:]
        return b
    if res.rc != 0:
        b.error = "xsd: " + res.stderr[:600]
        return b
    b.xsd_text = (out / "schema.xsd").read_text(encoding="utf-8")
    for ver, cls in (("1.0", xmlschema.XMLSchema10), ("1.1", xmlschema.XMLSchema11)):
        try:
            with warnings.catch_warnings():
                warnings.simplefilter("ignore")
                b.schemas[ver] = cls(b.xsd_text)
        except BaseException as e:  # noqa
            b.schemas[ver] = f"{type(e).__name__}: {str(e).strip()[:400]}"
    if with_sdk:
        try:
            b.sdk = mm.load_python_sdk(b.source, scratch / f"sdk{id(b)}")
        except BaseException as e:  # noqa
            b.sdk = None
            ctx.hit("python-sdk-unavailable:" + type(e).__name__)
    return b


def validation_errors(schema: Any, xml_text: str) -> List[str]:
    try:
        return [f"{(e.reason or '').strip()[:200]} @ {e.path}" for e in schema.iter_errors(xml_text)]
    except BaseException as e:  # noqa
        return [f"validator raised {type(e).__name__}: {str(e)[:200]}"]


def _in_diamond(symbol_table: Any, cname: str) -> bool:
    """The class reaches one of its ancestors through two different parents (known finding C13-F2: the XSD composes the
    property groups of all the parents, so the properties of the shared ancestor are expected twice)."""
    try:
        cls = next(c for c in symbol_table.classes if str(c.name) == cname)
    except StopIteration:
        return False

    def ancestors(c: Any) -> set:
        out = set()
        for p in c.inheritances:
            out.add(str(p.name))
            out |= ancestors(p)
        return out

    seen: set = set()
    for p in cls.inheritances:
        mine = ancestors(p) | {str(p.name)}
        if seen & mine:
            return True
        seen |= mine
    return any(_in_diamond(symbol_table, str(p.name)) for p in cls.inheritances)


def _diamond_in_document(symbol_table: Any, cname: str, xml_text: str) -> bool:
    """The document holds an instance of a class with diamond inheritance (the root itself, or a nested element named after
    such a class)."""
    from aas_core_codegen import naming

    if _in_diamond(symbol_table, cname):
        return True
    for c in symbol_table.classes:
        if _in_diamond(symbol_table, str(c.name)):
            tag = naming.xml_class_name(c.name)
            if f"<{tag}>" in xml_text or f"<{tag} " in xml_text or f"<{tag}/>" in xml_text:
                return True
    return False


def _reason_class(reason: str) -> str:
    r = reason.lower()
    for key, name in (("pattern", "pattern"), ("length", "length"), ("unexpected child", "unexpected-child"), ("not complete", "incomplete-content"),
                      ("occurs", "occurs"), ("decode", "lexical"), ("not a valid value", "lexical"), ("invalid value", "lexical"), ("raised", "validator-raised")):
        if key in r:
            return name
    return "other"


def plant_patterns(ctx: Ctx, m: Any) -> None:
    from harness import mm

    for k, fn in enumerate(list(m.verification_functions)):
        if isinstance(fn, mm.PatternFn) and ctx.rng.random() < 0.6:
            m.verification_functions[k] = mm.PatternFn(name=fn.name, parts=(ctx.rng.choice(MODEL_PATTERNS),), arg=fn.arg, description=fn.description, style="plain")


#: maxima planted on random lists / strings: the neighbours of the powers of ten (their decimal spelling sorts
#: before that of a smaller minimum) next to the small ones
PLANTED_MAXIMA = [0, 1, 2, 3, 9, 10, 11, 12, 25, 99, 100, 101]


def plant_bounds(ctx: Ctx, m: Any) -> int:
    """
    Give lists and strings that no invariant mentions yet a window ``lo <= len <= hi`` (two invariants, guarded for
    optional properties) with lo in 0..2 — so that ``mm.random_instance`` still builds them — and hi from
    PLANTED_MAXIMA.  Returns how many were planted.
    """
    from harness import mm

    planted = 0
    for c in m.classes:
        if c.impl_specific:
            continue
        mentioned = {node.name for inv in c.invariants for node in mm.walk_expr(inv.expr) if isinstance(node, mm.Member) and node.instance == mm.SELF}
        for p in c.props:
            t = mm.beneath_optional(p.type)
            if p.name in mentioned or not (isinstance(t, mm.ListOf) or t == mm.Prim("str")) or ctx.rng.random() < 0.4:
                continue
            lo = ctx.rng.choice([None, 0, 1, 2, 2])
            hi = ctx.rng.choice([None] + [h for h in PLANTED_MAXIMA if h >= (lo or 0)])
            subject = mm.prop(p.name)
            for bound, op in ((lo, ">="), (hi, "<=")):
                if bound is None:
                    continue
                body: Any = mm.Comparison(mm.length(subject), op, mm.Constant(bound))
                if mm.is_optional(p.type):
                    body = mm.Or((mm.IsNone(subject), body))
                c.invariants.append(mm.Invariant(f"{p.name} has a planted bound {op} {bound}.", body))
                planted += 1
    return planted


def models(ctx: Ctx, n: int) -> Iterator[Tuple[Any, str]]:
    from harness import mm

    for c in corpus(ID):
        if "model_pattern" in c:
            yield single_pattern_model(c["model_pattern"]), "corpus"
    yield length_model(), "length-model"
    for p in MODEL_PATTERNS[: ctx.n(6, len(MODEL_PATTERNS))]:
        yield single_pattern_model(p), "single-pattern"
    for i in range(n):
        ft = mm.Features()
        if i % 3 == 0:
            ft.lists_of_non_classes = True
        if i % 5 == 0:
            ft.nested_lists = True
        m = mm.random_mm(ctx.rng, size=ctx.rng.choice([2, 3, 4, 5]), features=ft)
        plant_patterns(ctx, m)
        if i % 2 == 1 and plant_bounds(ctx, m) > 0:
            yield m, "random-mm-planted-bounds"
        else:
            yield m, "random-mm"


def single_pattern_model(p: str) -> Any:
    """A constrained primitive and a class property, both constrained by the pattern."""
    from harness import mm

    fn = mm.PatternFn(name="matches_it", parts=(p,), style="plain")
    cp = mm.ConstrainedPrimitive(name="Restricted", base="str", bases=[], invariants=[mm.Invariant("It matches.", mm.FunctionCall("matches_it", (mm.SELF,)))])
    thing = mm.Class(
        name="Thing",
        props=[mm.Prop("direct", mm.Prim("str")), mm.Prop("through", mm.OptionalOf(mm.Ref("Restricted"))), mm.Prop("many", mm.OptionalOf(mm.ListOf(mm.Ref("Item"))))],
        invariants=[mm.Invariant("Direct matches.", mm.FunctionCall("matches_it", (mm.prop("direct"),)))],
    )
    item = mm.Class(name="Item", props=[mm.Prop("word", mm.Ref("Restricted"))])
    return mm.MM(classes=[item, thing], constrained_primitives=[cp], verification_functions=[fn], xml_namespace="https://example.com/c13")


def length_model() -> Any:
    """Length bounds on strings, byte arrays, lists and list items; a descendant that tightens (excluded by C14)."""
    from harness import mm

    def le(e: Any, n: int) -> Any:
        return mm.Comparison(mm.length(e), "<=", mm.Constant(n))

    def ge(e: Any, n: int) -> Any:
        return mm.Comparison(mm.length(e), ">=", mm.Constant(n))

    fn = mm.PatternFn(name="matches_word", parts=("^[a-c]+$",), style="plain")
    word = mm.ConstrainedPrimitive(
        name="Word", base="str", bases=[],
        invariants=[mm.Invariant("It is a word.", mm.FunctionCall("matches_word", (mm.SELF,))), mm.Invariant("It is short.", le(mm.SELF, 4))],
    )
    blob = mm.ConstrainedPrimitive(name="Blob", base="bytes", bases=[], invariants=[mm.Invariant("It is small.", le(mm.SELF, 3)), mm.Invariant("It is not empty.", ge(mm.SELF, 1))])
    item = mm.Class(name="Item", props=[mm.Prop("word", mm.Ref("Word"))])
    holder = mm.Class(
        name="Holder",
        props=[
            mm.Prop("title", mm.Prim("str")), mm.Prop("code", mm.OptionalOf(mm.Prim("str"))), mm.Prop("blob", mm.OptionalOf(mm.Ref("Blob"))),
            mm.Prop("items", mm.ListOf(mm.Ref("Item"))), mm.Prop("words", mm.OptionalOf(mm.ListOf(mm.Ref("Word")))), mm.Prop("flag", mm.Prim("bool")),
            mm.Prop("count", mm.OptionalOf(mm.Prim("int"))),
        ],
        invariants=[
            mm.Invariant("Title is bounded.", mm.And((ge(mm.prop("title"), 2), le(mm.prop("title"), 5)))),
            mm.Invariant("Code is short.", mm.Or((mm.IsNone(mm.prop("code")), le(mm.prop("code"), 3)))),
            mm.Invariant("Items are bounded.", mm.And((ge(mm.prop("items"), 1), le(mm.prop("items"), 3)))),
            mm.Invariant("Words are few.", mm.Or((mm.IsNone(mm.prop("words")), le(mm.prop("words"), 2)))),
        ],
        with_model_type=True,
    )
    child = mm.Class(name="Tight_holder", bases=["Holder"], props=[mm.Prop("extra", mm.OptionalOf(mm.Prim("str")))],
                     invariants=[mm.Invariant("Title is tighter.", le(mm.prop("title"), 3))])
    return mm.MM(classes=[item, holder, child], constrained_primitives=[word, blob], verification_functions=[fn], xml_namespace="https://example.com/c14")


def model_stage(ctx: Ctx, n: int, mutants: bool = False) -> None:
    from harness import mm

    for m, stream in models(ctx, n):
        b = build_model(ctx, m)
        ctx.count(b.source, stream="model/" + stream)
        judge_model(ctx, b, stream, mutants)
        if b.sdk is not None:
            try:
                b.sdk.close()
            except BaseException:  # noqa
                pass


def _schemas_load(ctx: Ctx, b: Built) -> bool:
    """The first half of C13: ``schema.xsd`` is a valid XSD 1.0 and 1.1 document."""
    ctx.hit("schema-generated")
    loaded = True
    for ver in ("1.0", "1.1"):
        s = b.schemas[ver]
        if isinstance(s, str):
            loaded = False
            ctx.fail({"model": b.source}, f"schema.xsd is not a valid XSD {ver} document: {s}", "C13:schema-invalid:" + s.split(":")[0] + ":" + _schema_error_class(s))
    return loaded


def judge_model(ctx: Ctx, b: Built, stream: str, mutants: bool) -> None:
    from harness import mm

    inp = {"model": b.source}
    if b.crash is not None:
        ctx.hit("xsd-generator=" + b.crash)
        # crashes of generators belong to C02; C13 only needs a schema when one is produced
        return
    if b.error is not None:
        ctx.hit("model-not-accepted-or-xsd-error")
        if b.error.startswith("xsd:"):
            ctx.hit("xsd-error:" + ("greenery" if "greenery" in b.error else "non-xml" if "not allowed in XML" in b.error else "other"))
        return
    if not _schemas_load(ctx, b) or b.sdk is None:
        return
    concrete = [c.name for c in b.mm.classes if not c.abstract and not c.impl_specific]
    per_class = 3 if ctx.tier == "quick" else 8
    for cname in concrete:
        for _ in range(per_class):
            try:
                built = mm.random_instance(b.sdk, b.mm, cname, ctx.rng, True, max_tries=80, xml_safe=True)
            except BaseException as e:  # noqa
                ctx.hit("random-instance-raised:" + type(e).__name__)
                break
            if built.instance is None or not built.satisfied:
                ctx.hit("no-satisfying-instance")
                continue
            try:
                if list(b.sdk.verification.verify(built.instance)):
                    ctx.hit("sdk-verification-disagrees-with-instance-builder")
                    continue
                xml_text = b.sdk.to_xml_str(built.instance)
            except BaseException as e:  # noqa
                ctx.hit("sdk-raised:" + type(e).__name__)
                continue
            ctx.hit("valid-document")
            ctx.count(xml_text, stream="document")
            for ver in ("1.0", "1.1"):
                errs = validation_errors(b.schemas[ver], xml_text)
                if errs:
                    ctx.fail({"model": b.source, "class": cname, "document": xml_text},
                             f"the XSD {ver} schema rejects a document the SDK wrote for an instance satisfying all invariants: {errs[0]}",
                             "C13:valid-document-rejected:" + _reason_class(errs[0]) + (":diamond" if _diamond_in_document(b.symbol_table, cname, xml_text) else ""))
                    break
            if mutants:
                from harness.props import c14

                c14.judge_mutants(ctx, b, cname, built.instance, xml_text)


# --------------------------------------------------------------------------- enumerated boundary models (designed constraints)


def built_family(ctx: Ctx, fam: Any) -> Built:
    """One build (XSD, both schema versions, SDK) per enumerated family and run; shared by the facet and the document stage."""
    cache = ctx.__dict__.setdefault("_c13_families", {})
    if fam.name not in cache:
        cache[fam.name] = build_model(ctx, fam.mm)
    return cache[fam.name]


def _write(ctx: Ctx, b: Built, fam: Any, var: Any, expect_valid: bool) -> Optional[str]:
    """The SDK-written document of a designed instance, after the independent invariant oracle confirmed the design."""
    from harness import mm
    from harness.props import c14_models

    try:
        inst = c14_models.realize(b.sdk, (var.cls, var.plan))
        checks = mm.check_invariants(fam.mm, b.sdk, inst)
        holds = all(c.holds for c in checks)
        if holds != expect_valid or any(mm.is_exception(c.result) for c in checks):
            ctx.hit("enumerated-design-rejected-by-invariant-oracle")
            ctx.note(f"c14_models: {fam.name} {var.cls} {var.kind}: the invariant oracle says holds={holds}, designed {expect_valid}")
            return None
        if expect_valid and list(b.sdk.verification.verify(inst)):
            ctx.hit("sdk-verification-disagrees-with-instance-builder")
            return None
        return b.sdk.to_xml_str(inst)
    except BaseException as e:  # noqa
        ctx.hit("enumerated-sdk-raised:" + type(e).__name__)
        return None


def _reduced_failure(ctx: Ctx, fam: Any, var: Any, expect_valid: bool) -> Optional[Tuple[str, str]]:
    """(source, document) of the same designed instance in the family cut down to its class, if it fails there the same way."""
    from harness.props import c14_models

    budget = ctx.__dict__.setdefault("_c13_reductions", [6])
    if budget[0] <= 0:
        return None
    budget[0] -= 1
    small = c14_models.reduced(fam, var.cls)
    sb = build_model(ctx, small.mm)
    try:
        if sb.xsd_text is None or sb.sdk is None or not sb.sdk.ok or any(isinstance(sb.schemas.get(v), str) for v in ("1.0", "1.1")):
            return None
        doc = _write(ctx, sb, small, var, expect_valid)
        if doc is None:
            return None
        verdicts = [not validation_errors(sb.schemas[ver], doc) for ver in ("1.0", "1.1")]
        if (expect_valid and not all(verdicts)) or (not expect_valid and any(verdicts)):
            return sb.source, doc
        return None
    finally:
        if sb.sdk is not None:
            try:
                sb.sdk.close()
            except BaseException:  # noqa
                pass


def _designed(spec: Any) -> Dict[str, Any]:
    return {"property": f"{spec.cls}.{spec.prop}", "position": spec.position, "kind": spec.kind, "window": spec.window(), "patterns": list(spec.patterns), "declared_by": spec.sources}


def judge_family(ctx: Ctx, fam: Any, b: Built, valid: bool, mutants: bool) -> None:
    """
    Valid designed documents must validate (C13); single-violation documents must be rejected (C14), in XSD 1.0 and 1.1.

    Valid documents are first tried three per class (all values at the minimum / between / at the maximum); a rejected
    one is narrowed to a document in which a single value is moved.
    """
    from harness.props import c14_models

    stream = "enumerated/" + fam.name.split("-")[0]
    ctx.count(b.source, stream="model/" + stream)
    if b.crash is not None or b.error is not None:
        ctx.hit("enumerated-model-not-accepted")
        ctx.note(f"c14_models: family {fam.name} is not accepted: {b.crash or b.error}")
        return
    if not _schemas_load(ctx, b) or b.sdk is None or not b.sdk.ok:
        if b.sdk is None or not b.sdk.ok:
            ctx.hit("python-sdk-unavailable:enumerated")
        return
    concrete = sorted({s.cls for s in fam.specs})
    seen: set = set()

    def rejected(doc: str) -> Optional[Tuple[str, str]]:
        for ver in ("1.0", "1.1"):
            errs = validation_errors(b.schemas[ver], doc)
            if errs:
                return ver, errs[0]
        return None

    if valid:
        for cname in concrete:
            for var in c14_models.combined_valid(fam, cname):
                doc = _write(ctx, b, fam, var, True)
                if doc is None or doc in seen:
                    continue
                seen.add(doc)
                ctx.count(doc, stream="document/" + stream)
                ctx.hit("enumerated-valid-document=" + var.kind)
                bad = rejected(doc)
                if bad is None:
                    continue
                narrowed = False
                for spec in (s for s in fam.specs if s.cls == cname):
                    for single in c14_models.single_valid(fam, spec):
                        if single.kind != var.kind:
                            continue
                        sdoc = _write(ctx, b, fam, single, True)
                        sbad = None if sdoc is None else rejected(sdoc)
                        if sbad is not None:
                            narrowed = True
                            ctx.hit(f"enumerated-valid-rejected={spec.label}/{single.kind}")
                            sig = "C13:valid-document-rejected:" + _reason_class(sbad[1])
                            if _reason_class(sbad[1]) == "pattern" and c14_models.escaped_metacharacter_intersected(spec.patterns):
                                sig += ":escaped-metacharacter-intersected"
                            small = None if sig.endswith("-intersected") else _reduced_failure(ctx, fam, single, True)
                            ctx.fail(
                                {"model": small[0] if small else b.source, "class": cname, "document": small[1] if small else sdoc, "designed": _designed(spec), "value_at": single.kind},
                                f"the XSD {sbad[0]} schema rejects the SDK-written document of a valid instance ({spec.cls}.{spec.prop} {spec.kind} {spec.window()} {list(spec.patterns)} at its {single.kind}): {sbad[1]}",
                                sig,
                            )
                if not narrowed:
                    ctx.fail({"model": b.source, "class": cname, "document": doc, "value_at": var.kind},
                             f"the XSD {bad[0]} schema rejects the SDK-written document of a valid instance (all constrained values at {var.kind}): {bad[1]}",
                             "C13:valid-document-rejected:" + _reason_class(bad[1]))
    if mutants:
        # a mutant only counts against a class whose unmutated document validates (otherwise C13 reports that)
        base_ok: Dict[str, bool] = {}
        for cname in concrete:
            doc = _write(ctx, b, fam, c14_models.Variant(cname, None, True, "min", c14_models.base_plan(fam, cname)), True)
            base_ok[cname] = doc is not None and rejected(doc) is None
            if not base_ok[cname]:
                ctx.hit("enumerated-base-document-not-valid")
        for spec in fam.specs:
            for var in c14_models.violations(fam, spec):
                doc = _write(ctx, b, fam, var, False)
                if doc is None:
                    continue
                kind = re.sub(r"pattern-\d+-of-(\d+)", r"pattern-of-\1", var.kind)
                ctx.count((doc, var.kind), stream="mutant/" + stream + "/" + kind)
                accepted = next((ver for ver in ("1.0", "1.1") if not validation_errors(b.schemas[ver], doc)), None)
                if accepted is None:
                    # a rejection only says something if the unmutated document is valid
                    ctx.hit(f"enumerated-mutant-rejected={kind}/{spec.position}" if base_ok[spec.cls] else "enumerated-mutant-rejected-like-its-base-document")
                    continue
                ctx.hit("mutant-accepted=" + kind)
                label = f"{var.kind}@{spec.prop}"
                sig = "C14:mutant-accepted:" + kind
                if "pattern" in kind and c14_models.escaped_metacharacter_intersected(spec.patterns):
                    sig = "C14:mutant-accepted:pattern:escaped-metacharacter-intersected"
                small = None if sig.endswith("-intersected") else _reduced_failure(ctx, fam, var, False)
                ctx.fail(
                    {"model": small[0] if small else b.source, "class": spec.cls, "document": small[1] if small else doc, "mutation": label, "sig": sig, "designed": _designed(spec)},
                    f"the XSD {accepted} schema accepts the SDK-written document of an instance that breaks one constraint ({label}; {spec.cls}.{spec.prop} {spec.kind} {spec.window()} {list(spec.patterns)}, declared by {spec.sources})",
                    sig,
                )


def enumerated_families(ctx: Ctx) -> Iterator[Any]:
    """The enumerated families; the multi-pattern witnesses of corpus/C13 and corpus/C14 lead the ``escapes`` family."""
    from harness.props import c14_models

    entries = [c for prop in ("C13", "C14") for c in corpus(prop) if "model_patterns" in c]
    return c14_models.enumerated(ctx.tier, entries)


def enumerated_stage(ctx: Ctx, valid: bool, mutants: bool) -> None:
    for fam in enumerated_families(ctx):
        judge_family(ctx, fam, built_family(ctx, fam), valid, mutants)


def close_families(ctx: Ctx) -> None:
    for b in ctx.__dict__.pop("_c13_families", {}).values():
        if b.sdk is not None:
            try:
                b.sdk.close()
            except BaseException:  # noqa
                pass


def _schema_error_class(s: str) -> str:
    if "overlap and are in the same 'choice'" in s:
        return "duplicate-choice-alternative"
    for key in ("escape", "quantifier", "meta character", "character range", "unknown", "missing", "not allowed", "duplicat"):
        if key in s:
            return key.replace(" ", "-")
    return "other"


# --------------------------------------------------------------------------- stages


def _patterns(ctx: Ctx) -> List[Tuple[str, str]]:
    pats: List[Tuple[str, str]] = []
    for c in corpus(ID):
        if "pattern" in c:
            pats.append((c["pattern"], "corpus"))
    pats += [(p, "enumerated") for p in enumerated_patterns()]
    pats += list(random_patterns(ctx, ctx.n(500, 12000)))
    seen = set()
    out = []
    for p, s in pats:
        if p not in seen:
            seen.add(p)
            out.append((p, s))
    return out


def correspond(ctx: Ctx) -> None:
    ctx.extra_cov["rule"] = (
        "patterns: corpus + an enumerated family (every special character of either dialect in literal/set position, raw, "
        "escaped, \\x/\\u/\\U-encoded; dash and caret positions; every quantifier form; groups/unions; the patterns of "
        "aas_core_meta.v3) + seeded random trees rendered by retree + their token mutations + mm.safe_pattern; each translated "
        "pattern is read by the Lean reader, by an independent Python reading of the W3C grammar and by xmlschema (1.0 and 1.1) "
        "and matched on <= 56 XML strings; un-escaping functions on seeds + random texts over a 17-symbol alphabet; distinct by value"
    )
    ctx.assumptions.append(
        "XSD semantics: XsdRe.read/Matches model the W3C regular-expression grammar; validated against the independent "
        "xmlschema library (verdicts on sampled strings) and an independent Python reading of the grammar, not verified"
    )
    ctx.assumptions.append(
        "greenery: the multi-pattern case goes through the external greenery intersection, assumed L(a & b) = L(a) ∩ L(b); "
        "exercised by the oracle only (models with two patterns on one value)"
    )
    ctx.assumptions.append("A (C16): re.match(p, s) <=> Retree.FullMatch (parse p) s for anchored p and s without line breaks — sampled, not proved")
    pattern_stage(ctx, _patterns(ctx), True)
    undo_stage(ctx)


def oracle(ctx: Ctx) -> None:
    if not ctx.driver_ok or ctx.searching:
        pattern_stage(ctx, _patterns(ctx), False)
    intersection_stage(ctx)
    enumerated_stage(ctx, valid=True, mutants=False)
    close_families(ctx)
    model_stage(ctx, ctx.n(22, 300))


def replay(ctx: Ctx, data: Dict[str, Any]) -> Any:
    inp = data["failure"]["input"] if "failure" in data else data
    res: Dict[str, Any] = {}
    before = len(ctx.failures)
    if "intersect" in inp:
        res.update(judge_intersection(ctx, inp["intersect"], "replay", extra=[inp["text"]] if "text" in inp else []))
    elif "pattern" in inp and inp.get("function") == "greenery":
        res["impl"] = impl_greenery(inp["pattern"])
        if ctx.driver_ok:
            res["model"] = ctx.model(["greenery " + enc_text(inp["pattern"])])[0]
    elif "pattern" in inp:
        p = inp["pattern"]
        res["impl"] = impl_translate(p)
        if res["impl"].startswith("ok "):
            res["xsd_pattern"] = dec_text(res["impl"][3:])
        if ctx.driver_ok:
            res["model"] = ctx.model(["translate " + enc_text(p)])[0]
        pattern_stage(ctx, [(p, "replay")], ctx.driver_ok)
    elif "model" in inp:
        from harness import mm

        b = Built()
        # replay from the recorded source text
        res["note"] = "re-running the XSD generator, xmlschema and the SDK on the recorded meta-model"
        class _M:  # minimal stand-in: the recorded source, the classes are recovered from the SDK
            pass
        res.update(replay_model(ctx, inp))
    elif "text" in inp and "function" in inp:
        res["impl"] = impl_undo(inp["function"], inp["text"])
        if ctx.driver_ok:
            res["model"] = ctx.model([f"{inp['function']} {enc_text(inp['text'])}"])[0]
    res["oracle"] = [(f["sig"], f["what"]) for f in ctx.failures[before:]]
    res["disagreements"] = ctx.disagreements[:3]
    return res


def replay_model(ctx: Ctx, inp: Dict[str, Any]) -> Dict[str, Any]:
    """Re-run a recorded meta-model source (and document, if any) against the current tree."""
    from harness import mm
    import xmlschema

    out: Dict[str, Any] = {}
    src = inp["model"]
    st, err = mm.load(src)
    if st is None:
        return {"front_end": (err or "")[:300]}
    scratch = ctx.scratch()
    snippets = dict(mm.snippets_for("xsd", st))
    snippets["root_element.xml"] = all_roots_snippet(st)
    res = mm.generate("xsd", src, scratch / "replay-xsd", snippets=snippets, symbol_table=st)
    out["xsd_rc"] = res.rc
    if res.rc != 0 or res.exception:
        out["xsd_error"] = (res.exception or res.stderr)[:400]
        return out
    text = (scratch / "replay-xsd" / "schema.xsd").read_text(encoding="utf-8")
    for ver, cls in (("1.0", xmlschema.XMLSchema10), ("1.1", xmlschema.XMLSchema11)):
        try:
            s = cls(text)
        except BaseException as e:  # noqa
            out[f"schema_{ver}"] = f"invalid: {type(e).__name__}: {str(e)[:300]}"
            ctx.fail(inp, f"schema.xsd is not a valid XSD {ver} document", "C13:schema-invalid:" + type(e).__name__ + ":" + _schema_error_class(str(e)))
            continue
        out[f"schema_{ver}"] = "loads"
        if "document" in inp:
            errs = validation_errors(s, inp["document"])
            out[f"document_{ver}"] = errs or "valid"
            if errs and not inp.get("mutation"):
                ctx.fail(inp, f"the XSD {ver} schema rejects the recorded document: {errs[0]}", "C13:valid-document-rejected:" + _reason_class(errs[0]))
            if not errs and inp.get("mutation"):
                ctx.fail(inp, f"the XSD {ver} schema accepts the recorded mutant ({inp['mutation']})", inp.get("sig", "C14:mutant-accepted"))
    return out
