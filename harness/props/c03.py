"""C03 — exit status and error-report contract.

Correspondence: run.write_error_report / textwrap.indent / str.isspace / str.splitlines vs
Model.Report + Model.PyStr.  Gen: exit-path skeletons of all execute() functions
(Props/C03Exit.lean).  Oracle: the statement of C03 on real in-process CLI runs.
"""
from __future__ import annotations

import io
import os
import pathlib
import shutil
import sys
import tempfile
import textwrap
from typing import Any, Dict, Iterator, List, Optional, Tuple

from harness.core import REPO, Ctx, corpus, crash_name, dec_list, dec_text, enc_list, enc_text, show

ID = "C03"
GEN = ["ExitPaths"]
LEAN_PROPS = ["AasVerif.Props.C03", "AasVerif.Props.C03Exit"]
TARGETS = ["cpp", "csharp", "golang", "java", "jsonschema", "python", "typescript", "xsd"]

PIECES = ["a", "At line 3 and column 5: x", " ", "  ", "\t", "\n", "\n\n", "\r", "\r\n", "\x0b", "\x0c", "\x1c", "\x85",
          " ", "*", "* ", ":", "é", "😀", "\ud800", "word", "-", "\xa0", "　", "x\ny", " \n"]


# --------------------------------------------------------------------------- correspondence


def impl_write(message: str, errors: List[str]) -> str:
    from aas_core_codegen import run

    buf = io.StringIO()
    try:
        run.write_error_report(message=message, errors=errors, stderr=buf)
    except BaseException as e:  # noqa
        return crash_name(e)
    return "ok " + enc_text(buf.getvalue())


def rand_text(ctx: Ctx, maxlen: int = 5) -> str:
    return "".join(ctx.rng.choice(PIECES) for _ in range(ctx.rng.randint(0, maxlen)))


def correspond(ctx: Ctx) -> None:
    ctx.extra_cov["rule"] = (
        "report stream: all (message, [error]) over 26 text pieces up to 2 pieces each (enumerated) + seeded random "
        "messages/error lists; non-trivial = at least one error with a line break or a violated @require; "
        "tables: str.isspace and str.splitlines boundaries compared over ALL code points U+0000..U+10FFFF; "
        "CLI stream: see cli_runs"
    )
    # --- tables over all code points (exhaustive)
    step = 0x8000
    reqs, want_sp, want_br = [], [], []
    for a in range(0, 0x110000, step):
        b = a + step
        reqs.append(f"spaces {a} {b}")
        want_sp.append([c for c in range(a, b) if chr(c).isspace()])
    for a in range(0, 0x110000, step):
        b = a + step
        reqs.append(f"breaks {a} {b}")
        want_br.append([c for c in range(a, b) if len(("a" + chr(c) + "b").splitlines()) == 2])
    outs = ctx.model(reqs)
    for req, got, want in zip(reqs, outs, want_sp + want_br):
        w = "[]" if not want else ",".join(map(str, want))
        ctx.count(req, nontrivial=bool(want), stream="codepoint-tables")
        if got != w:
            ctx.disagree("codepoint-table", req, w, got)
    ctx.traces_validated += len(reqs)
    ctx.extra_cov["codepoint_tables_exhaustive"] = True

    # --- write_error_report / indent / splitlines
    cases: List[Tuple[str, List[str], str]] = []
    for c in corpus(ID):
        if "message" in c:
            cases.append((c["message"], c["errors"], "corpus"))
    for p in PIECES:
        for q in PIECES:
            cases.append(("Failed to do it", [p + q], "enumerated"))
            cases.append((p + q, ["x"], "enumerated"))
    for _ in range(ctx.n(3000, 100000)):
        msg = "m" + rand_text(ctx, 3) if ctx.rng.random() < 0.7 else rand_text(ctx, 3)
        errs = []
        for _ in range(ctx.rng.randint(0, 3)):
            e = rand_text(ctx)
            if ctx.rng.random() < 0.7:
                e = "e" + e + "e"
            errs.append(e)
        cases.append((msg, errs, "random"))
    lines = [f"write {enc_text(m)} {enc_list(es)}" for m, es, _ in cases]
    # enc_list cannot distinguish [] from [""]: send [""] as a single empty text
    lines = [f"write {enc_text(m)} {'-' if es == [''] else enc_list(es)}" for m, es, _ in cases]
    outs = ctx.model(lines)
    for (m, es, stream), got in zip(cases, outs):
        want = impl_write(m, es)
        nontrivial = any("\n" in e for e in es) or want.startswith("crash")
        ctx.count((m, tuple(es)), nontrivial=nontrivial, stream=stream)
        ctx.hit("write:" + ("ok" if want.startswith("ok") else "crash"))
        g = got if not got.startswith("crash ") else "crash:ViolationError"
        if g != want:
            ctx.disagree("write_error_report", {"message": m, "errors": es}, want, got)
        ctx.traces_validated += 1
    ctx.sample({"message": cases[-1][0], "errors": cases[-1][1], "impl": impl_write(cases[-1][0], cases[-1][1])})
    texts = [e for _, es, _ in cases for e in es][:4000]
    outs = ctx.model([f"indent {enc_text(t)}" for t in texts] + [f"lines {enc_text(t)}" for t in texts])
    for t, got in zip(texts, outs[: len(texts)]):
        if got != enc_text(textwrap.indent(t, "  ")):
            ctx.disagree("textwrap.indent", t, textwrap.indent(t, "  "), got)
    for t, got in zip(texts, outs[len(texts):]):
        if got != enc_list(t.splitlines(True)) and not (t == "" and got == "[]"):
            ctx.disagree("splitlines", t, t.splitlines(True), got)
    ctx.traces_validated += 2 * len(texts)


# --------------------------------------------------------------------------- oracle: real CLI runs


class _Tracking(io.StringIO):
    """stderr that remembers who wrote to it (file:function of the writing frame)."""

    def __init__(self) -> None:
        super().__init__()
        self.sites: List[Tuple[str, str]] = []

    def write(self, s: str) -> int:  # type: ignore[override]
        f = sys._getframe(1)
        fname = f.f_code.co_filename
        try:
            rel = str(pathlib.Path(fname).resolve().relative_to(REPO / "aas_core_codegen"))
        except ValueError:
            rel = pathlib.Path(fname).name
        self.sites.append((f"{rel}:{f.f_code.co_name}", s))
        return super().write(s)


class _ErrorSpy:
    """Records every ``aas_core_codegen.common.Error`` constructed while active, with the file:function constructing it.

    The class object is shared by all the modules (``from aas_core_codegen.common import Error``), so wrapping its
    ``__init__`` sees every construction; nothing in the repository is edited."""

    def __init__(self) -> None:
        self.created: List[Tuple[str, Any]] = []
        self._orig: Any = None

    def __enter__(self) -> "_ErrorSpy":
        from aas_core_codegen import common

        orig = common.Error.__init__
        created = self.created
        root = str((REPO / "aas_core_codegen").resolve()) + os.sep

        def spying_init(this: Any, *args: Any, **kwargs: Any) -> None:
            orig(this, *args, **kwargs)
            f = sys._getframe(1)
            fname = os.path.realpath(f.f_code.co_filename)
            site = (fname[len(root):] if fname.startswith(root) else os.path.basename(fname)) + ":" + f.f_code.co_name
            created.append((site, this))

        self._orig = orig
        common.Error.__init__ = spying_init  # type: ignore
        return self

    def __exit__(self, *exc: Any) -> None:
        from aas_core_codegen import common

        common.Error.__init__ = self._orig  # type: ignore


def _nesting(errors: List[Any]) -> List[Tuple[int, int]]:
    index = {id(e): i for i, e in enumerate(errors)}
    return [(i, index[id(u)]) for i, e in enumerate(errors) for u in (e.underlying or []) if id(u) in index]


def run_cli(
    model: pathlib.Path, target: str, snippets: pathlib.Path, out: pathlib.Path, scratch: pathlib.Path, spy: bool = False
) -> Dict[str, Any]:
    import contextlib

    import aas_core_codegen.main as m

    stdout, stderr = io.StringIO(), _Tracking()
    saved = tempfile.tempdir
    tempfile.tempdir = str(scratch / "tmp")
    os.makedirs(tempfile.tempdir, exist_ok=True)
    exc = None
    rc: Any = None
    error_spy = _ErrorSpy()
    try:
        with error_spy if spy else contextlib.nullcontext():
            params = m.Parameters(model_path=model, target=m.Target(target), snippets_dir=snippets, output_dir=out)
            rc = m.execute(params, stdout=stdout, stderr=stderr)
    except BaseException as e:  # noqa
        exc = crash_name(e)
    finally:
        tempfile.tempdir = saved
    return {"rc": rc, "stdout": stdout.getvalue(), "stderr": stderr.getvalue(), "exc": exc, "sites": stderr.sites, "out": str(out),
            "errors_created": [(site, e.message) for site, e in error_spy.created],
            # index pairs (outer, inner): error `inner` was handed over as an underlying error of `outer`
            "errors_nesting": _nesting([e for _, e in error_spy.created])}


def judge(res: Dict[str, Any]) -> List[Tuple[str, str]]:
    """The statement of C03 on one run. Returns [(sig, what)]."""
    bad: List[Tuple[str, str]] = []
    if res["exc"] is not None:
        # crashes are C01/C02's subject; C03 only states what a *completed* run looks like
        return bad
    rc, out, err = res["rc"], res["stdout"], res["stderr"]
    if not isinstance(rc, int) or isinstance(rc, bool):
        return [("C03:rc-not-int", f"execute returned {rc!r}")]
    if (rc == 0) != (err == ""):
        bad.append(("C03:rc-vs-stderr", f"rc={rc} but stderr is {'empty' if err == '' else 'non-empty'}"))
    if rc == 0 and not out.endswith(f"Code generated to: {res['out']}\n"):
        bad.append(("C03:no-done-line", f"rc=0 but stdout ends with {out[-80:]!r}"))
    if rc != 0 and err != "":
        lines = err.split("\n")
        site = res["sites"][0][0] if res["sites"] else "?"
        prefix = res["sites"][0][1].split(":")[0][:60] if res["sites"] else "?"
        shape_ok = (
            len(lines) >= 3
            and lines[-1] == ""
            and lines[0].endswith(":")
            and lines[1].startswith("* ")
            and all(ln.startswith("* ") or ln.startswith("  ") or ln.strip() == "" for ln in lines[1:-1])
        )
        if not shape_ok:
            if len(lines) >= 2 and lines[1].startswith("* ") is False and any(ln.startswith("* ") for ln in lines[2:]):
                bad.append((f"C03:multi-line-headline:{site}", f"headline spans several lines: {err[:160]!r}"))
            else:
                bad.append((f"C03:not-a-report:{site}:{prefix}", f"stderr is not 'headline:' + bullets: {err[:160]!r}"))
    return bad


def fixture_cases(max_valid_per_target: int = 1000) -> Iterator[Tuple[str, pathlib.Path, str, Optional[pathlib.Path]]]:
    """(kind, model path, target, snippets dir or None)"""
    td = REPO / "dev" / "test_data"
    common = {p.stem: p for p in (td / "common_meta_models").glob("*.py")}
    for t in TARGETS:
        exp = td / "main" / t / "expected"
        if not exp.is_dir():
            continue
        k = 0
        for case in sorted(exp.iterdir(), key=lambda c: (c.name != "primitive_types", c.name)):
            if k >= max_valid_per_target:
                break
            k += 1
            if case.name.startswith("aas_core_meta"):
                continue  # the full model takes seconds per target; thorough only via C02
            model = case / "meta_model.py"
            if not model.exists():
                model = common.get(case.name)  # type: ignore
            if model is None or not (case / "input" / "snippets").is_dir():
                continue
            yield ("valid", model, t, case / "input" / "snippets")
    for p in sorted(td.glob("parse/unexpected/**/meta_model.py")) + sorted(td.glob("intermediate/unexpected/**/meta_model.py")):
        yield ("rejected-model", p, "python", None)


MULTI_ERROR_MODEL = '''\
class A:
    x: Optional[Optional[int]]

    def __init__(self, x: Optional[Optional[int]] = None) -> None:
        self.x = x


class B:
    y: List[Optional[int]]

    def __init__(self, y: List[Optional[int]]) -> None:
        self.y = y


__version__ = "dummy"
__xml_namespace__ = "https://dummy.com"
'''

METHOD_MODEL = '''\
class Something:
    x: int

    def __init__(self, x: int) -> None:
        self.x = x

    def do_something(self) -> int:
        return self.x


__version__ = "dummy"
__xml_namespace__ = "https://dummy.com"
'''


def cli_inputs(ctx: Ctx, scratch: pathlib.Path) -> Iterator[Tuple[str, pathlib.Path, str, pathlib.Path, pathlib.Path]]:
    """(kind, model, target, snippets, out)"""
    td = REPO / "dev" / "test_data"
    empty = scratch / "empty_snippets"
    empty.mkdir(exist_ok=True)
    k = 0
    valid: List[Tuple[pathlib.Path, str, pathlib.Path]] = []
    for kind, model, target, snippets in fixture_cases(3 if ctx.tier == "quick" else 1000):
        k += 1
        if kind == "valid":
            valid.append((model, target, snippets))  # type: ignore
            yield kind, model, target, snippets, scratch / f"out{k}"  # type: ignore
        else:
            yield kind, model, target, empty, scratch / f"out{k}"
    assert valid, "no fixture found"
    model, target, snippets = valid[0]
    some_file = scratch / "a_file.txt"
    some_file.write_text("x")
    # path problems
    yield "model-missing", scratch / "nope.py", target, snippets, scratch / "o1"
    yield "model-is-dir", scratch, target, snippets, scratch / "o2"
    yield "snippets-missing", model, target, scratch / "nope", scratch / "o3"
    yield "snippets-is-file", model, target, some_file, scratch / "o4"
    yield "output-is-file", model, target, snippets, some_file
    # snippet problems
    bad = scratch / "bad_snippets"
    shutil.copytree(snippets, bad, dirs_exist_ok=True)
    (bad / "Invalid key!.txt").write_text("x")
    (bad / "another bad key?.txt").write_text("y")
    yield "bad-snippet-keys", model, target, bad, scratch / "o5"
    # every target without its required snippets
    seen = set()
    for m_, t_, _ in valid:
        if t_ not in seen:
            seen.add(t_)
            yield "missing-required-snippet", m_, t_, empty, scratch / f"o6{t_}"
    # broken texts
    for name, text in [
        ("syntax-error", "class A(:\n  pass\n"),
        ("empty-model", ""),
        ("unexpected-import", "import os\n\n__version__ = 'x'\n__xml_namespace__ = 'https://x.com'\n"),
        ("multi-error", MULTI_ERROR_MODEL),
        ("non-utf8", None),
    ]:
        p = scratch / f"{name}.py"
        if text is None:
            p.write_bytes(b"\xff\xfe = 1\n")
        else:
            p.write_text(text)
        yield name, p, target, snippets, scratch / f"o7{name}"
    # a model with an understood (non implementation-specific) method, for every SDK target
    p = scratch / "method_model.py"
    p.write_text(METHOD_MODEL)
    for m_, t_, s_ in valid:
        if t_ in ("cpp", "csharp", "golang", "java", "python", "typescript") and m_.stem == "primitive_types":
            yield "understood-method", p, t_, s_, scratch / f"o8{t_}"



# --------------------------------------------------------------------------- independent errors in one model

PAIR_OK = """class {N}:
    x: int

    def __init__(self, x: int) -> None:
        self.x = x
"""

PAIR_DEFECTS = {
    "nested_optional": """class {N}:
    x: Optional[Optional[int]]

    def __init__(self, x: Optional[Optional[int]] = None) -> None:
        self.x = x
""",
    "list_of_optional": """class {N}:
    x: List[Optional[int]]

    def __init__(self, x: List[Optional[int]]) -> None:
        self.x = x
""",
    "ctor_order": """class {N}:
    x: int
    y: int

    def __init__(self, y: int, x: int) -> None:
        self.x = x
        self.y = y
""",
    "ctor_type": """class {N}:
    x: int

    def __init__(self, x: str) -> None:
        self.x = x
""",
    "optional_no_default": """class {N}:
    x: Optional[int]

    def __init__(self, x: Optional[int]) -> None:
        self.x = x
""",
    "unknown_type": """class {N}:
    x: Unknown_type_{N}

    def __init__(self, x: Unknown_type_{N}) -> None:
        self.x = x
""",
    "dup_invariant_desc": """@invariant(lambda self: self.x > 0, "Same description.")
@invariant(lambda self: self.x > 1, "Same description.")
class {N}:
    x: int

    def __init__(self, x: int) -> None:
        self.x = x
""",
    "unassigned_property": """class {N}:
    x: int
    y: int

    def __init__(self, x: int, y: int) -> None:
        self.x = x
""",
    "reserved_property": """class {N}:
    model_type: int

    def __init__(self, model_type: int) -> None:
        self.model_type = model_type
""",
    "dangling_doc_ref": """class {N}:
    \"\"\"Represent {N}, see :class:`Nonexisting_{N}`.\"\"\"

    x: int

    def __init__(self, x: int) -> None:
        self.x = x
""",
    "unknown_base": """class {N}(Unknown_base_{N}):
    x: int

    def __init__(self, x: int) -> None:
        self.x = x
""",
}

PAIR_TAIL = '\n\n__version__ = "dummy"\n__xml_namespace__ = "https://dummy.com"\n'


def _class_mentioned(err: str, text: str, name: str) -> bool:
    import re as _re

    lines = text.split("\n")
    start = next(i for i, ln in enumerate(lines, 1) if _re.match(r"class " + name + r"\b", ln))
    s = start
    while s > 1 and lines[s - 2].startswith("@"):
        s -= 1
    e = start
    while e < len(lines) and (lines[e].startswith(" ") or lines[e] == ""):
        e += 1
    return any(s <= int(m) <= e for m in _re.findall(r"At line (\d+) and column", err)) or name in err


def pair_stream(ctx: Ctx, scratch: pathlib.Path) -> None:
    """Two independent defects in two unrelated classes of one model: when each alone is reported under the same
    headline (same stage), the report of the model holding both must locate both."""
    import itertools

    sn = REPO / "dev/test_data/main/jsonschema/expected/primitive_types/input/snippets"
    p = scratch / "pair_model.py"

    def run(parts: List[str]) -> Tuple[str, str]:
        text = "\n\n".join(parts) + PAIR_TAIL
        p.write_text(text)
        res = run_cli(p, "jsonschema", sn, scratch / "pair_out", scratch)
        return (res["stderr"] if res["exc"] is None else "crash"), text

    single = {}
    for k, v in PAIR_DEFECTS.items():
        err, text = run([PAIR_OK.format(N="First"), v.format(N="Second")])
        single[k] = (err.split("\n")[0], err != "crash" and err != "" and _class_mentioned(err, text, "Second"))
    n = 0
    for a, b in itertools.permutations(PAIR_DEFECTS, 2):
        if single[a][0] != single[b][0] or not single[a][1] or not single[b][1]:
            continue
        err, text = run([PAIR_DEFECTS[a].format(N="First"), PAIR_DEFECTS[b].format(N="Second")])
        n += 1
        ctx.count(("pair", a, b), nontrivial=True, stream="cli-error-pairs")
        if err == "crash":
            continue
        for which, name in ((a, "First"), (b, "Second")):
            if not _class_mentioned(err, text, name):
                first = a if which == b else b
                ctx.fail(
                    {"kind": "error-pair", "first": a, "second": b, "model": text},
                    f"the independent error '{which}' in class {name} is missing from the report although it is reported "
                    f"under the same headline when it is alone (other defect: '{first}'): {err[:300]!r}",
                    f"C03:error-dropped:{which}:when-with:{first}" if which == a else f"C03:error-dropped:after:{a}",
                )
    ctx.extra_cov["error_pairs"] = n



# --------------------------------------------------------------------------- errors found by the front end (spy)

#: further defect units (module-level entities, shared references, members) — with PAIR_DEFECTS the units of front_end_error_stream
MORE_UNITS = {
    "dangling_subset": 'Set_{N}: Set[str] = constant_set(\n    values=["a", "b"],\n    superset_of=[Missing_{N}],\n)\n',
    "set_unknown_item_type": 'Set_{N}: Set[Unknown_item_{N}] = constant_set(\n    values=[],\n)\n',
    "shared_unknown_type": 'class {N}:\n    x: Unknown_shared\n\n    def __init__(self, x: Unknown_shared) -> None:\n        self.x = x\n',
    "list_unknown": 'class {N}:\n    x: List[Unknown_in_list_{N}]\n\n    def __init__(self, x: List[Unknown_in_list_{N}]) -> None:\n        self.x = x\n',
    "method_unknown_return": (
        'class {N}:\n    x: int\n\n    def __init__(self, x: int) -> None:\n        self.x = x\n\n'
        '    @implementation_specific\n    def compute(self) -> Unknown_return_{N}:\n        pass\n'
    ),
    "function_unknown_arg": '@verification\n@implementation_specific\ndef check_{N}(x: Unknown_arg_{N}) -> bool:\n    pass\n',
    "enum_dup_value": 'class {N}(Enum):\n    A = "a"\n    B = "a"\n',
    "wrong_arity": 'class {N}:\n    x: Optional[str, int]\n\n    def __init__(self, x: Optional[str, int]) -> None:\n        self.x = x\n',
    "two_unknowns": 'class {N}:\n    x: Unknown_one\n    y: Unknown_one\n\n    def __init__(self, x: Unknown_one, y: Unknown_one) -> None:\n        self.x = x\n        self.y = y\n',
}

FRONT_END_SITES = ("parse/", "intermediate/", "run.py", "main.py", "common.py")


def unreported_front_end_errors(res: Dict[str, Any]) -> List[Tuple[str, str, int, int]]:
    """[(site, message, constructed, reported)]: messages of errors which the front end constructed more often than the
    report shows them.

    Written from the statement ("no error is ever silently dropped (the front end reports every independent error it
    found)"): an ``Error`` object constructed by the front end during a run that ends with a report is something the front
    end found; whether it is nested or top-level, its message text must be in the report once per construction."""
    import collections

    if res["exc"] is not None or res["rc"] == 0:
        return []
    report = _norm(res["stderr"])
    count: Dict[str, int] = collections.Counter()
    site_of: Dict[str, str] = {}
    for site, message in res["errors_created"]:
        if site.startswith(FRONT_END_SITES):
            m = _norm(message)
            count[m] += 1
            site_of.setdefault(m, site)
    out = []
    for m, k in count.items():
        occ = report.count(m) if m else k
        if occ < k:
            out.append((site_of[m], m, k, occ))
    return out


def front_end_error_stream(ctx: Ctx, scratch: pathlib.Path) -> None:
    """Models with one or two defect units (classes, constant sets, functions, enumerations; the same defect twice, shared
    dangling references) and the recorded 'unexpected' fixtures, run with the error spy."""
    import itertools

    sn = REPO / "dev/test_data/main/jsonschema/expected/primitive_types/input/snippets"
    units = dict(PAIR_DEFECTS)
    units.update(MORE_UNITS)
    names = sorted(units)
    pairs = list(itertools.product(names, names))
    if ctx.tier == "quick" and not ctx.searching:
        # every twin, every pair with one of the further units, a seeded sample of the rest
        fixed = [(a, b) for a, b in pairs if a == b or a in MORE_UNITS or b in MORE_UNITS]
        rest = [pr for pr in pairs if pr not in set(fixed)]
        ctx.rng.shuffle(rest)
        pairs = fixed + rest[:40]
    p = scratch / "fe_model.py"

    def judge_run(inp: Dict[str, Any], res: Dict[str, Any]) -> None:
        for site, message, made, shown in unreported_front_end_errors(res):
            ctx.hit("front-end-error:unreported")
            sig = f"C03:error-dropped:front-end:{site}"
            if sum(1 for f in ctx.failures if f["sig"] == sig) < 2:
                ctx.fail(
                    inp,
                    f"the front end constructed the error {message[:160]!r} {made} time(s) in {site}, the report (exit {res['rc']}) shows it {shown} time(s)",
                    sig,
                )

    for a, b in pairs:
        text = "\n\n".join([units[a].format(N="First"), units[b].format(N="Second")]) + PAIR_TAIL
        p.write_text(text)
        res = run_cli(p, "jsonschema", sn, scratch / "fe_out", scratch, spy=True)
        ctx.count(("front-end-errors", a, b), nontrivial=True, stream="cli-front-end-errors")
        ctx.hit("front-end-error:rc=" + str(res["rc"]) if res["exc"] is None else "front-end-error:" + res["exc"])
        ctx.hit("front-end-error:constructed", len(res["errors_created"]))
        for sig, what in judge(res):
            ctx.fail({"kind": "front-end-errors", "first": a, "second": b, "model": text}, what, sig + ":front-end-errors")
        judge_run({"kind": "front-end-errors", "first": a, "second": b, "model": text}, res)
    for kind, model, target, snippets in fixture_cases(2):
        if kind == "valid":
            continue
        res = run_cli(model, target or "jsonschema", snippets or sn, scratch / "fe_out", scratch, spy=True)  # type: ignore
        ctx.count(("front-end-errors-fixture", str(model), target), nontrivial=True, stream="cli-front-end-errors-fixture")
        judge_run({"kind": "front-end-errors-fixture", "model": str(model), "target": target, "snippets": str(snippets)}, res)
    shutil.rmtree(scratch / "fe_out", ignore_errors=True)


# --------------------------------------------------------------------------- errors found by the generators

GEN_HEADER = '''\
from enum import Enum
from re import match
from typing import List, Optional, Set

from icontract import invariant, DBC

from aas_core_meta.marker import (
    abstract,
    serialization,
    implementation_specific,
    verification,
    constant_set,
    non_mutating,
)

__version__ = "V0.1"

__xml_namespace__ = "https://example.com/aasv/0/1"

'''

#: a description which the front end accepts (its smoke rendering of the descriptions rejects all the docutils elements which the
#: generators do not handle), but five of the SDK generators can not render: a backtick inside an inline literal
UNRENDERABLE = "Represent ``a`b`` something."
PLAIN_DOC = "Represent something."

#: the positions of a description in a meta-model; every one is rendered by its own piece of every SDK generator
DESCRIPTION_POSITIONS = [
    "meta-model", "class", "property", "enumeration", "enumeration-literal", "constant-primitive", "constant-set-of-primitives",
    "constant-set-of-enumeration-literals", "verification-function", "method", "constrained-primitive",
]


def description_model(positions: Any) -> str:
    """A small accepted model with the unrenderable description at the given positions, a plain one everywhere else."""

    def d(pos: str) -> str:
        return UNRENDERABLE if pos in positions else PLAIN_DOC

    return (
        f'"""{d("meta-model")}"""\n' + GEN_HEADER
        + f'class Kind(Enum):\n    """{d("enumeration")}"""\n\n    First = "first"\n    """{d("enumeration-literal")}"""\n\n\n'
        + f'@invariant(\n    lambda self: len(self) > 0,\n    "Some constraint.",\n)\nclass Limit(str, DBC):\n    """{d("constrained-primitive")}"""\n\n\n'
        + f'@verification\n@implementation_specific\ndef is_fine(text: str) -> bool:\n    """{d("verification-function")}"""\n\n\n'
        + f'class Thing(DBC):\n    """{d("class")}"""\n\n    limit: Limit\n    """{d("property")}"""\n\n'
        + '    def __init__(self, limit: Limit) -> None:\n        self.limit = limit\n\n'
        + f'    @implementation_specific\n    def compute(self) -> str:\n        """{d("method")}"""\n\n\n'
        + f'Some_text: str = constant_str(\n    value="x",\n    description="{d("constant-primitive")}",\n)\n\n'
        + f'Some_texts: Set[str] = constant_set(\n    values=["x", "y"],\n    description="{d("constant-set-of-primitives")}",\n)\n\n'
        + f'Some_kinds: Set[Kind] = constant_set(\n    values=[Kind.First],\n    description="{d("constant-set-of-enumeration-literals")}",\n)\n'
    )


def number_model(kind: str) -> str:
    """Integers beyond the range of a double / of a 64-bit integer, where a generator has to write them as a literal."""
    big = ["9007199254740993", "18446744073709551616"]  # 2**53 + 1, 2**64
    body = {
        "constant-int": f"Some_number: int = constant_int(\n    value={big[1]},\n    description=\"{PLAIN_DOC}\",\n)\n",
        "constant-set-of-ints": f"Some_numbers: Set[int] = constant_set(\n    values=[1, {big[0]}, {big[1]}],\n    description=\"{PLAIN_DOC}\",\n)\n",
    }[kind]
    return (
        GEN_HEADER
        + f'class Thing(DBC):\n    """{PLAIN_DOC}"""\n\n    val: str\n    """{PLAIN_DOC}"""\n\n    def __init__(self, val: str) -> None:\n        self.val = val\n\n\n'
        + body
    )


#: everything that needs a snippet: an implementation-specific class, method, constructor and verification function
SPECIFIC_MODEL = GEN_HEADER + '''\
@implementation_specific
class Special(DBC):
    """Represent something special."""

    val: str
    """Hold a value."""

    def __init__(self, val: str) -> None:
        self.val = val


class Plain(DBC):
    """Represent something with an implementation-specific constructor."""

    @implementation_specific
    def __init__(self) -> None:
        pass


class Thing(DBC):
    """Represent a thing."""

    special: Special
    """Hold something special."""

    plain: Plain
    """Hold something plain."""

    def __init__(self, special: Special, plain: Plain) -> None:
        self.special = special
        self.plain = plain

    @implementation_specific
    def compute(self) -> str:
        """Compute something."""


@verification
@implementation_specific
def is_fine(text: str) -> bool:
    """Check it."""
'''


def generator_error_models() -> List[Tuple[str, str]]:
    """Seed independent: one model per position of an unrenderable description, two positions at once, unrepresentable numbers."""
    out = [("description-nowhere", description_model(()))]
    for pos in DESCRIPTION_POSITIONS:
        out.append((f"description-at-{pos}", description_model((pos,))))
    out.append(("description-at-class-and-constant-set", description_model(("class", "constant-set-of-primitives", "constant-primitive"))))
    out.append(("number-constant-int", number_model("constant-int")))
    out.append(("number-constant-set-of-ints", number_model("constant-set-of-ints")))
    return out


def _norm(text: str) -> str:
    return " ".join(text.split())


def dropped_errors(res: Dict[str, Any], target: str) -> List[Tuple[str, str]]:
    """[(site, message)] of the errors which a generator of ``target`` constructed during the run and which are not in the report.

    The statement (written from the property text, independent of how the generators pass the errors around): a run in which a
    generator found an error exits non-zero, and everything found is in the report (nested errors included)."""
    if res["exc"] is not None:
        return []
    report = _norm(res["stderr"])
    own = {"csharp": ("csharp/", "smoke/"), "xsd": ("xsd/", "infer_for_schema/"), "jsonschema": ("jsonschema/", "infer_for_schema/")}.get(target, (target + "/",))
    missing = [
        i for i, (site, message) in enumerate(res["errors_created"])
        if site.startswith(own) and (res["rc"] == 0 or _norm(message) not in report)
    ]
    # an error which went missing together with the error wrapping it is not a root cause of its own
    inner = {i for o, i in res.get("errors_nesting", []) if o in missing}
    return [res["errors_created"][i] for i in missing if i not in inner]


def generator_error_stream(
    ctx: Ctx, scratch: pathlib.Path, only: Optional[Tuple[str, ...]] = None, models: Optional[List[Tuple[str, str]]] = None
) -> List[Dict[str, Any]]:
    """Accepted models on which a generator has to report an error (or not), all targets, with full snippet sets."""
    from harness import mm

    seen: List[Dict[str, Any]] = []
    if models is None:
        models = [(c["name"], c["model"]) for c in corpus(ID) if c.get("kind") == "generator-error" and "missing" not in c]
        models += generator_error_models()
        # every snippet of the model in which everything is implementation-specific, left out one at a time
        models = models + [("missing-snippet", SPECIFIC_MODEL)]
    for k, (name, text) in enumerate(models):
        if only is not None and name != only[0]:
            continue
        ld = mm.load(text)
        if not ld.ok:
            raise RuntimeError(f"the model {name} of the generator-error stream is not accepted: {ld.error or ld.crash}")
        path = scratch / f"generr_{k}.py"
        path.write_text(text, encoding="utf-8")
        runs: List[Tuple[str, Optional[str]]] = []
        for target in TARGETS:
            if only is not None and target != only[1]:
                continue
            if name == "missing-snippet":
                keys = sorted(mm.snippets_for(target, ld.symbol_table))
                runs += [(target, key) for key in keys if only is None or len(only) < 3 or only[2] == key]
            else:
                runs.append((target, None))
        for j, (target, missing) in enumerate(runs):
            snippets = scratch / f"generr_{k}_{j}_snippets"
            for rel, content in mm.snippets_for(target, ld.symbol_table).items():
                if rel == missing:
                    continue
                (snippets / rel).parent.mkdir(parents=True, exist_ok=True)
                (snippets / rel).write_text(content, encoding="utf-8")
            out = scratch / f"generr_{k}_{j}_out"
            res = run_cli(path, target, snippets, out, scratch, spy=True)
            ctx.count(("generator-error", name, target, missing), nontrivial=True, stream="cli-generator-error" if missing is None else "cli-missing-snippet")
            ctx.hit(f"generator-error:rc={res['rc']}" if res["exc"] is None else f"generator-error:{res['exc']}")
            inp = {"kind": "generator-error", "name": name, "target": target, "model": text}
            if missing is not None:
                inp["missing"] = missing
            for sig, what in judge(res):
                ctx.fail(inp, what, sig + ":generator-error")
            dropped = dropped_errors(res, target)
            for site, message in dropped:
                ctx.hit("generator-error:dropped")
                sig = f"C03:error-dropped:generator:{site}"
                if sum(1 for f in ctx.failures if f["sig"] == sig) < 2:
                    ctx.fail(inp, f"{target} exits {res['rc']}, but the error constructed in {site} is not in the report: {message[:200]!r}", sig)
            seen.append({"name": name, "target": target, "missing": missing, "rc": res["rc"], "exc": res["exc"], "dropped": dropped, "stderr": res["stderr"][:300]})
            shutil.rmtree(out, ignore_errors=True)
            shutil.rmtree(snippets, ignore_errors=True)
    return seen


def history_stream(ctx: Ctx, scratch: pathlib.Path) -> None:
    """Output-directory histories per target: generate twice into the same directory; generate into a directory
    that holds a regular file where a sub-directory is needed and a directory where a file is to be written."""
    seen = set()
    for kind, model, target, snippets in fixture_cases(1):
        if kind != "valid" or target in seen:
            continue
        seen.add(target)
        out = scratch / f"hist_{target}"
        first = run_cli(model, target, snippets, out, scratch)  # type: ignore
        second = run_cli(model, target, snippets, out, scratch)  # type: ignore
        for step, res in (("first", first), ("second-into-same-dir", second)):
            ctx.count(("history", target, step), nontrivial=True, stream="cli-history")
            for sig, what in judge(res):
                ctx.fail({"kind": "history", "step": step, "model": str(model), "target": target, "snippets": str(snippets)}, what, sig + ":" + step)
        if first["exc"] is not None or first["rc"] != 0:
            continue
        files = sorted(p for p in out.rglob("*") if p.is_file())
        dirs = sorted(p for p in out.rglob("*") if p.is_dir())
        obstacles = []
        if dirs:
            obstacles.append(("file-where-directory-needed", dirs[0].relative_to(out), "file"))
        if files:
            obstacles.append(("directory-where-file-written", files[-1].relative_to(out), "dir"))
        for name, rel, what_kind in obstacles:
            o2 = scratch / f"hist_{target}_{name}"
            (o2 / rel).parent.mkdir(parents=True, exist_ok=True)
            if what_kind == "file":
                (o2 / rel).write_text("obstacle")
            else:
                (o2 / rel).mkdir()
            res = run_cli(model, target, snippets, o2, scratch)  # type: ignore
            ctx.count(("history", target, name), nontrivial=True, stream="cli-history")
            ctx.hit(f"history:{name}:rc={res['rc']}" if res["exc"] is None else f"history:{name}:{res['exc']}")
            for sig, what in judge(res):
                ctx.fail({"kind": "history", "step": name, "obstacle": str(rel), "model": str(model), "target": target, "snippets": str(snippets)}, what, sig + ":" + name)
            shutil.rmtree(o2, ignore_errors=True)
        shutil.rmtree(out, ignore_errors=True)



ARGUMENT_KINDS = [
    "file", "dir", "fifo", "socket", "devnull", "dangling-symlink", "symlink-to-dir", "symlink-to-file", "below-file",
    "missing", "nested-missing", "symlink-loop", "unsearchable-parent",
]


def _make_path(base: pathlib.Path, kind: str) -> pathlib.Path:
    """A path of the given kind below ``base`` (a fresh directory)."""
    import socket

    p = base / "arg"
    if kind == "file":
        p.write_text("x")
    elif kind == "dir":
        p.mkdir()
    elif kind == "fifo":
        os.mkfifo(p)
    elif kind == "socket":
        s = socket.socket(socket.AF_UNIX)
        s.bind(str(p))
        s.close()
    elif kind == "devnull":
        return pathlib.Path("/dev/null")
    elif kind == "dangling-symlink":
        p.symlink_to(base / "nowhere")
    elif kind == "symlink-to-dir":
        (base / "realdir").mkdir()
        p.symlink_to(base / "realdir")
    elif kind == "symlink-to-file":
        (base / "realfile").write_text("x")
        p.symlink_to(base / "realfile")
    elif kind == "below-file":
        (base / "afile").write_text("x")
        return base / "afile" / "sub"
    elif kind == "nested-missing":
        return base / "a" / "b" / "c"
    elif kind == "symlink-loop":
        p.symlink_to(p)
    elif kind == "unsearchable-parent":
        (base / "locked").mkdir()
        return base / "locked" / "sub"
    return p


def argument_stream(ctx: Ctx, scratch: pathlib.Path) -> None:
    """Every program argument pointing at every kind of file-system entry: the run ends with exit 0 and no stderr, or
    non-zero with a report — an exception escaping ``execute`` is a traceback on the command line (non-zero exit without
    a report)."""
    valid = next(c for c in fixture_cases(1) if c[0] == "valid" and c[2] == "jsonschema")
    _, model, target, snippets = valid
    k = 0
    for arg in ("output_dir", "snippets_dir", "model_path"):
        for kind in ARGUMENT_KINDS:
            if arg == "model_path" and kind == "fifo":
                continue  # reading a FIFO without a writer blocks: not an argument error
            k += 1
            base = scratch / f"args_{k}"
            base.mkdir()
            try:
                path = _make_path(base, kind)
            except OSError:
                ctx.hit("arguments:kind-unavailable=" + kind)
                continue
            locked = base / "locked"
            if kind == "unsearchable-parent":
                os.chmod(locked, 0)
            args = {"model_path": model, "snippets_dir": snippets, "output_dir": base / "out_ok"}
            args[arg] = path
            try:
                res = run_cli(args["model_path"], target, args["snippets_dir"], args["output_dir"], scratch)  # type: ignore
            finally:
                if kind == "unsearchable-parent":
                    os.chmod(locked, 0o700)
            ctx.count(("arguments", arg, kind), nontrivial=True, stream="cli-arguments")
            ctx.hit(f"arguments:{arg}:{kind}:rc={res['rc']}" if res["exc"] is None else f"arguments:{arg}:{kind}:{res['exc']}")
            inp = {"kind": "arguments", "argument": arg, "path_kind": kind, "target": target}
            if res["exc"] is not None:
                if kind == "unsearchable-parent" and os.geteuid() == 0:
                    pass  # root is not stopped by permissions; whatever happens is not about the arguments
                ctx.fail(inp, f"--{arg} pointing at a {kind}: execute raised {res['exc']} (a traceback instead of a report)", f"C03:arguments:crash:{arg}")
            for sig, what in judge(res):
                ctx.fail(inp, what, sig + ":arguments")
            shutil.rmtree(base, ignore_errors=True)


def subprocess_stream(ctx: Ctx, scratch: pathlib.Path) -> None:
    """The real process exit status: `python -m aas_core_codegen` and the console-script entry point."""
    import subprocess

    valid = next(c for c in fixture_cases(1) if c[0] == "valid" and c[2] == "jsonschema")
    _, model, target, snippets = valid
    bad = scratch / "sub_bad.py"
    bad.write_text("class A(:\n")
    env = dict(os.environ, PYTHONPATH=str(REPO), TMPDIR=str(scratch / "tmp"))
    (scratch / "tmp").mkdir(exist_ok=True)
    launchers = [
        ("module", [sys.executable, "-m", "aas_core_codegen"]),
        ("entry_point", [sys.executable, "-c", "import sys, aas_core_codegen.main as m; sys.argv[0] = 'aas-core-codegen'; sys.exit(m.entry_point())"]),
    ]
    for lname, launcher in launchers:
        for case, mp in (("valid", model), ("missing-model", scratch / "nope.py"), ("syntax-error", bad)):
            out = scratch / f"sub_{lname}_{case}"
            proc = subprocess.run(
                launcher + ["--model_path", str(mp), "--snippets_dir", str(snippets), "--output_dir", str(out), "--target", target],
                env=env, stdout=subprocess.PIPE, stderr=subprocess.PIPE, timeout=600,
            )
            res = {"rc": proc.returncode, "stdout": proc.stdout.decode(), "stderr": proc.stderr.decode(), "exc": None, "sites": [], "out": str(out)}
            ctx.count(("subprocess", lname, case), nontrivial=True, stream="cli-subprocess")
            ctx.hit(f"subprocess:{lname}:{case}:rc={proc.returncode}")
            for sig, what in judge(res):
                ctx.fail({"kind": "subprocess", "launcher": lname, "case": case}, what, sig + ":process:" + lname)
            shutil.rmtree(out, ignore_errors=True)


def oracle(ctx: Ctx) -> None:
    scratch = ctx.scratch()
    kinds: Dict[str, int] = {}
    n = 0
    for kind, model, target, snippets, out in cli_inputs(ctx, scratch):
        res = run_cli(model, target, snippets, out, scratch)
        n += 1
        kinds[kind] = kinds.get(kind, 0) + 1
        ctx.count((kind, str(model), target), nontrivial=True, stream="cli-" + kind)
        ctx.hit(f"cli:rc={res['rc']}" if res["exc"] is None else f"cli:{res['exc']}")
        if n % 25 == 1:
            ctx.sample({"kind": kind, "model": str(model), "target": target, "rc": res["rc"], "stderr": res["stderr"][:200]})
        verdicts = judge(res)
        if kind == "multi-error" and res["exc"] is None:
            # two independent errors (nested optional at line 2, list of optionals at line 9): both must be reported
            for ln in ("line 2 ", "line 9 "):
                if ln not in res["stderr"]:
                    verdicts.append(("C03:error-dropped:multi-error", f"the independent error at {ln.strip()} is not in the report: {res['stderr'][:300]!r}"))
        for sig, what in verdicts:
            ctx.fail({"kind": kind, "model": str(model), "target": target, "snippets": str(snippets)}, what, sig)
        if isinstance(out, pathlib.Path) and out.is_dir():
            shutil.rmtree(out, ignore_errors=True)
    ctx.extra_cov["cli_runs"] = kinds
    pair_stream(ctx, scratch)
    front_end_error_stream(ctx, scratch)
    generator_error_stream(ctx, scratch)
    for c in corpus(ID):
        if c.get("kind") == "generator-error" and "missing" in c:
            # a witness of the missing-snippet sub-stream: this target without this snippet
            generator_error_stream(ctx, scratch, only=("missing-snippet", c["target"], c["missing"]), models=[("missing-snippet", c["model"])])
    history_stream(ctx, scratch)
    argument_stream(ctx, scratch)
    subprocess_stream(ctx, scratch)


def replay(ctx: Ctx, data: Dict[str, Any]) -> Any:
    inp = data["failure"]["input"] if "failure" in data else data
    scratch = ctx.scratch()
    if "message" in inp:
        res: Dict[str, Any] = {"impl": impl_write(inp["message"], inp["errors"])}
        if ctx.driver_ok:
            res["model"] = ctx.model([f"write {enc_text(inp['message'])} {enc_list(inp['errors'])}"])[0]
        return res
    if inp.get("kind") == "arguments":
        valid = next(c for c in fixture_cases(1) if c[0] == "valid" and c[2] == "jsonschema")
        base = scratch / "args_replay"
        base.mkdir()
        path = _make_path(base, inp["path_kind"])
        args = {"model_path": valid[1], "snippets_dir": valid[3], "output_dir": base / "out_ok"}
        args[inp["argument"]] = path
        res = run_cli(args["model_path"], valid[2], args["snippets_dir"], args["output_dir"], scratch)  # type: ignore
        return {"rc": res["rc"], "stderr": res["stderr"], "exc": res["exc"], "oracle": judge(res)}
    if inp.get("kind") == "front-end-errors":
        sn = REPO / "dev/test_data/main/jsonschema/expected/primitive_types/input/snippets"
        mp = scratch / "fe_replay.py"
        mp.write_text(inp["model"])
        res = run_cli(mp, "jsonschema", sn, scratch / "fe_replay_out", scratch, spy=True)
        return {"rc": res["rc"], "stderr": res["stderr"], "exc": res["exc"], "oracle": judge(res), "unreported": unreported_front_end_errors(res)}
    if inp.get("kind") == "generator-error":
        # exactly the recorded model (whether or not it still is a part of the enumerated stream)
        only = (inp["name"], inp["target"]) + ((inp["missing"],) if "missing" in inp else ())
        return generator_error_stream(ctx, scratch, only=only, models=[(inp["name"], inp["model"])])
    for kind, model, target, snippets, out in cli_inputs(ctx, scratch):
        if kind == inp["kind"] and target == inp["target"] and (kind not in ("valid", "rejected-model") or str(model) == inp["model"]):
            res = run_cli(model, target, snippets, out, scratch)
            return {"rc": res["rc"], "stdout": res["stdout"], "stderr": res["stderr"], "exc": res["exc"], "oracle": judge(res)}
    return {"error": "input not found among the generated CLI inputs"}
