"""
C21 helper: a small, self-contained generator of meta-model SOURCE TEXT with near-colliding
names, plus the runner of the real targets (``main.execute``) on it.

The abstract meta-model is a plain dict (JSON-able, so it can be stored in corpus/replay files):

  {"types": [ {"kind": "enum",  "name": N, "literals": [L, ...], ["values": [V, ...]]},   # default values: v0, v1, …
              {"kind": "class", "name": N, "abstract": bool, "parent": N|None,
               "props": [P | [P, TYPE], ...], "methods": [M, ...]},     # TYPE: "int" or the name of a type
              {"kind": "cprim", "name": N} ],
   "consts": [ {"name": N, "kind": "str"|"set"} ],
   "funcs":  [ F, ... ] }

``types`` is in definition order.  Methods are implementation-specific (no body is transpiled);
they are only used for the in-process verdict of ``<target>.lib.verify`` — models handed to
``main.execute`` carry no methods (they would need per-target snippets).
"""
from __future__ import annotations

import contextlib
import io
import pathlib
import shutil
import tempfile
from typing import Any, Dict, Iterator, List, Optional, Tuple

TARGETS = ["cpp", "csharp", "golang", "java", "jsonschema", "python", "typescript", "xsd"]
SDK_TARGETS = ["cpp", "csharp", "golang", "java", "python", "typescript"]


def render(mm: Dict[str, Any]) -> str:
    """Meta-model source text in the shapes of dev/test_data/common_meta_models/*.py."""
    out: List[str] = []
    out.append("from enum import Enum")
    out.append("from re import match")
    out.append("from typing import List, Optional, Set")
    out.append("")
    out.append("from icontract import invariant, DBC")
    out.append("")
    out.append("from aas_core_meta.marker import (")
    out.append("    abstract,")
    out.append("    implementation_specific,")
    out.append("    serialization,")
    out.append("    verification,")
    out.append("    constant_set,")
    out.append("    non_mutating,")
    out.append(")")
    out.append("")
    for f in mm.get("funcs", []):
        out.append("")
        out.append("@verification")
        out.append(f"def {f}(text: str) -> bool:")
        out.append('    """Check the text."""')
        out.append('    pattern = f"^[a-z]+$"')
        out.append("    return match(pattern, text) is not None")
        out.append("")
    val = 0
    for t in mm["types"]:
        out.append("")
        if t["kind"] == "enum":
            out.append(f"class {t['name']}(Enum):")
            if not t["literals"]:
                out.append("    pass")
            values = t.get("values")  # optional explicit literal values (equal-definition models)
            for k, lit in enumerate(t["literals"]):
                if values is not None and k < len(values):
                    out.append(f'    {lit} = "{values[k]}"')
                else:
                    out.append(f'    {lit} = "v{val}"')
                val += 1
        elif t["kind"] == "cprim":
            out.append('@invariant(lambda self: len(self) > 0, "At least one character")')
            out.append(f"class {t['name']}(str, DBC):")
            out.append("    pass")
        else:
            if t.get("abstract"):
                out.append("@abstract")
            if t.get("with_model_type") or any(
                u["kind"] == "class" and u.get("parent") == t["name"] for u in mm["types"]
            ):
                # a class with descendants must carry the model type (the JSON schema generator asserts it)
                out.append("@serialization(with_model_type=True)")
            base = t.get("parent") or "DBC"
            out.append(f"class {t['name']}({base}):")
            own = [prop_pair(p) for p in t["props"]]
            for p, ty in own:
                out.append(f"    {p}: {anno(ty)}")
            if own:
                out.append("")
            inherited = _inherited_pairs(mm, t)
            allp = inherited + own
            args = "".join(f", {p}: {anno(ty)}" for p, ty in allp)
            out.append(f"    def __init__(self{args}) -> None:")
            if inherited:
                out.append(f"        {t['parent']}.__init__(self{''.join(f', {p}={p}' for p, _ in inherited)})")
            for p, _ in own:
                out.append(f"        self.{p} = {p}")
            if not own and not inherited:
                out.append("        pass")
            for m in t.get("methods", []):
                out.append("")
                out.append("    @implementation_specific")
                out.append("    @non_mutating")
                out.append(f"    def {m}(self) -> int:")
                out.append('        """Do something."""')
        out.append("")
    for c in mm.get("consts", []):
        out.append("")
        if c["kind"] == "str":
            out.append(f'{c["name"]}: str = constant_str(value="x")')
        else:
            out.append(f'{c["name"]}: Set[str] = constant_set(values=["x", "y"])')
        out.append("")
    out.append("")
    out.append('__version__ = "dummy"')
    out.append('__xml_namespace__ = "https://dummy.com"')
    return "\n".join(out) + "\n"


def prop_pair(p: Any) -> Tuple[str, str]:
    if isinstance(p, str):
        return p, "int"
    return p[0], p[1]


def anno(ty: str) -> str:
    return "int" if ty == "int" else f'"{ty}"'


def _inherited_props(mm: Dict[str, Any], t: Dict[str, Any]) -> List[str]:
    return [p for p, _ in _inherited_pairs(mm, t)]


def own_props(t: Dict[str, Any]) -> List[str]:
    return [prop_pair(p)[0] for p in t["props"]]


def _inherited_pairs(mm: Dict[str, Any], t: Dict[str, Any]) -> List[Tuple[str, str]]:
    res: List[Tuple[str, str]] = []
    chain = []
    cur = t.get("parent")
    seen = set()
    by_name = {x["name"]: x for x in mm["types"] if x["kind"] == "class"}
    while cur is not None and cur in by_name and cur not in seen:
        seen.add(cur)
        chain.append(by_name[cur])
        cur = by_name[cur].get("parent")
    for anc in reversed(chain):
        res.extend(prop_pair(p) for p in anc["props"])
    return res


def all_props(mm: Dict[str, Any], t: Dict[str, Any]) -> List[str]:
    return _inherited_props(mm, t) + own_props(t)


def all_methods(mm: Dict[str, Any], t: Dict[str, Any]) -> List[str]:
    res: List[str] = []
    chain = []
    cur = t.get("parent")
    by_name = {x["name"]: x for x in mm["types"] if x["kind"] == "class"}
    seen = set()
    while cur is not None and cur in by_name and cur not in seen:
        seen.add(cur)
        chain.append(by_name[cur])
        cur = by_name[cur].get("parent")
    for anc in reversed(chain):
        res.extend(anc.get("methods", []))
    return res + list(t.get("methods", []))


def strip_methods(mm: Dict[str, Any]) -> Dict[str, Any]:
    res = dict(mm)
    res["types"] = [dict(t, methods=[]) if t["kind"] == "class" else t for t in mm["types"]]
    return res


# --------------------------------------------------------------------------- running the real code


def snippet_dirs(repo: pathlib.Path, scratch: pathlib.Path) -> Dict[str, pathlib.Path]:
    """Per-target snippet directory, copied from dev/test_data/main/<target>/expected/<small case>."""
    res: Dict[str, pathlib.Path] = {}
    for target in TARGETS:
        dst = scratch / "snippets" / target
        if not dst.exists():
            dst.mkdir(parents=True)
            base = repo / "dev" / "test_data" / "main" / target / "expected"
            src = base / "enum" / "input" / "snippets"
            if src.is_dir():
                for p in src.iterdir():
                    if p.is_file():
                        shutil.copy(p, dst / p.name)
            else:
                # java has only the big case; the model-independent snippet is package.txt
                src = base / "aas_core_meta.v3" / "input" / "snippets"
                for p in src.iterdir():
                    if p.is_file():
                        shutil.copy(p, dst / p.name)
        res[target] = dst
    return res


@contextlib.contextmanager
def temp_redirect(scratch: pathlib.Path) -> Iterator[None]:
    """main.execute may write a model cache under tempfile.gettempdir(): keep it in our scratch."""
    saved = tempfile.tempdir
    d = scratch / "tmp"
    d.mkdir(exist_ok=True)
    tempfile.tempdir = str(d)
    try:
        yield
    finally:
        tempfile.tempdir = saved


def load_symbol_table(source: str, scratch: pathlib.Path) -> Tuple[Optional[Any], str]:
    """In-process front end: (symbol_table | None, 'ok' | 'rejected:<stage>' | 'crash:<Type>')."""
    import aas_core_codegen.parse as parse
    from aas_core_codegen import intermediate

    try:
        atok, perr = parse.source_to_atok(source=source)
        if perr is not None:
            return None, "rejected:syntax"
        assert atok is not None
        import_errors = parse.check_expected_imports(atok=atok)
        if import_errors:
            return None, "rejected:imports"
        parsed, err = parse.atok_to_symbol_table(atok=atok)
        if err is not None:
            return None, "rejected:parse"
        assert parsed is not None
        st, ierr = intermediate.translate(parsed_symbol_table=parsed, atok=atok)
        if ierr is not None:
            return None, "rejected:intermediate"
        return st, "ok"
    except BaseException as e:  # noqa
        return None, f"crash:{type(e).__name__}"


def run_target(
    repo: pathlib.Path, scratch: pathlib.Path, source: str, target: str, tag: str = "m"
) -> Tuple[Any, str, pathlib.Path]:
    """Runs main.execute for one target. Returns (rc | 'crash:<Type>', stderr, output dir)."""
    import aas_core_codegen.main as main

    model_dir = scratch / "models"
    model_dir.mkdir(exist_ok=True)
    model_path = model_dir / f"{tag}.py"
    if not model_path.exists() or model_path.read_text(encoding="utf-8") != source:
        model_path.write_text(source, encoding="utf-8")
    out = scratch / "out" / tag / target
    if out.exists():
        shutil.rmtree(out)
    out.mkdir(parents=True)
    snippets = snippet_dirs(repo, scratch)[target]
    stdout, stderr = io.StringIO(), io.StringIO()
    with temp_redirect(scratch):
        try:
            params = main.Parameters(
                model_path=model_path,
                target=main.Target(target),
                snippets_dir=snippets,
                output_dir=out,
                cache_model=False,
            )
            rc: Any = main.execute(params=params, stdout=stdout, stderr=stderr)
        except BaseException as e:  # noqa
            rc = f"crash:{type(e).__name__}"
    return rc, stderr.getvalue(), out
