"""C08 — generated Python verification implements the invariants exactly.

Streams
-------
* ``sdk``    end to end: random meta-models (``harness.mm``) -> generated Python SDK imported in-process ->
             ``verification.verify(instance)`` compared with ``Sdk.verify`` of the Lean driver on the same instance
             (the model's input is what the generator reads: the intermediate symbol table) and judged by the
             direct oracle (the ORIGINAL invariant lambdas evaluated by CPython through ``mm.check_invariants``).
* ``expr``   expressions: the Lean ``Expr.eval`` against CPython ``eval`` of the source text on boundary values.
* ``emit``   transpiler output (real ``python.transpilation``) parsed by CPython ``ast.parse`` against the model's
             ``PyEmit.transpile`` (+ the model's own print/parse round trip).
* ``rules``  ``parse._rules.ast_node_to_our_node`` against ``PyRules.ofPy`` on CPython ``ast`` trees.
"""
from __future__ import annotations

import ast
import contextlib
import enum as _enum
import json
import math
import re
import signal
from typing import Any, Dict, Iterator, List, Optional, Sequence, Tuple

from harness import expr_wire, mm
from harness.core import Ctx, corpus, crash_name, dec_text, enc_text

ID = "C08"
GEN: List[str] = []

# --------------------------------------------------------------------------- wire: values


def _enc_bytes(b: bytes) -> str:
    return "-" if len(b) == 0 else ".".join(format(x, "x") for x in b)


class Wire:
    """Encoder of SDK values / the world of one generated SDK (tokens of Drive/C08.lean)."""

    def __init__(self, sdk: Any) -> None:
        from aas_core_codegen import intermediate
        from aas_core_codegen.python import naming

        self.sdk = sdk
        self.st = sdk.symbol_table
        self.I = intermediate
        self.naming = naming
        self.cls_by_py: Dict[str, Any] = {}
        for c in self.st.classes:
            self.cls_by_py[str(naming.class_name(c.name))] = c
        self.enum_by_py: Dict[str, Any] = {}
        for t in self.st.our_types:
            if isinstance(t, intermediate.Enumeration):
                self.enum_by_py[str(naming.enum_name(t.name))] = t
        self.oids: Dict[int, int] = {}

    # ---- values
    def val(self, v: Any, out: List[str]) -> None:
        if v is None:
            out.append("N")
        elif isinstance(v, bool):
            out.append("b1" if v else "b0")
        elif isinstance(v, int):
            out.extend(["i", str(v)])
        elif isinstance(v, float):
            out.extend(["f", enc_text(repr(v))])
        elif isinstance(v, str):
            out.extend(["s", enc_text(v)])
        elif isinstance(v, (bytes, bytearray)):
            out.extend(["y", _enc_bytes(bytes(v))])
        elif isinstance(v, (list, tuple)):
            out.extend(["L", str(len(v))])
            for x in v:
                self.val(x, out)
        elif isinstance(v, (set, frozenset)):
            items = sorted(v, key=repr)
            out.extend(["S", str(len(items))])
            for x in items:
                self.val(x, out)
        elif isinstance(v, _enum.Enum):
            e = self.enum_by_py[type(v).__name__]
            lit = next(l for l in e.literals if str(self.naming.enum_literal_name(l.name)) == v.name)
            out.extend(["e", enc_text(str(e.name)), enc_text(str(lit.name))])
        else:
            c = self.cls_by_py[type(v).__name__]
            oid = self.oids.setdefault(id(v), len(self.oids) + 1)
            out.extend(["I", str(oid), enc_text(str(c.name)), str(len(c.properties))])
            for p in c.properties:
                out.append(enc_text(str(p.name)))
                self.val(getattr(v, str(self.naming.property_name(p.name))), out)

    def instance(self, obj: Any) -> str:
        self.oids = {}
        out: List[str] = []
        self.val(obj, out)
        return ",".join(out)

    # ---- world
    def ty(self, t: Any, out: List[str]) -> None:
        I = self.I
        if isinstance(t, I.PrimitiveTypeAnnotation):
            out.append("p")
        elif isinstance(t, I.OurTypeAnnotation):
            if isinstance(t.our_type, I.Enumeration):
                out.append("e")
            elif isinstance(t.our_type, I.ConstrainedPrimitive):
                out.extend(["c", enc_text(str(t.our_type.name))])
            else:
                out.append("k")
        elif isinstance(t, I.ListTypeAnnotation):
            out.append("l")
            self.ty(t.items, out)
        else:
            raise ValueError(f"type {t}")

    def invs(self, invariants: Sequence[Any], out: List[str]) -> None:
        out.append(str(len(invariants)))
        for inv in invariants:
            out.append(enc_text(inv.description))
            out.append(expr_wire.enc(mm.expr_from_project_tree(inv.body)))

    def world(self, tables: Dict[str, Dict[str, bool]], extra_vars: Sequence[Tuple[str, List[str]]] = ()) -> str:
        I = self.I
        st = self.st
        out: List[str] = []
        # variables: constants, constant sets, enumeration classes
        vars_: List[Tuple[str, List[str]]] = list(extra_vars)
        for c in st.constants:
            toks: List[str] = []
            if isinstance(c, I.ConstantPrimitive):
                self.val(c.value, toks)
            elif isinstance(c, I.ConstantSetOfPrimitives):
                toks.extend(["S", str(len(c.literals))])
                for lit in c.literals:
                    self.val(lit.value, toks)
            elif isinstance(c, I.ConstantSetOfEnumerationLiterals):
                toks.extend(["S", str(len(c.literals))])
                for lit in c.literals:
                    toks.extend(["e", enc_text(str(c.enumeration.name)), enc_text(str(lit.name))])
            else:
                raise ValueError(f"constant {c}")
            vars_.append((str(c.name), toks))
        for t in st.our_types:
            if isinstance(t, I.Enumeration):
                vars_.append((str(t.name), ["E", enc_text(str(t.name)), str(len(t.literals))] + [enc_text(str(l.name)) for l in t.literals]))
        out.append(str(len(vars_)))
        for n, toks in vars_:
            out.append(enc_text(n))
            out.extend(toks)
        # functions
        fns: List[List[str]] = []
        for f in st.verification_functions:
            if isinstance(f, I.PatternVerification) or isinstance(f, I.ImplementationSpecificVerification):
                tab = tables.get(str(f.name), {})
                toks = ["o", enc_text(str(f.name)), str(len(tab))]
                for s, b in tab.items():
                    toks.extend([enc_text(s), "1" if b else "0"])
                fns.append(toks)
            elif isinstance(f, I.TranspilableVerification):
                toks = ["t", enc_text(str(f.name)), str(len(f.arguments))] + [enc_text(str(a.name)) for a in f.arguments]
                toks.append(str(len(f.parsed.body)))
                for stmt in f.parsed.body:
                    s = mm.expr_from_project_tree(stmt)
                    if isinstance(s, mm.Assign):
                        toks.extend(["a", enc_text(s.target), expr_wire.enc(s.value)])
                    elif s.value is None:
                        toks.append("R")
                    else:
                        toks.extend(["r", expr_wire.enc(s.value)])
                fns.append(toks)
        out.append(str(len(fns)))
        for toks in fns:
            out.extend(toks)
        # classes / constrained primitives
        out.append(str(len(st.concrete_classes)))
        for c in st.concrete_classes:
            out.append(enc_text(str(c.name)))
            self.invs(c.invariants, out)
            out.append(str(len(c.properties)))
            for p in c.properties:
                t = p.type_annotation
                opt = isinstance(t, I.OptionalTypeAnnotation)
                out.extend([enc_text(str(p.name)), "1" if opt else "0"])
                self.ty(t.value if opt else t, out)
        cps = [t for t in st.our_types if isinstance(t, I.ConstrainedPrimitive)]
        out.append(str(len(cps)))
        for cp in cps:
            out.append(enc_text(str(cp.name)))
            self.invs(cp.invariants, out)
        return ",".join(out)


# --------------------------------------------------------------------------- outcomes

_EXC = {"TypeError": "typeError", "AttributeError": "noneDeref", "IndexError": "indexError"}


def exc_kind(e: Any) -> str:
    name = e.__name__ if isinstance(e, type) else type(e).__name__
    return _EXC.get(name, "otherError")


def run_verify(sdk: Any, instance: Any) -> Tuple[List[Tuple[str, str]], Optional[str], List[Any]]:
    """The real generated verification: (errors yielded, exception kind or None, raw error objects)."""
    errs: List[Tuple[str, str]] = []
    raw: List[Any] = []
    try:
        for e in sdk.verification.verify(instance):
            errs.append((e.cause, str(e.path)))
            raw.append(e)
    except BaseException as x:  # noqa: B902
        if isinstance(x, KeyboardInterrupt):
            raise
        return errs, exc_kind(x), raw
    return errs, None, raw


def dec_model_verify(ans: str) -> Any:
    if ans == "bad-op":
        return "bad-op"
    toks = ans.split(" ")
    errs: List[Tuple[str, str]] = []
    i = 0
    while toks[i] == "E":
        d = dec_text(toks[i + 1])
        p = toks[i + 2]
        path = ""
        if p != "-":
            for seg in p.split("/"):
                path += "." + _py_prop(dec_text(seg[1:])) if seg[0] == "p" else f"[{seg[1:]}]"
        errs.append((d, path))
        i += 3
    if toks[i] == "ok":
        return errs, None
    out = toks[i + 1]
    return errs, (out if not out.startswith("v:") else "value")


def _py_prop(name: str) -> str:
    from aas_core_codegen.common import Identifier
    from aas_core_codegen.python import naming

    return str(naming.property_name(Identifier(name)))


def oracle_path(path: Sequence[Any]) -> str:
    """The oracle's path (meta-model property names / indices) in the notation of ``str(error.path)``; the Python
    name of a property is re-stated here (lower snake case), independent of the project's naming module."""
    return "".join(f"[{p}]" if isinstance(p, int) else "." + "_".join(x.lower() for x in p.split("_")) for p in path)


def resolve_path(error: Any, root: Any) -> Tuple[bool, Any]:
    """Follow the segments of a reported error from the root: every segment must hang on the value reached so far."""
    cur = root
    for seg in error.path.segments:
        if hasattr(seg, "name"):
            if seg.instance is not cur:
                return False, None
            cur = getattr(cur, seg.name)
        else:
            if seg.sequence is not cur:
                return False, None
            cur = cur[seg.index]
    return True, cur


# --------------------------------------------------------------------------- the direct oracle


def judge_instance(m: Any, sdk: Any, instance: Any, errs: List[Tuple[str, str]], raised: Optional[str], raw: List[Any],
                   checked: List[Any]) -> List[Tuple[str, str]]:
    """The statement of C08 on one (model, instance): returns [(sig, what)]."""
    bad: List[Tuple[str, str]] = []
    falsified = [(c.description, oracle_path(c.path)) for c in checked if not mm.is_exception(c.result) and not c.result]
    raising = [c for c in checked if mm.is_exception(c.result)]
    if not raising:
        if raised is not None:
            bad.append(("C08:raises-without-cause", f"verification raised {raised} although no invariant raises when evaluated as Python"))
        else:
            want = sorted(falsified)
            got = sorted(errs)
            if want != got:
                missing = [x for x in want if x not in got]
                extra = [x for x in got if x not in want]
                if missing:
                    bad.append(("C08:missing-error", f"falsified invariant not reported: {missing[0]}"))
                if extra:
                    known = {c.description for c in checked}
                    if extra[0][0] not in known:
                        bad.append(("C08:description", f"reported description is not an invariant description verbatim: {extra[0]}"))
                    elif extra[0][0] in {d for d, _ in want}:
                        bad.append(("C08:path", f"error reported at the wrong path: {extra[0]}"))
                    else:
                        bad.append(("C08:spurious-error", f"error reported for an invariant that holds: {extra[0]}"))
                if not missing and not extra:
                    bad.append(("C08:multiplicity", "an error is reported a different number of times than it is falsified"))
    else:
        kinds = {exc_kind(c.result) for c in raising}
        if raised is None:
            bad.append(("C08:swallowed-exception", f"evaluating {raising[0].description!r} as Python raises {raising[0].result.__name__} but verification finished"))
        elif raised not in kinds:
            bad.append(("C08:other-exception", f"verification raised {raised}, the source raises {sorted(kinds)}"))
        rest = list(falsified)
        for e in errs:
            if e in rest:
                rest.remove(e)
            else:
                bad.append(("C08:spurious-error", f"error reported for an invariant that holds (before the exception): {e}"))
                break
    # paths resolve to the offending value
    for e in raw:
        ok, _ = resolve_path(e, instance)
        if not ok:
            bad.append(("C08:path-resolve", f"path {e.path} of {e.cause!r} does not resolve from the instance"))
            break
    return bad


def record_pattern_calls(m: Any, env: Any) -> Dict[str, Dict[str, bool]]:
    """Wrap the oracle's pattern functions so that the strings they are asked about are recorded."""
    tables: Dict[str, Dict[str, bool]] = {}
    for f in m.verification_functions:
        if isinstance(f, mm.PatternFn):
            tab: Dict[str, bool] = {}
            tables[f.name] = tab
            inner = env.scope[f.name]
            if getattr(inner, "_c08_wrapped", False):
                inner = inner._c08_inner  # type: ignore[attr-defined]

            def wrapped(text: Any, _inner: Any = inner, _tab: Dict[str, bool] = tab) -> Any:
                r = _inner(text)
                if isinstance(text, str):
                    _tab[text] = bool(r)
                return r

            wrapped._c08_wrapped = True  # type: ignore[attr-defined]
            wrapped._c08_inner = inner  # type: ignore[attr-defined]
            env.scope[f.name] = wrapped
    return tables


# --------------------------------------------------------------------------- stream: sdk


def model_features(ctx: Ctx, k: int) -> Any:
    ft = mm.Features()
    if k % 4 == 1:
        ft.joined_str_in_invariants = True
    if k % 4 == 2:
        ft.lists_of_non_classes = True
        ft.len_of_constrained = True
    if k % 4 == 3:
        ft.guards_on_other_property = True
        ft.len_of_bytes = True
        ft.local_variables_in_functions = True
    return ft


def check_model(ctx: Ctx, m: Any, stream: str, n_instances: int, with_model: bool, label: Any) -> None:
    src = mm.render(m)
    sdk = mm.load_python_sdk(src, ctx.scratch() / f"sdk{ctx.evaluations}")
    try:
        if not sdk.ok:
            ctx.hit("model:not-generated")
            ctx.note(f"{stream} {label}: {str(sdk.error)[:200]}")
            return
        ctx.hit("model:generated")
        wire = Wire(sdk)
        env = mm.invariant_env(m)
        tables = record_pattern_calls(m, env)
        concrete = [c.name for c in m.classes if not c.abstract and not getattr(c, "impl_specific", False)]
        if not concrete:
            return
        cases: List[Tuple[Any, Any, Any, Any, Any, str]] = []
        for i in range(n_instances):
            cname = concrete[i % len(concrete)]
            sat = [None, True, False][i % 3]
            try:
                built = mm.random_instance(sdk, m, cname, ctx.rng, satisfy_invariants=sat, special_floats=(i % 7 == 6))
            except mm.Impossible:
                ctx.hit("instance:impossible")
                continue
            inst = built.instance
            checked = mm.check_invariants(m, sdk, inst, env)
            errs, raised, raw = run_verify(sdk, inst)
            cases.append((inst, checked, errs, raised, raw, cname))
        if with_model and cases:
            world = wire.world(tables)
            lines = [f"verify {world} {wire.instance(c[0])}" for c in cases]
            answers = ctx.model(lines)
        for k, (inst, checked, errs, raised, raw, cname) in enumerate(cases):
            ctx.count((src, k, repr(errs)), nontrivial=len(checked) > 0, stream=stream)
            ctx.hit("verify:raises" if raised else ("verify:errors" if errs else "verify:clean"))
            if any(p for _, p in errs):
                ctx.hit("verify:nested-path")
            if any("[" in p for _, p in errs):
                ctx.hit("verify:index-path")
            inp = {"model": src, "class": cname, "instance": _show_instance(sdk, inst), "label": label}
            if with_model:
                got = dec_model_verify(answers[k])
                if got != (errs, raised):
                    ctx.disagree(stream, inp, {"errors": errs, "raised": raised}, got if got == "bad-op" else {"errors": got[0], "raised": got[1]})
                ctx.traces_validated += 1
            for sig, what in judge_instance(m, sdk, inst, errs, raised, raw, checked):
                ctx.fail(inp, what, sig)
            if k == 0 and errs:
                ctx.sample({"class": cname, "errors": errs[:3]})
        judge_functions(ctx, m, sdk, src)
    finally:
        sdk.close()


def _show_instance(sdk: Any, inst: Any) -> Any:
    try:
        return sdk.to_jsonable(inst)
    except BaseException as e:  # noqa: B902
        return f"<not jsonable: {type(e).__name__}>"


STR_ARGS = ["", "a", "abc", "A-1", "Some value", "x y", "value_2", "0", "a\nb", "ä", "\U0001F600", "{x}", "ab" * 20]


def judge_functions(ctx: Ctx, m: Any, sdk: Any, src: str) -> None:
    """Pattern and transpilable verification functions give the same result as the original Python functions."""
    from aas_core_codegen.common import Identifier
    from aas_core_codegen.python import naming

    env = mm.invariant_env(m)
    for f in m.verification_functions:
        gen = getattr(sdk.verification, str(naming.function_name(Identifier(f.name))), None)
        if gen is None:
            ctx.fail({"model": src, "function": f.name}, f"verification function {f.name} is missing in the generated module", "C08:function-missing")
            continue
        if isinstance(f, mm.PatternFn):
            args: List[Any] = list(STR_ARGS)
            for _ in range(6):
                s = mm.sample_match(f.pattern, ctx.rng)
                if s is not None:
                    args.extend([s, s + "x", s[:-1], s + "\n"])
            for a in args:
                try:
                    with time_limit(1.0):
                        want = re.match(f.pattern, a) is not None
                except _Timeout:
                    ctx.hit("patternfn:timeout")
                    continue
                got = _call(gen, a)
                ctx.hit("patternfn:match" if want else "patternfn:nomatch")
                if got != want:
                    ctx.fail({"model": src, "function": f.name, "pattern": f.pattern, "arg": a}, f"generated {f.name}({a!r}) = {got!r}, re.match of the original pattern gives {want}", "C08:pattern-function")
        elif isinstance(f, mm.TranspilableFn):
            orig = env.scope[f.name]
            t = f.args[0].type if f.args else None
            prim = getattr(t, "name", None)
            pool: List[Any] = {"int": [0, 1, -1, 7, 50, 100, 101, 2**31], "float": [0.0, 0.5, 1.5, -1.5, 100.0, 1e22, math.inf],
                               "str": STR_ARGS, "bool": [True, False]}.get(prim, [])
            for a in pool:
                want = _call(orig, a)
                got = _call(gen, a)
                ctx.hit("transpilablefn")
                if got != want or type(got) is not type(want):
                    ctx.fail({"model": src, "function": f.name, "arg": a}, f"generated {f.name}({a!r}) = {got!r}, the original function gives {want!r}", "C08:transpilable-function")


class _Timeout(Exception):
    pass


@contextlib.contextmanager
def time_limit(seconds: float) -> Iterator[None]:
    """Bound a regex match (``sre`` polls signals): raises ``_Timeout``."""

    def on_alarm(signum: Any, frame: Any) -> None:
        raise _Timeout()

    old = signal.signal(signal.SIGALRM, on_alarm)
    signal.setitimer(signal.ITIMER_REAL, seconds)
    try:
        yield
    finally:
        signal.setitimer(signal.ITIMER_REAL, 0)
        signal.signal(signal.SIGALRM, old)


def _call(fn: Any, *a: Any) -> Any:
    try:
        return fn(*a)
    except BaseException as e:  # noqa: B902
        if isinstance(e, KeyboardInterrupt):
            raise
        return "raise:" + exc_kind(e)


def stream_sdk(ctx: Ctx, with_model: bool) -> None:
    for c in corpus(ID):
        if c.get("kind") == "model":
            replay_model(ctx, c, with_model)
    n_models = ctx.n(40, 600)
    n_inst = 30
    for k in range(n_models):
        size = 2 + k % 4
        m = mm.random_mm(ctx.rng, size=size, features=model_features(ctx, k))
        check_model(ctx, m, "sdk", n_inst, with_model, {"k": k, "seed": ctx.seed})


def replay_model(ctx: Ctx, c: Dict[str, Any], with_model: bool) -> None:
    pass


# --------------------------------------------------------------------------- entry points


def correspond(ctx: Ctx) -> None:
    ctx.extra_cov["rule"] = (
        "sdk stream: random meta-models (harness.mm, sizes 2..5, hazard features rotated) x 30 instances per model "
        "(unconstrained / satisfying / violating the invariants in turn, special floats every 7th); non-trivial = at "
        "least one invariant applies to the instance; distinct by (model text, instance index, reported errors)"
    )
    stream_sdk(ctx, True)


def oracle(ctx: Ctx) -> None:
    if not ctx.driver_ok or ctx.searching:
        stream_sdk(ctx, False)


def replay(ctx: Ctx, data: Dict[str, Any]) -> Any:
    return {"todo": True}
