"""C23 — model caching is opt-in and transparent.

correspond: flag plumbing (model of the four extracted expressions vs the real argparse → Parameters →
            execute → load_model chain) and sequential run histories with edits on the real ``load_model``
            vs ``Cache.run``.
oracle:     written from the property text, independent of the Lean model:
            (a) the flag reaches load_model unchanged (CLI and API);
            (b) audit hook (`open`, `os.*`) + temp-dir listing: without the flag nothing outside the output
                directory is written and nothing in the temp directory is touched; with the flag writes go
                to the output directory and the cache directory only;
            (c) uncached / cached-cold / cached-warm / edited-then-cached runs give identical rc, stdout,
                stderr and output trees for all eight targets;
            (d) an unpickled symbol table answers the derived id-set queries like the original;
            (d') the symbol table that a WARM cache returns (real load_model: uncached / cold / warm in a redirected
                temp directory) answers EVERY id-set / by-name backed query of every class — abstract ones in
                hierarchies of depth >= 3 with abstract middles included — like the uncached one (the query dump of
                the C05 check, harness/props/c05.py, is reused), and the generators that consult these queries
                (type inference of co-variant assignments in verification functions, is_subclass_of, …) give the
                same rc / stdout / stderr / output tree from a warm cache.
"""
from __future__ import annotations

import hashlib
import io
import json
import os
import pathlib
import pickle
import shutil
import subprocess
import sys
import tempfile
from typing import Any, Dict, List, Optional, Tuple

from harness import cache_common as cc
from harness.cache_gen import gen_Cache  # noqa: F401  (GEN)
from harness.core import REPO, Ctx, corpus

ID = "C23"
GEN = ["Cache"]
TARGETS = ["cpp", "csharp", "golang", "java", "jsonschema", "python", "typescript", "xsd"]

ASSUMPTIONS = [
    "sha256 is treated as injective on model texts (Cfg.hash injective in the theorems)",
    "Path.exists() is not an audit event: reads of the cache by `exists` are observed by the pathlib wrappers of the rig only",
    "pickle round trip of the symbol table is validated (eight targets byte-identical + id-set walk), not verified",
]

# --------------------------------------------------------------------------- audit hook (installed once)

_AUDIT: Dict[str, Any] = {"on": False, "events": []}
_HOOKED = False
_WRITE_EVENTS = {
    "os.mkdir", "os.rename", "os.remove", "os.rmdir", "os.truncate", "os.chmod", "os.chown", "os.symlink", "os.link",
    "os.utime", "shutil.rmtree", "shutil.move", "shutil.copyfile", "shutil.copytree", "tempfile.mkstemp", "tempfile.mkdtemp",
}


def _hook(event: str, args: Tuple[Any, ...]) -> None:
    if not _AUDIT["on"]:
        return
    try:
        if event == "open":
            path, mode, flags = args[0], args[1], args[2]
            if isinstance(path, int):
                return
            wr = bool(flags & (os.O_WRONLY | os.O_RDWR | os.O_CREAT | os.O_TRUNC | os.O_APPEND)) if isinstance(flags, int) else False
            if isinstance(mode, str) and any(c in mode for c in "wax+"):
                wr = True
            _AUDIT["events"].append(("write" if wr else "read", os.fspath(path)))
        elif event in _WRITE_EVENTS:
            for a in args:
                if isinstance(a, (str, bytes, os.PathLike)):
                    _AUDIT["events"].append(("write", os.fspath(a)))
        elif event in ("os.listdir", "os.scandir"):
            if args and isinstance(args[0], (str, bytes, os.PathLike)):
                _AUDIT["events"].append(("read", os.fspath(args[0])))
    except Exception:  # noqa
        pass


def _install_hook() -> None:
    global _HOOKED
    if not _HOOKED:
        sys.addaudithook(_hook)
        _HOOKED = True


def _within(path: Any, root: pathlib.Path) -> bool:
    if isinstance(path, bytes):
        path = path.decode(errors="replace")
    try:
        pathlib.Path(os.path.abspath(path)).relative_to(os.path.abspath(root))
        return True
    except ValueError:
        return False


# --------------------------------------------------------------------------- fixtures


def case_dirs(target: str) -> List[pathlib.Path]:
    d = REPO / "dev" / "test_data" / "main" / target / "expected"
    return sorted(p for p in d.iterdir() if p.is_dir())


def fixture(target: str, case: str) -> Optional[Tuple[pathlib.Path, pathlib.Path]]:
    """(model path, snippets dir) for a target and a common meta-model name."""
    model = REPO / "dev" / "test_data" / "common_meta_models" / f"{case}.py"
    cdir = REPO / "dev" / "test_data" / "main" / target / "expected" / case
    if (cdir / "meta_model.py").exists():
        model = cdir / "meta_model.py"
    snippets = cdir / "input" / "snippets"
    if not snippets.is_dir():
        # the java test data only have the real model; its package snippet serves the small models as well
        alt = REPO / "dev" / "test_data" / "main" / target / "expected" / "aas_core_meta.v3" / "input" / "snippets"
        if not alt.is_dir():
            return None
        snippets = alt
    if not model.exists():
        return None
    return model, snippets


def tree_of(d: pathlib.Path) -> Dict[str, str]:
    out = {}
    for p in sorted(d.rglob("*")):
        if p.is_file():
            out[str(p.relative_to(d))] = hashlib.sha256(p.read_bytes()).hexdigest()
    return out


def execute_audited(target: str, model_path: pathlib.Path, snippets: pathlib.Path, out_dir: pathlib.Path, flag: Optional[bool],
                    tmpdir: pathlib.Path) -> Dict[str, Any]:
    """One real in-process ``main.execute`` with TMPDIR redirected and the audit hook on."""
    import aas_core_codegen.main as m

    _install_hook()
    tmpdir.mkdir(parents=True, exist_ok=True)
    saved_env = os.environ.get("TMPDIR")
    saved_td = tempfile.tempdir
    os.environ["TMPDIR"] = str(tmpdir)
    tempfile.tempdir = None  # the next gettempdir() of the code under test probes TMPDIR like a fresh process
    stdout, stderr = io.StringIO(), io.StringIO()
    _AUDIT["events"] = []
    try:
        kw = {} if flag is None else {"cache_model": flag}
        params = m.Parameters(model_path=model_path, target=m.Target(target), snippets_dir=snippets, output_dir=out_dir, **kw)
        _AUDIT["on"] = True
        try:
            rc: Any = m.execute(params=params, stdout=stdout, stderr=stderr)
        except BaseException as e:  # noqa
            rc = f"crash:{type(e).__name__}"
        finally:
            _AUDIT["on"] = False
    finally:
        tempfile.tempdir = saved_td
        if saved_env is None:
            os.environ.pop("TMPDIR", None)
        else:
            os.environ["TMPDIR"] = saved_env
    events = list(_AUDIT["events"])
    return {
        "rc": rc,
        "stdout": stdout.getvalue().replace(str(out_dir), "<out>"),
        "stderr": stderr.getvalue().replace(str(out_dir), "<out>").replace(str(model_path), "<model>"),
        "tree": tree_of(out_dir) if out_dir.exists() else {},
        "events": events,
    }


def judge_events(res: Dict[str, Any], flag: bool, out_dir: pathlib.Path, tmpdir: pathlib.Path, expect_empty: bool = True) -> List[Tuple[str, str]]:
    bad: List[Tuple[str, str]] = []
    for kind, path in res["events"]:
        if isinstance(path, bytes):
            path = path.decode(errors="replace")
        if path in ("/dev/null",):
            continue
        in_out = _within(path, out_dir)
        in_tmp = _within(path, tmpdir)
        if not flag and in_tmp:
            bad.append(("touches-temp-dir-without-flag", f"without cache_model the run did {kind} {os.path.relpath(path, tmpdir.parent)}"))
        elif kind == "write" and not in_out and not (flag and in_tmp):
            bad.append(("writes-outside-output-dir", f"the run wrote {path} (outside the output directory{' and the cache directory' if flag else ''})"))
    listing = sorted(p.name for p in tmpdir.iterdir())
    if not flag and listing and expect_empty:
        bad.append(("temp-dir-not-empty-without-flag", f"without cache_model the temp directory holds {listing[:3]}"))
    if flag:
        stray = [n for n in listing if not n.startswith("aas-core-codegen-")]
        if stray:
            bad.append(("stray-in-temp-dir", f"with cache_model the temp directory holds {stray[:3]} beside the cache directory"))
    return bad


# --------------------------------------------------------------------------- (a) plumbing on the real code


def real_plumb_cli(b: bool, scratch: pathlib.Path) -> Any:
    """Value of cache_model that run.load_model receives when main.main runs with / without --cache_model."""
    import aas_core_codegen.main as m
    import aas_core_codegen.run as run

    fx = fixture("python", "enum")
    assert fx is not None
    out = scratch / f"plumb-{int(b)}"
    out.mkdir(parents=True, exist_ok=True)
    seen: List[Any] = []
    orig = run.load_model

    def spy(*a: Any, **kw: Any) -> Any:
        seen.append(kw.get("cache_model", a[1] if len(a) > 1 else "default"))
        return orig(a[0] if a else kw["model_path"], cache_model=False)

    argv = ["prog", "--model_path", str(fx[0]), "--snippets_dir", str(fx[1]), "--output_dir", str(out), "--target", "python"]
    if b:
        argv.append("--cache_model")
    saved_argv, saved_out, saved_err = sys.argv, sys.stdout, sys.stderr
    run.load_model = spy  # type: ignore
    sys.argv, sys.stdout, sys.stderr = argv, io.StringIO(), io.StringIO()
    try:
        try:
            m.main("prog")
        except BaseException as e:  # noqa
            return f"crash:{type(e).__name__}"
    finally:
        run.load_model = orig  # type: ignore
        sys.argv, sys.stdout, sys.stderr = saved_argv, saved_out, saved_err
    return seen[0] if len(seen) == 1 else f"calls:{len(seen)}"


def real_plumb_api(b: Optional[bool]) -> Any:
    import aas_core_codegen.main as m

    kw = {} if b is None else {"cache_model": b}
    p = m.Parameters(model_path=pathlib.Path("x"), target=m.Target.PYTHON, snippets_dir=pathlib.Path("s"), output_dir=pathlib.Path("o"), **kw)
    return p.cache_model


def check_plumbing(ctx: Ctx, with_model: bool) -> None:
    scratch = ctx.scratch()
    for b in (False, True):
        got = real_plumb_cli(b, scratch)
        ctx.count(("plumb-cli", b), stream="flag-plumbing")
        ctx.hit(f"plumb-cli={got}")
        if got is not b:
            ctx.fail({"kind": "plumb", "via": "cli", "flag": b}, f"command line {'with' if b else 'without'} --cache_model: load_model received cache_model={got!r}", "C23:flag-not-plumbed:cli")
        if with_model:
            mv = ctx.model([f"plumb {int(b)}"])[0]
            ctx.traces_validated += 1
            if mv != {True: "1", False: "0"}.get(got, str(got)):
                ctx.disagree("flag-plumbing", {"kind": "plumb", "via": "cli", "flag": b}, got, mv)
    for b in (False, True, None):
        got = real_plumb_api(b)
        want = bool(b)
        ctx.count(("plumb-api", b), stream="flag-plumbing")
        if got is not want:
            ctx.fail({"kind": "plumb", "via": "api", "flag": b}, f"Parameters(cache_model={b}).cache_model is {got!r}", "C23:flag-not-plumbed:parameters")
    if with_model:
        mv = ctx.model(["plumbdefault"])[0]
        got = real_plumb_api(None)
        if mv != {True: "1", False: "0"}.get(got, str(got)):
            ctx.disagree("flag-plumbing", {"kind": "plumb", "via": "api", "flag": None}, got, mv)


# --------------------------------------------------------------------------- (b)+(c) histories of real main.execute


def history(ctx: Ctx, target: str, case: str, edit: bool = True) -> None:
    fx = fixture(target, case)
    if fx is None:
        return
    model_src, snippets = fx
    root = ctx.scratch() / f"hist-{target}-{case}-{ctx.evaluations}"
    tmpdir = root / "tmp"
    root.mkdir(parents=True)
    model = root / "meta_model.py"
    text_a = model_src.read_text(encoding="utf-8")
    text_b = text_a + "\n# an edit that does not change the symbol table, only the text\n"
    text_c = text_a.replace('__xml_namespace__ = "', '__xml_namespace__ = "https://edited.example/')
    steps: List[Tuple[str, Optional[bool], str]] = [
        ("uncached-first", False, text_a),
        ("default-flag", None, text_a),
        ("cold", True, text_a),
        ("warm", True, text_a),
        ("uncached-after-warm", False, text_a),
    ]
    if edit:
        steps += [("edited-cold", True, text_c), ("edited-uncached", False, text_c), ("edited-warm", True, text_c), ("back-warm", True, text_a),
                  ("comment-edit-cold", True, text_b), ("invalid-cached", True, "class (\n"), ("invalid-uncached", False, "class (\n")]
    ref: Dict[str, Dict[str, Any]] = {}
    for k, (name, flag, text) in enumerate(steps):
        model.write_text(text, encoding="utf-8")
        out = root / f"out{k}"
        out.mkdir()
        eff = bool(flag)
        # runs without the flag get a fresh temp dir that must stay empty, except the one that runs beside a filled cache
        shared = eff or name == "uncached-after-warm"
        td = tmpdir if shared else root / f"tmp-off-{k}"
        res = execute_audited(target, model, snippets, out, flag, td)
        inp = {"kind": "history", "target": target, "case": case, "steps": [[n, f] for n, f, _ in steps[: k + 1]]}
        ctx.count((target, case, name), stream="history")
        ctx.hit(f"rc={res['rc']}")
        for sig, what in judge_events(res, eff, out, td, expect_empty=not shared):
            ctx.fail(inp, f"{target}/{case} step {name}: {what}", f"C23:{sig}")
        key = hashlib.sha256(text.encode()).hexdigest()
        obs = {x: res[x] for x in ("rc", "stdout", "stderr", "tree")}
        if isinstance(res["rc"], str):
            # a generator that raises also without caching is not C23's business (C02); what counts below is
            # whether the cached run behaves like the uncached one
            ctx.hit(f"execute-{res['rc']}")
            obs = {"rc": res["rc"], "stdout": "", "stderr": "", "tree": {}}
        if key not in ref:
            if eff:
                # the reference for a text is always an uncached run
                (root / f"ref{k}").mkdir()
                r0 = execute_audited(target, model, snippets, root / f"ref{k}", False, root / f"tmp-ref-{k}")
                ref[key] = {x: r0[x] for x in ("rc", "stdout", "stderr", "tree")}
                if isinstance(r0["rc"], str):
                    ref[key] = {"rc": r0["rc"], "stdout": "", "stderr": "", "tree": {}}
            else:
                ref[key] = obs
        if obs != ref[key]:
            diff = [x for x in obs if obs[x] != ref[key][x]]
            detail = ""
            if "tree" in diff:
                files = sorted(set(obs["tree"]) | set(ref[key]["tree"]))
                detail = " files: " + ", ".join(f for f in files if obs["tree"].get(f) != ref[key]["tree"].get(f))[:200]
            ctx.fail(inp, f"{target}/{case} step {name} (cache_model={flag}) differs from the uncached run of the same text in {diff}{detail}", f"C23:not-transparent:{name}:{'+'.join(diff)}")
        if eff and res["rc"] == 0:
            cds = [d for d in td.iterdir() if d.is_dir()] if td.exists() else []
            entries = [p.name for d in cds for p in d.iterdir()]
            want = f"model-{key}.pickle"
            if want not in entries:
                ctx.fail(inp, f"{target}/{case} step {name}: after a cached run the entry keyed by sha256(model text) is missing ({entries[:3]})", "C23:entry-not-keyed-by-text-hash")
            if any(not e.endswith(".pickle") for e in entries):
                ctx.fail(inp, f"{target}/{case} step {name}: stray files after a clean cached run: {entries[:4]}", "C23:stray-after-clean-run")
    shutil.rmtree(root, ignore_errors=True)


# --------------------------------------------------------------------------- (d) unpickled symbol table


def _registry(stbl: Any) -> Dict[int, str]:
    """id(object) -> structural path, for every object an id-set may refer to."""
    reg: Dict[int, str] = {}
    for t in stbl.our_types:
        base = f"{type(t).__name__}:{t.name}"
        reg[id(t)] = base
        for attr in ("properties", "methods", "invariants", "literals"):
            for k, x in enumerate(getattr(t, attr, []) or []):
                reg[id(x)] = f"{base}/{attr}[{k}]"
    return reg


def idset_view(stbl: Any) -> Dict[str, Any]:
    reg = _registry(stbl)
    out: Dict[str, Any] = {}
    for t in stbl.our_types:
        for name, val in sorted(vars(t).items()):
            if name.endswith("_id_set"):
                out[f"{type(t).__name__}:{t.name}.{name}"] = sorted(reg.get(i, "?") for i in val)
    return out


def check_unpickled(ctx: Ctx, case: str) -> None:
    from aas_core_codegen import run

    model = REPO / "dev" / "test_data" / "common_meta_models" / f"{case}.py"
    res = run.load_model(model, cache_model=False)
    if res[1] is not None:
        return
    stbl, atok = res[0]
    clone = pickle.loads(pickle.dumps(run._Cached(symbol_table=stbl, atok=atok)))
    a, b = idset_view(stbl), idset_view(clone.symbol_table)
    ctx.count(("idsets", case), stream="unpickled-idsets")
    ctx.hit(f"idsets={len(a)}")
    inp = {"kind": "idsets", "case": case}
    if a != b:
        keys = [k for k in sorted(set(a) | set(b)) if a.get(k) != b.get(k)]
        ctx.fail(inp, f"{case}: unpickled symbol table answers id-set queries differently: {keys[:4]}", "C23:unpickled-idset-differs:" + keys[0].split(".")[-1])
    if clone.atok.text != atok.text:
        ctx.fail(inp, f"{case}: unpickled atok has another text", "C23:unpickled-atok-differs")
    wa, wb = full_walk(stbl), full_walk(clone.symbol_table)
    if wa != wb and a == b:
        diff = walk_diff(wa, wb)
        ctx.fail(inp, f"{case}: unpickled symbol table answers differently at {diff[:6]}", "C23:unpickled-query-differs:" + (diff[0] if diff else "?").split(".")[-1].split(":")[-1])


# --------------------------------------------------------------------------- (d') warm cache: every id-set backed query
#
# Strengthening after the seeded change C23-1 (`Class.__setstate__` fed `_compute_descendant_id_set` with the CONCRETE
# descendants): the difference only shows (i) on a table that really came out of the cache, (ii) for a class that has an
# ABSTRACT descendant, (iii) through `descendant_id_set` (or what the generators derive from it).  None of the fixtures
# under dev/test_data/common_meta_models has an abstract class beneath another class.


def full_walk(stbl: Any) -> Dict[str, Any]:
    """Every query of a symbol table that is answered from a derived (`*_id_set`, `*_by_name`) attribute, with ids turned
    into structural names: the stacked lists (c05.dump_real), the public id-set/by-name API of every class and interface
    (c05.dump_ext: inheritance/ancestor/descendant/concrete-descendant id sets, is_subclass_of for ALL pairs,
    properties_by_name, methods_by_name, property/method/invariant id sets, interface implementers) and the raw
    attributes of every type, constant and interface."""
    from harness.props import c05

    out: Dict[str, Any] = {}
    for key, fn in (("lists", c05.dump_real), ("queries", c05.dump_ext), ("raw", raw_view)):
        try:
            out[key] = fn(stbl)
        except BaseException as e:  # noqa
            out[key] = f"crash:{type(e).__name__}"
    return out


def raw_view(stbl: Any) -> Dict[str, Any]:
    """`*_id_set` and `*_by_name` attributes of every our type, constant and interface, ids as structural paths."""
    reg = _registry(stbl)
    owners: List[Tuple[str, Any]] = []
    for t in stbl.our_types:
        owners.append((f"{type(t).__name__}:{t.name}", t))
        i = getattr(t, "interface", None)
        if i is not None:
            owners.append((f"Interface:{t.name}", i))
            for k, x in enumerate(getattr(i, "properties", []) or []):
                reg.setdefault(id(x), f"Class:{t.name}/iface-properties[{k}]")
    for c in getattr(stbl, "constants", []) or []:
        owners.append((f"{type(c).__name__}:{c.name}", c))
        for k, x in enumerate(getattr(c, "literals", []) or []):
            reg.setdefault(id(x), f"const:{c.name}/literals[{k}]")
    out: Dict[str, Any] = {}
    for label, o in owners:
        for name, val in sorted(vars(o).items()):
            if name.endswith("_id_set"):
                out[f"{label}.{name}"] = sorted(reg.get(i, "?") for i in val)
            elif name.endswith("_by_name") and isinstance(val, dict):
                out[f"{label}.{name}"] = [f"{k}->{reg.get(id(v), '?')}" for k, v in val.items()]
    return out


def walk_diff(a: Dict[str, Any], b: Dict[str, Any]) -> List[str]:
    """Paths at which two walks differ (class.key), most specific first."""
    out: List[str] = []
    for part in sorted(set(a) | set(b)):
        x, y = a.get(part), b.get(part)
        if x == y:
            continue
        if not isinstance(x, dict) or not isinstance(y, dict):
            out.append(part)
            continue
        if part == "raw":
            out += [f"raw:{k}" for k in sorted(set(x) | set(y)) if x.get(k) != y.get(k)]
            continue
        cx, cy = x.get("classes", {}), y.get("classes", {})
        for n in sorted(set(cx) | set(cy)):
            ex, ey = cx.get(n, {}), cy.get(n, {})
            out += [f"{part}:{n}.{k}" for k in sorted(set(ex) | set(ey)) if ex.get(k) != ey.get(k)]
        out += [f"{part}:{k}" for k in sorted(set(x) | set(y)) if k != "classes" and x.get(k) != y.get(k)]
    return out


def loads_three(text: str, root: pathlib.Path) -> Dict[str, Any]:
    """uncached, cold and warm result of the real load_model on ``text`` (temp directory redirected to ``root``/tmp)."""
    from aas_core_codegen import run

    root.mkdir(parents=True, exist_ok=True)
    model = root / "meta_model.py"
    model.write_text(text, encoding="utf-8")
    td = root / "tmp"
    td.mkdir(exist_ok=True)
    saved = tempfile.tempdir
    tempfile.tempdir = str(td)
    out: Dict[str, Any] = {}
    try:
        for step, flag in (("uncached", False), ("cold", True), ("warm", True)):
            try:
                out[step] = run.load_model(model, cache_model=flag)
            except BaseException as e:  # noqa
                out[step] = f"crash:{type(e).__name__}"
    finally:
        tempfile.tempdir = saved
    entries = sorted(p.name for d in td.iterdir() if d.is_dir() for p in d.iterdir())
    out["entries"] = entries
    return out


_PER_SIG: Dict[str, Tuple[int, int]] = {}


def _fail_few(ctx: Ctx, inp: Dict[str, Any], what: str, sig: str) -> None:
    """ctx.fail, but only a few (and the smallest) inputs per root cause: the runner keeps at most 200 failures."""
    size = len(json.dumps(inp))
    n, smallest = _PER_SIG.get(sig, (0, 1 << 60))
    if n >= 5 and size >= smallest:
        return
    _PER_SIG[sig] = (n + 1, min(size, smallest))
    ctx.fail(inp, what, sig)


def warm_walk(ctx: Ctx, label: str, text: str, stream: str) -> None:
    root = ctx.scratch() / f"walk-{ctx.evaluations}"
    res = loads_three(text, root)
    shutil.rmtree(root, ignore_errors=True)
    inp = {"kind": "warmwalk", "label": label, "text": text}
    ctx.count(("warmwalk", text), stream=stream)
    un = res["uncached"]
    if isinstance(un, str) or un[1] is not None:
        # not an accepted model (or the front end crashes on it also without the cache): all three must agree on that
        ctx.hit("walk=rejected")
        for step in ("cold", "warm"):
            got = res[step]
            same = got == un if isinstance(un, str) or isinstance(got, str) else got[1] == un[1]
            if not same:
                _fail_few(ctx, inp, f"{label}: the {step} cached load of a rejected model does not give the error of the uncached load", f"C23:not-transparent:load:{step}-rejected")
        return
    ref = full_walk(un[0][0])
    depth_abs = _abstract_below_abstract(un[0][0])
    ctx.hit("walk=accepted")
    if depth_abs:
        ctx.hit("walk=abstract-class-with-abstract-descendant")
    if want := f"model-{hashlib.sha256(text.encode()).hexdigest()}.pickle":
        if res["entries"] != [want]:
            _fail_few(ctx, inp, f"{label}: after a cold and a warm load the cache directory holds {res['entries'][:3]}, expected only {want[:22]}…", "C23:entry-not-keyed-by-text-hash")
    for step in ("cold", "warm"):
        got = res[step]
        if isinstance(got, str) or got[1] is not None:
            what = got if isinstance(got, str) else "an error report"
            _fail_few(ctx, inp, f"{label}: the {step} cached load of an accepted model gives {what}", f"C23:not-transparent:load:{step}")
            continue
        if got[0][1].text != un[0][1].text:
            _fail_few(ctx, inp, f"{label}: the {step} cached load returns the source text of another model", "C23:unpickled-atok-differs")
        walk = full_walk(got[0][0])
        if walk != ref:
            diff = walk_diff(ref, walk)
            first = diff[0] if diff else "?"
            key = first.split(".")[-1].split(":")[-1]
            _fail_few(ctx, inp, f"{label}: the symbol table of the {step} cached load answers differently from the uncached one at {diff[:6]}"
                     + _explain_walk(ref, walk, first), f"C23:{step}-table-differs:{key}")


def _explain_walk(ref: Dict[str, Any], got: Dict[str, Any], path: str) -> str:
    try:
        part, rest = path.split(":", 1)
        if part == "raw":
            return f" (uncached {ref['raw'].get(rest)}, cached {got['raw'].get(rest)})"
        n, k = rest.rsplit(".", 1)
        return f" (uncached {ref[part]['classes'][n][k]}, cached {got[part]['classes'][n][k]})"
    except BaseException:  # noqa
        return ""


def _abstract_below_abstract(stbl: Any) -> bool:
    from aas_core_codegen import intermediate

    for c in stbl.classes:
        if any(isinstance(d, intermediate.AbstractClass) for d in c.descendants):
            return True
    return False


# ---- models with deep hierarchies and abstract middles

FAMILIES: Dict[str, List[Tuple[str, List[str], bool]]] = {
    # (name, parents, abstract) in declaration order
    "chain3-abstract-middle": [("Node", [], True), ("Branch", ["Node"], True), ("Leaf", ["Branch"], False)],
    "chain4-abstract-middles": [("Node", [], True), ("Branch", ["Node"], True), ("Twig", ["Branch"], True), ("Leaf", ["Twig"], False), ("Bud", ["Branch"], False)],
    "chain4-concrete-root": [("Node", [], False), ("Branch", ["Node"], True), ("Twig", ["Branch"], False), ("Leaf", ["Twig"], True), ("Bud", ["Leaf"], False)],
    "diamond-abstract-sides": [("Node", [], True), ("Left", ["Node"], True), ("Right", ["Node"], True), ("Leaf", ["Left", "Right"], False), ("Bud", ["Left"], False)],
}


def family_model(spec: List[Tuple[str, List[str], bool]], with_functions: bool = True, cprims: bool = True, max_pairs: int = 12) -> str:
    """A meta-model over the hierarchy ``spec``; with ``with_functions`` also one ``@verification`` function per
    (ancestor, descendant) pair that assigns a descendant to an ancestor-typed variable (type inference consults
    ``descendant_id_set`` at generation time) and a container class whose invariants call them; with ``cprims`` the same
    for a chain of constrained primitives."""
    from harness.props import c05

    names = [n for n, _, _ in spec]
    kids = {n: [m for m, ps, _ in spec if n in ps] for n in names}
    h = c05.canonical_ctors([c05.mk_class(n, ps, abstract=a, props=1, wmt=(True if kids[n] else None)) for n, ps, a in spec])
    body = c05.render(h)
    cut = body.index('__version__ = "dummy"')
    head, tail = body[:cut], body[cut:]
    anc = c05.closure(h)
    by = {c["name"]: c for c in h}
    extra: List[str] = []
    fields: List[Tuple[str, str]] = []
    invs: List[str] = []
    if cprims:
        extra += [
            '@invariant(lambda self: len(self) > 0, "At least one character")', "class Some_id(str, DBC):", "    pass", "", "",
            '@invariant(lambda self: len(self) < 100, "Less than 100 characters")', "class Short_id(Some_id, DBC):", "    pass", "", "",
            '@invariant(lambda self: len(self) < 10, "Less than 10 characters")', "class Tiny_id(Short_id, DBC):", "    pass", "", "",
        ]
        fields += [("some_id", "Some_id"), ("short_id", "Short_id"), ("tiny_id", "Tiny_id")]
        if with_functions:
            for a, d in (("Some_id", "Short_id"), ("Some_id", "Tiny_id"), ("Short_id", "Tiny_id")):
                fn = f"{a.lower()}_or_{d.lower()}_is_set"
                extra += ["@verification", f"def {fn}(x: {a}, y: {d}) -> bool:", "    v = x", "    v = y", "    return len(v) > 0", "", ""]
                invs.append(f'@invariant(lambda self: {fn}(self.{a.lower()}, self.{d.lower()}), "{fn} holds")')
    if with_functions:
        pairs = [(a, d) for d in names for a in names if a in anc[d]]
        # abstract descendants first: they are what a recomputation from the concrete descendants loses
        pairs.sort(key=lambda ad: (not by[ad[1]]["abstract"], names.index(ad[0]), names.index(ad[1])))
        for a, d in pairs[:max_pairs]:
            prop = by[a]["props"][0]
            test = f"len(v.{prop}) > 0" if c05.prop_type(prop) == "str" else f"v.{prop} > 0"
            fn = f"{a.lower()}_or_{d.lower()}_is_set"
            extra += ["@verification", f"def {fn}(x: {a}, y: {d}) -> bool:", "    v = x", "    v = y", f"    return {test}", "", ""]
            invs.append(f'@invariant(lambda self: {fn}(self.the_{a.lower()}, self.the_{d.lower()}), "{fn} holds")')
    fields += [(f"the_{n.lower()}", n) for n in names]
    extra += invs + ["class Container(DBC):"] + [f"    {f}: {t}" for f, t in fields] + [""]
    extra += ["    def __init__(self" + "".join(f", {f}: {t}" for f, t in fields) + ") -> None:"] + [f"        self.{f} = {f}" for f, t in fields] + ["", ""]
    return head + "\n".join(extra) + "\n" + tail


def walk_models(ctx: Ctx) -> List[Tuple[str, str, str]]:
    """(stream, label, model text) for the warm-cache walk: the hand-made families, ENUMERATED hierarchies (every DAG on 3
    classes x every abstract mask, every DAG on 4 classes x the masks with abstract middles, chains of 5), the fixtures
    and seeded random hierarchies."""
    from harness.props import c05

    out: List[Tuple[str, str, str]] = []
    for name, spec in FAMILIES.items():
        out.append(("walk-families", name, family_model(spec)))
        out.append(("walk-families", name + "-plain", family_model(spec, with_functions=False, cprims=False)))
    nm = list(c05.NAMES[:5])
    for edges in c05.shapes(3):
        for mask in range(8):
            out.append(("walk-enumerated", f"dag3-{edges}-m{mask}", c05.render(c05.build(nm[:3], edges, mask, False, rich=mask % 3))))
    masks4 = [0b0110, 0b0111, 0b0011, 0b1110] if ctx.tier == "quick" else list(range(16))
    for edges in c05.shapes(4):
        if ctx.tier == "quick" and len(edges) < 2:
            continue
        for mask in masks4:
            out.append(("walk-enumerated", f"dag4-{edges}-m{mask}", c05.render(c05.build(nm[:4], edges, mask, False, rich=mask % 3))))
    chain5 = [(0, 1), (1, 2), (2, 3), (3, 4)]
    for mask in ([0b01110, 0b01111, 0b00101, 0b01010] if ctx.tier == "quick" else range(32)):
        out.append(("walk-enumerated", f"chain5-m{mask}", c05.render(c05.build(nm, chain5, mask, False, rich=1))))
    for case in ["enum", "constrained_primitives", "deep_class_hierarchy", "list_of_classes", "list_of_enums", "list_of_constrained_primitives", "list_of_primitives", "primitive_types"]:
        fp = REPO / "dev" / "test_data" / "common_meta_models" / f"{case}.py"
        if fp.exists():
            out.append(("walk-fixtures", case, fp.read_text(encoding="utf-8")))
    for k in range(ctx.n(25, 400)):
        out.append(("walk-random", f"random-{k}", c05.render(c05.random_hier(ctx, 9))))
    return out


def gen_history(ctx: Ctx, target: str, label: str, text: str) -> None:
    """uncached / cold / warm / warm again / uncached real ``main.execute`` on ``text`` for one target: everything a
    generator derives from the id-set backed queries must come out the same from a warm cache."""
    fx = fixture(target, "enum")
    if fx is None:
        return
    snippets = fx[1]
    root = ctx.scratch() / f"gen-{target}-{ctx.evaluations}"
    root.mkdir(parents=True)
    model = root / "meta_model.py"
    model.write_text(text, encoding="utf-8")
    inp = {"kind": "genwalk", "target": target, "label": label, "text": text}
    ref: Optional[Dict[str, Any]] = None
    for k, (name, flag) in enumerate([("uncached", False), ("cold", True), ("warm", True), ("warm-again", True), ("uncached-after", False)]):
        out = root / f"out{k}"
        out.mkdir()
        td = root / "tmp" if flag else root / f"tmp-off-{k}"
        res = execute_audited(target, model, snippets, out, flag, td)
        ctx.count((target, text, name), stream="generation-from-warm-cache")
        ctx.hit(f"gen-rc={res['rc']}")
        for sig, what in judge_events(res, flag, out, td):
            ctx.fail(inp, f"{target}/{label} step {name}: {what}", f"C23:{sig}")
        obs = {x: res[x] for x in ("rc", "stdout", "stderr", "tree")}
        if isinstance(res["rc"], str):
            obs = {"rc": res["rc"], "stdout": "", "stderr": "", "tree": {}}
        if ref is None:
            ref = obs
            continue
        if obs != ref:
            diff = [x for x in obs if obs[x] != ref[x]]
            detail = ""
            if "stderr" in diff:
                detail = " stderr: " + " ".join(str(obs["stderr"]).split())[:240]
            elif "tree" in diff:
                files = sorted(set(obs["tree"]) | set(ref["tree"]))
                detail = " files: " + ", ".join(f for f in files if obs["tree"].get(f) != ref["tree"].get(f))[:200]
            ctx.fail(inp, f"{target}/{label} step {name} (cache_model={flag}) differs from the uncached run of the same text in {diff} (rc {obs['rc']} vs {ref['rc']}){detail}",
                     f"C23:not-transparent:{name}:{'+'.join(diff)}")
    shutil.rmtree(root, ignore_errors=True)


# --------------------------------------------------------------------------- models at the edge of what an uncached run accepts
#
# Strengthening after the seeded change C23-5 (`sys.setrecursionlimit(10000)` in the cache branch, never restored): what a
# run accepts depends on PROCESS state (the recursion limit); a cached run that changes it accepts models which an uncached
# run reports as "too deeply nested".  Class: models whose nesting depth goes from well inside to well beyond what an
# uncached run accepts — per family of nesting a ladder of depths — each step in its OWN process.

_TAIL = '\n\n__version__ = "dummy"\n__xml_namespace__ = "https://dummy.com"\n'


def _something(inv: str, typ: str = "int", head: str = "") -> str:
    return (head + f'@invariant(lambda self: {inv}, "Nested")\nclass Something:\n    x: {typ}\n\n'
            f'    def __init__(self, x: {typ}) -> None:\n        self.x = x\n' + _TAIL)


def deep_model(family: str, depth: int) -> str:
    """A meta-model whose nesting of kind ``family`` is ``depth`` levels deep."""
    d = depth
    if family == "not-chain":  # the seed's witness shape: an invariant with d chained `not`
        return _something("not " * d + "(self.x > 0)")
    if family == "neg-chain":  # unary minus
        return _something("- " * d + "self.x > 0")
    if family == "arith-left":  # left-nested binary operations, no parentheses
        return _something("self.x" + " + 1" * d + " > 0")
    if family == "paren-or":  # explicitly nested disjunctions (the tokenizer limits parentheses itself)
        return _something("(" * d + "self.x > 0" + "".join(f" or self.x > {k})" for k in range(d)))
    if family == "wide-and":  # control: wide, not deep
        return _something("self.x > 0" + "".join(f" and self.x > {k}" for k in range(d)))
    if family == "nested-list-type":  # type annotation List[List[...[int]]]
        return _something("len(self.x) >= 0", typ="List[" * d + "int" + "]" * d, head="from typing import List\n\n\n")
    if family == "pattern-groups":  # nested groups in the pattern of a verification function
        pat = "(" * d + "a" + ")" * d
        return ('@verification\ndef matches_it(text: str) -> bool:\n    pattern = f"^' + pat + '$"\n    return match(pattern, text) is not None\n\n\n'
                '@invariant(lambda self: matches_it(self.x), "Nested")\nclass Something:\n    x: str\n\n'
                '    def __init__(self, x: str) -> None:\n        self.x = x\n' + _TAIL)
    if family == "inheritance-chain":  # C0 <- C1 <- ... <- C{d}
        out = ["class C0:\n    x: int\n\n    def __init__(self, x: int) -> None:\n        self.x = x\n"]
        for k in range(1, d + 1):
            out.append(f"class C{k}(C{k - 1}):\n    def __init__(self, x: int) -> None:\n        C{k - 1}.__init__(self, x)\n")
        return "\n\n".join(out) + _TAIL
    if family == "abstract-inheritance-chain":  # all but the last abstract, with_model_type at the root
        out = ["@abstract\n@serialization(with_model_type=True)\nclass C0:\n    x: int\n\n    def __init__(self, x: int) -> None:\n        self.x = x\n"]
        for k in range(1, d + 1):
            out.append(("@abstract\n" if k < d else "") + f"class C{k}(C{k - 1}):\n    def __init__(self, x: int) -> None:\n        C{k - 1}.__init__(self, x)\n")
        return "\n\n".join(out) + _TAIL
    if family == "cprim-chain":  # chain of constrained primitives
        out = ['@invariant(lambda self: len(self) > 0, "Non-empty")\nclass P0(str):\n    pass\n']
        for k in range(1, d + 1):
            out.append(f'@invariant(lambda self: len(self) < {1000 + k}, "Shorter")\nclass P{k}(P{k - 1}):\n    pass\n')
        out.append(f"class Something:\n    x: P{d}\n\n    def __init__(self, x: P{d}) -> None:\n        self.x = x\n")
        return "\n\n".join(out) + _TAIL
    raise ValueError(family)


DEEP_LADDERS: Dict[str, List[int]] = {
    # depths from well inside to well beyond what an uncached run of the pinned tree accepts (edges on the pinned tree,
    # CPython 3.12, default recursion limit: not-chain / arith-left 220..260, pattern-groups 60..100, parentheses and
    # brackets 200 (tokenizer); an inheritance chain is accepted at any of these depths but cannot be PICKLED from ~200 on)
    "not-chain": [200, 260],
    "arith-left": [280],
    "pattern-groups": [80, 120],
    "inheritance-chain": [260],
}
DEEP_LADDERS_THOROUGH: Dict[str, List[int]] = {
    "not-chain": [40, 210, 220, 230, 240, 250, 260, 270, 400, 600, 1500], "arith-left": [200, 210, 220, 230, 240, 250, 260, 270, 400, 600],
    "pattern-groups": [40, 50, 60, 70, 90, 100, 250, 500], "inheritance-chain": [100, 120, 150, 170, 180, 190, 200, 220, 320, 500],
    "abstract-inheritance-chain": [150, 190, 250, 400], "paren-or": [150, 190, 199, 200, 201, 210], "nested-list-type": [100, 150, 190, 199, 200, 201, 210],
    "wide-and": [400],
}

_LOAD_CHILD = r"""
import sys, json, pathlib
from aas_core_codegen import run
from harness.cache_rig import fingerprint, fp_digest
p = pathlib.Path(sys.argv[1]); flag = sys.argv[2] == "1"
try:
    r = run.load_model(p, cache_model=flag)
    out = {"st": "ok" if r[1] is None else "err", "err": r[1] or "", "fp": fp_digest(fingerprint(r)) if r[1] is None else ""}
except BaseException as e:
    out = {"st": "crash:" + type(e).__name__, "err": "", "fp": ""}
sys.stdout.write("RESULT " + json.dumps(out) + "\n")
"""
DEEP_TIMEOUT = 600.0


def load_in_fresh_process(model: pathlib.Path, flag: bool, tmpdir: pathlib.Path) -> Dict[str, Any]:
    """``run.load_model(model, cache_model=flag)`` in its own interpreter (own recursion limit, own module state)."""
    import time as _t

    from harness.core import VERIF

    env = dict(os.environ, PYTHONPATH=f"{REPO}{os.pathsep}{VERIF}", TMPDIR=str(tmpdir), PYTHONDONTWRITEBYTECODE="1")
    env.pop("TEMP", None)
    env.pop("TMP", None)
    t0 = _t.time()
    try:
        proc = subprocess.run([sys.executable, "-B", "-c", _LOAD_CHILD, str(model), "1" if flag else "0"], env=env, stdout=subprocess.PIPE,
                              stderr=subprocess.PIPE, timeout=DEEP_TIMEOUT, cwd=str(tmpdir))
    except subprocess.TimeoutExpired:
        return {"st": "timeout", "err": "", "fp": "", "secs": _t.time() - t0}
    out: Dict[str, Any] = {"st": f"exit:{proc.returncode}", "err": proc.stderr.decode(errors="replace")[-300:], "fp": ""}
    for line in proc.stdout.decode(errors="replace").splitlines():
        if line.startswith("RESULT "):
            try:
                out = json.loads(line[7:])
            except ValueError:
                pass
    out["err"] = str(out.get("err", "")).replace(str(model), "<model>")
    out["secs"] = _t.time() - t0
    return out


def _deep_steps(text: str, root: pathlib.Path) -> Dict[str, Any]:
    root.mkdir(parents=True, exist_ok=True)
    model = root / "meta_model.py"
    model.write_text(text, encoding="utf-8")
    res: Dict[str, Any] = {}
    for step, flag, td in (("uncached", False, "tmp-off"), ("cold", True, "tmp-on"), ("warm", True, "tmp-on")):
        (root / td).mkdir(exist_ok=True)
        res[step] = load_in_fresh_process(model, flag, root / td)
    res["entries"] = sorted(p.name for d in (root / "tmp-on").iterdir() if d.is_dir() for p in d.iterdir())
    res["off"] = sorted(p.name for p in (root / "tmp-off").iterdir())
    shutil.rmtree(root, ignore_errors=True)
    return res


def judge_deep(ctx: Ctx, label: str, text: str, res: Dict[str, Any], stream: str) -> None:
    inp = {"kind": "deep", "label": label, "text": text}
    ctx.count(("deep", text), stream=stream)
    un = res["uncached"]
    ctx.hit(f"deep-uncached={un['st']}" + ("-too-deep" if "too deeply nested" in un["err"] else ""))
    if un["st"] == "timeout":
        ctx.note(f"deep model {label}: the uncached load did not finish within {DEEP_TIMEOUT:.0f} s; not judged")
        return
    for step in ("cold", "warm"):
        got = res[step]
        ctx.hit(f"deep-{step}={got['st']}")
        if got["st"] == "timeout":
            if un["secs"] * 10 < DEEP_TIMEOUT:
                _fail_few(ctx, inp, f"{label}: the {step} cached load in a fresh process does not finish ({DEEP_TIMEOUT:.0f} s); the uncached load takes {un['secs']:.0f} s", f"C23:not-transparent:deep:{step}:timeout")
            continue
        if (got["st"], got["err"], got["fp"]) != (un["st"], un["err"], un["fp"]):
            what = f"{un['st']}->{got['st']}" if got["st"] != un["st"] else ("error-text" if got["err"] != un["err"] else "symbol-table")
            first = lambda r: " ".join(str(r["err"]).split())[:120]  # noqa: E731
            _fail_few(ctx, inp, f"{label}: in separate processes the uncached load gives {un['st']} ({first(un)}) but the {step} cached load gives {got['st']} ({first(got)})",
                      f"C23:not-transparent:deep:{step}:{what}")
    if res["off"]:
        _fail_few(ctx, inp, f"{label}: the uncached load left {res['off'][:3]} in the temp directory", "C23:touches-temp-dir-without-flag")
    want = f"model-{hashlib.sha256(text.encode()).hexdigest()}.pickle"
    extra = [e for e in res["entries"] if e != want]
    if extra:
        _fail_few(ctx, inp, f"{label}: after a cold and a warm load the cache directory holds {extra[:3]} beside the entry of the text", "C23:stray-after-clean-run" if any(e.endswith(".tmp") for e in extra) else "C23:entry-not-keyed-by-text-hash")
    if un["st"] != "ok" and want in res["entries"]:
        _fail_few(ctx, inp, f"{label}: a cache entry was written for a model that an uncached load rejects", "C23:entry-of-rejected-model")


DEEP_CLI = [("not-chain", 280)]
DEEP_CLI_THOROUGH = [("inheritance-chain", 260), ("not-chain", 200), ("arith-left", 250), ("pattern-groups", 80), ("pattern-groups", 120), ("abstract-inheritance-chain", 250)]


def deep_models(ctx: Ctx) -> List[Tuple[str, str]]:
    out = [(str(c.get("label", "corpus")), c["text"]) for c in corpus(ID) if c.get("kind") == "deep"]  # judged in the same parallel batch
    out += [(f"{fam}-{d}", deep_model(fam, d)) for fam, ds in DEEP_LADDERS.items() for d in ds]
    if ctx.tier == "thorough":
        out += [(f"{fam}-{d}", deep_model(fam, d)) for fam, ds in DEEP_LADDERS_THOROUGH.items() for d in ds]
    return out


def deep_walk(ctx: Ctx, models: List[Tuple[str, str]], stream: str = "deep-models-separate-processes") -> None:
    """uncached / cold / warm load of every model, every step in its own process, models in parallel."""
    from concurrent.futures import ThreadPoolExecutor

    root = ctx.scratch() / f"deep-{ctx.evaluations}"
    with ThreadPoolExecutor(max_workers=8) as ex:
        results = list(ex.map(lambda kv: _deep_steps(kv[1][1], root / f"m{kv[0]}"), list(enumerate(models))))
    for (label, text), res in zip(models, results):
        judge_deep(ctx, label, text, res, stream)
    shutil.rmtree(root, ignore_errors=True)


# --------------------------------------------------------------------------- CLI in a fresh process

_CLI = r"""
import sys, os, json
ev = []
def hook(event, args):
    try:
        if event == 'open':
            p, mode, flags = args[0], args[1], args[2]
            if isinstance(p, int): return
            wr = bool(isinstance(flags, int) and flags & (os.O_WRONLY | os.O_RDWR | os.O_CREAT | os.O_TRUNC | os.O_APPEND))
            ev.append(['write' if wr else 'read', os.fspath(p) if not isinstance(p, bytes) else p.decode()])
        elif event in ('os.mkdir','os.rename','os.remove','os.rmdir','os.truncate','os.chmod','os.symlink','os.link'):
            for a in args:
                if isinstance(a, (str, os.PathLike)): ev.append(['write', os.fspath(a)])
    except Exception:
        pass
import aas_core_codegen.main as m
sys.addaudithook(hook)
rc = m.main('aas-core-codegen')
sys.stdout.flush()
with os.fdopen(3, 'w') as f:
    json.dump({'rc': rc, 'events': ev}, f)
"""


def cli_run(target: str, model: pathlib.Path, snippets: pathlib.Path, out: pathlib.Path, flag: bool, tmpdir: pathlib.Path) -> Dict[str, Any]:
    tmpdir.mkdir(parents=True, exist_ok=True)
    out.mkdir(parents=True, exist_ok=True)
    r, w = os.pipe()
    env = dict(os.environ, PYTHONPATH=str(REPO), TMPDIR=str(tmpdir), PYTHONDONTWRITEBYTECODE="1")
    argv = [sys.executable, "-B", "-c", _CLI.replace("os.fdopen(3", f"os.fdopen({w}"), "--model_path", str(model), "--snippets_dir", str(snippets),
            "--output_dir", str(out), "--target", target]
    if flag:
        argv.append("--cache_model")
    proc = subprocess.Popen(argv, env=env, stdout=subprocess.PIPE, stderr=subprocess.PIPE, pass_fds=(w,), cwd=str(out))
    os.close(w)
    so, se = proc.communicate(timeout=600)
    with os.fdopen(r) as f:
        payload = f.read()
    data = json.loads(payload) if payload else {"rc": f"exit:{proc.returncode}", "events": []}
    return {
        "rc": data["rc"],
        "stdout": so.decode(errors="replace").replace(str(out), "<out>"),
        "stderr": se.decode(errors="replace").replace(str(out), "<out>"),
        "tree": tree_of(out),
        "events": [tuple(e) for e in data["events"]],
    }


def cli_history(ctx: Ctx, target: str, case: str, text: Optional[str] = None, label: str = "") -> None:
    """uncached / cold / warm CLI runs, each in a fresh process; on the fixture ``case`` or, with ``text``, on that model
    text (with the snippets of ``case``)."""
    fx = fixture(target, case)
    if fx is None:
        return
    root = ctx.scratch() / f"cli-{target}-{case}-{ctx.evaluations}"
    model = fx[0]
    if text is not None:
        root.mkdir(parents=True, exist_ok=True)
        model = root / "meta_model.py"
        model.write_text(text, encoding="utf-8")
        case = label or "text"
    ref = None
    for k, (name, flag, td) in enumerate([("cli-uncached", False, "tmp-off"), ("cli-cold", True, "tmp-on"), ("cli-warm", True, "tmp-on")]):
        out = root / f"out{k}"
        try:
            res = cli_run(target, model, fx[1], out, flag, root / td)
        except subprocess.TimeoutExpired:
            ctx.note(f"cli {target}/{case} {name}: no result within the time-out; not judged")
            break
        inp = {"kind": "cli", "target": target, "case": case, "step": name}
        if text is not None:
            inp = {"kind": "clitext", "target": target, "label": case, "text": text, "step": name}
        ctx.count((target, case, name), stream="cli-fresh-process")
        ctx.hit(f"cli-rc={res['rc']}")
        for sig, what in judge_events(res, flag, out, root / td):
            ctx.fail(inp, f"{target}/{case} {name} (fresh process): {what}", f"C23:{sig}")
        obs = {x: res[x] for x in ("rc", "stdout", "stderr", "tree")}
        if ref is None:
            ref = obs
        elif obs != ref:
            diff = [x for x in obs if obs[x] != ref[x]]
            ctx.fail(inp, f"{target}/{case} {name} differs from the uncached CLI run in {diff}", f"C23:not-transparent:{name}:{'+'.join(diff)}")
    shutil.rmtree(root, ignore_errors=True)


# --------------------------------------------------------------------------- entry points


def _sequential(ctx: Ctx, with_model: bool) -> None:
    cor = []
    for c in corpus(ID):
        if c.get("kind") == "schedule":
            cor.append((c.get("name", "corpus"), [tuple(e) for e in c["sched"]], bool(c.get("mid_dump", False))))
    cc.run_batch(ctx, cor, "corpus", with_model=with_model)
    bases = ["enum", "constrained_primitives"] if ctx.tier == "quick" else cc.BASES + ["list_of_classes", "primitive_types"]
    for base in bases:
        cc.run_batch(ctx, list(cc.sequential_scenarios()), "sequential-histories", base=base, with_model=with_model)
    # strengthening after the seeded changes C23-4 / C23-6: cached runs OVERLAPPING in time on one model text (each must
    # behave as an uncached run), and the model file SAVED with another text between the steps of a cached run
    cc.run_batch(ctx, list(cc.overlap_scenarios()), "overlapping-cold-runs", with_model=with_model)
    cc.run_batch(ctx, list(cc.edit_scenarios()), "edit-during-run", with_model=with_model)
    if ctx.tier == "thorough":
        cc.run_batch(ctx, list(cc.two_writer_scenarios(0, 0)), "overlapping-cold-runs-all", with_model=with_model)
        cc.run_batch(ctx, list(cc.edit_scenarios()), "edit-during-run", base="constrained_primitives", with_model=with_model)
    rnd = []
    for k in range(ctx.n(60, 800)):
        # random sequential histories: every run finishes before the next one starts; occasionally one crashes
        ev: List[cc.Event] = []
        for i in range(ctx.rng.randint(2, 7)):
            ev.append(cc.sp(ctx.rng.choice([0, 0, 1, 2, 3, 7, 9]), 1 if ctx.rng.random() < 0.7 else 0))
            if ctx.rng.random() < 0.15:
                ev += cc.st(i, ctx.rng.randint(0, 12)) + [(ctx.rng.choice(["ex", "ki"]), i)]
            if ctx.rng.random() < 0.3:
                # the model file of this run is saved with another text while the run is under way
                ev += cc.st(i, ctx.rng.randint(0, 14)) + [cc.ed(i, ctx.rng.choice([0, 1, 2, 3, 7, 9]))]
            ev += cc.st(i, cc.FULL)
        rnd.append((f"seq-random-{k}", ev, False))
    cc.run_batch(ctx, rnd, "sequential-random", with_model=with_model)


def correspond(ctx: Ctx) -> None:
    ctx.assumptions[:] = ASSUMPTIONS
    ctx.extra_cov["rule"] = (
        "inputs: (i) flag plumbing cases, (ii) histories of runs (spawn/step events, each run finishing before the next starts, "
        "edits = another text id, occasionally a crash) executed on the real load_model and on Cache.run, distinct by (fixture, schedule); "
        "(iii) oracle histories of real main.execute per (target, fixture, step); non-trivial = at least one run with cache_model set"
    )
    check_plumbing(ctx, True)
    _sequential(ctx, True)


def oracle(ctx: Ctx) -> None:
    ctx.assumptions[:] = ASSUMPTIONS
    if not ctx.driver_ok or ctx.searching:
        check_plumbing(ctx, False)
        _sequential(ctx, False)
    for c in corpus(ID):
        if c.get("kind") in ("history", "cli", "idsets", "plumb", "warmwalk", "genwalk", "clitext"):
            replay(ctx, c)
    cases = ["enum", "constrained_primitives"] if ctx.tier == "quick" else ["enum", "constrained_primitives", "deep_class_hierarchy", "list_of_classes", "list_of_primitives", "list_of_enums"]
    for target in TARGETS:
        for case in cases:
            history(ctx, target, case, edit=(case == cases[0] or ctx.tier == "thorough"))
    for case in ["enum", "constrained_primitives", "deep_class_hierarchy", "list_of_classes", "list_of_enums", "list_of_constrained_primitives"]:
        check_unpickled(ctx, case)
    # (d') warm cache: the id-set walk on hierarchies with abstract middles, and the generators on top of it
    for stream, label, text in walk_models(ctx):
        warm_walk(ctx, label, text, stream)
    fams = ["chain4-abstract-middles"] if ctx.tier == "quick" else list(FAMILIES)
    for fam in fams:
        for target in TARGETS:
            gen_history(ctx, target, fam, family_model(FAMILIES[fam]))
    cli_history(ctx, "python", "enum")
    # models at the edge of what an uncached run accepts: every step in its own process (recursion limit = process state)
    deep_walk(ctx, deep_models(ctx))
    for fam, d in DEEP_CLI if ctx.tier == "quick" else DEEP_CLI + DEEP_CLI_THOROUGH:
        cli_history(ctx, "jsonschema", "enum", text=deep_model(fam, d), label=f"{fam}-{d}")
    if ctx.tier == "thorough":
        check_unpickled(ctx, "aas_core_meta.v3")
        for target in ("jsonschema", "csharp", "java"):
            history(ctx, target, "aas_core_meta.v3", edit=False)
        for target in ("xsd", "golang"):
            cli_history(ctx, target, "enum")


def replay(ctx: Ctx, data: Dict[str, Any]) -> Any:
    inp = data["failure"]["input"] if "failure" in data else data
    before = len(ctx.failures)
    kind = inp.get("kind")
    res: Dict[str, Any] = {}
    if kind == "schedule":
        return cc.replay_schedule(ctx, inp)
    if kind == "plumb":
        res["impl"] = {"cli": {b: real_plumb_cli(b, ctx.scratch()) for b in (False, True)}, "api": {str(b): real_plumb_api(b) for b in (False, True, None)}}
        check_plumbing(ctx, False)
        if ctx.driver_ok:
            res["model"] = ctx.model(["plumb 0", "plumb 1", "plumbdefault"])
    elif kind == "history":
        history(ctx, inp["target"], inp["case"], edit=True)
    elif kind == "cli":
        cli_history(ctx, inp["target"], inp["case"])
    elif kind == "idsets":
        check_unpickled(ctx, inp["case"])
    elif kind == "warmwalk":
        warm_walk(ctx, inp.get("label", "replay"), inp["text"], "replay")
    elif kind == "deep":
        deep_walk(ctx, [(inp.get("label", "replay"), inp["text"])], stream="replay")
    elif kind == "clitext":
        cli_history(ctx, inp["target"], "enum", text=inp["text"], label=inp.get("label", "replay"))
    elif kind == "genwalk":
        gen_history(ctx, inp["target"], inp.get("label", "replay"), inp["text"])
    else:
        return {"error": "unknown replay kind"}
    res["oracle"] = [(f["sig"], f["what"]) for f in ctx.failures[before:]]
    return res
