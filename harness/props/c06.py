"""C06 — the front end accepts a meta-model only if it obeys the documented structural rules.

Three judges on every input (a meta-model source text):

* IMPL    ``mm.load(text)``: accepted / rejected (error text -> ``classify`` -> rule ids) / crash
* MODEL   Lean ``Rules.check`` through the driver (``check <wire(A)>`` -> ``ok`` | rule ids of the first failing stage)
* ORACLE  ``oracle_rules(extract(text))``: an independent Python reading of the rules over the abstract
          value extracted from the *source text* with ``ast`` (all broken rules, no staging)

The abstract value ``A`` (a JSON-able dict, see ``abstract``/``extract``) is the shared truth.
"""
from __future__ import annotations

import ast
import copy
import json
import pathlib
import re
from typing import Any, Callable, Dict, Iterable, Iterator, List, Optional, Sequence, Set, Tuple

from harness import extract as hx
from harness.core import REPO, Ctx, corpus, enc_text
from harness.extract import ExtractError, lean_text, lean_text_list

ID = "C06"
GEN = ["Rules"]

# =========================================================================== tables from the source (ast only)

_TRANSLATE = "aas_core_codegen/parse/_translate.py"
_TYPES = "aas_core_codegen/parse/_types.py"


def _eval_str_set(node: ast.AST, env: Dict[str, Set[str]]) -> Set[str]:
    """Evaluate a set literal of string constants, a name of an earlier set, or a ``.union(...)`` chain."""
    if isinstance(node, (ast.Set, ast.Tuple, ast.List)):
        out = set()
        for e in node.elts:
            if not (isinstance(e, ast.Constant) and isinstance(e.value, str)):
                raise ExtractError(f"non-string element in a set literal at line {getattr(e, 'lineno', '?')}")
            out.add(e.value)
        return out
    if isinstance(node, ast.Name):
        if node.id not in env:
            raise ExtractError(f"set name {node.id!r} used before its assignment")
        return set(env[node.id])
    if isinstance(node, ast.Call) and isinstance(node.func, ast.Name) and node.func.id in ("set", "frozenset"):
        if len(node.args) == 0 and not node.keywords:
            return set()
        if len(node.args) == 1 and not node.keywords:
            return _eval_str_set(node.args[0], env)
    if isinstance(node, ast.Call) and isinstance(node.func, ast.Attribute) and node.func.attr == "union" and not node.keywords:
        out = _eval_str_set(node.func.value, env)
        for a in node.args:
            out |= _eval_str_set(a, env)
        return out
    raise ExtractError(f"unsupported set expression at line {getattr(node, 'lineno', '?')}: {ast.dump(node)[:80]}")


def _affix_calls(test: ast.AST) -> List[Tuple[str, str, str]]:
    """All ``<subject>.startswith(<const>)`` / ``.endswith(<const>)`` calls in an expression: (subject, kind, literal)."""
    out = []
    for n in ast.walk(test):
        if (
            isinstance(n, ast.Call)
            and isinstance(n.func, ast.Attribute)
            and n.func.attr in ("startswith", "endswith")
            and len(n.args) == 1
            and isinstance(n.args[0], ast.Constant)
            and isinstance(n.args[0].value, str)
        ):
            out.append((ast.unparse(n.func.value), n.func.attr, n.args[0].value))
    return out


_TABLES_CACHE: Dict[str, Dict[str, Any]] = {}


def source_tables(repo: pathlib.Path) -> Dict[str, Any]:
    """The reserved-name tables and affix literals of ``_verify_symbol_table`` (never imports the repo)."""
    key = str(repo)
    p = repo / _TRANSLATE
    try:
        stamp = (p.stat().st_mtime_ns, p.stat().st_size)
    except OSError:
        raise ExtractError(f"{_TRANSLATE} does not exist")
    cached = _TABLES_CACHE.get(key)
    if cached is not None and cached["_stamp"] == stamp:
        return cached
    mod = hx._parse(repo, _TRANSLATE)
    fn = hx._func(mod, "_verify_symbol_table")
    env: Dict[str, Set[str]] = {}
    wanted = ["builtin_types_in_many_implementations", "keywords_in_many_implementations", "reserved_type_names", "reserved_member_names"]
    for st in fn.body:
        if isinstance(st, ast.Assign) and len(st.targets) == 1 and isinstance(st.targets[0], ast.Name) and st.targets[0].id in wanted:
            env[st.targets[0].id] = _eval_str_set(st.value, env)
    for w in wanted:
        if w not in env:
            raise ExtractError(f"assignment of {w} not found in _verify_symbol_table")
    # affix literals in the loops over symbol_table.our_types
    type_prefixes: List[str] = []
    member_prefixes: List[str] = []
    over_prefixes: List[str] = []
    over_suffixes: List[str] = []
    seen_loop = False
    for loop in fn.body:
        if not (isinstance(loop, ast.For) and ast.unparse(loop.iter) == "symbol_table.our_types"):
            continue
        for n in ast.walk(loop):
            if not isinstance(n, ast.If):
                continue
            calls = _affix_calls(n.test)
            if not calls:
                continue
            seen_loop = True
            subjects = {c[0] for c in calls}
            if subjects == {"our_type.name"}:
                for _, kind, lit in calls:
                    if kind != "startswith":
                        raise ExtractError("unexpected endswith on our_type.name")
                    if lit not in type_prefixes:
                        type_prefixes.append(lit)
            elif subjects <= {"method.name.lower()", "prop.name.lower()"}:
                kinds = [c[1] for c in calls]
                if kinds == ["startswith"]:
                    if calls[0][2] not in member_prefixes:
                        member_prefixes.append(calls[0][2])
                elif "endswith" in kinds and subjects == {"method.name.lower()"}:
                    for _, kind, lit in calls:
                        tgt = over_prefixes if kind == "startswith" else over_suffixes
                        if lit not in tgt:
                            tgt.append(lit)
                    # shape: startswith(P) and (endswith(S1) or endswith(S2) ...)
                    t = n.test
                    ok = (
                        isinstance(t, ast.BoolOp)
                        and isinstance(t.op, ast.And)
                        and len(t.values) == 2
                        and _affix_calls(t.values[0]) == [c for c in calls if c[1] == "startswith"]
                        and (
                            (isinstance(t.values[1], ast.BoolOp) and isinstance(t.values[1].op, ast.Or))
                            or isinstance(t.values[1], ast.Call)
                        )
                    )
                    if not ok:
                        raise ExtractError(f"unexpected shape of the Over_X_or_Empty test at line {n.lineno}")
                else:
                    raise ExtractError(f"unexpected affix test at line {n.lineno}: {ast.unparse(n.test)[:100]}")
            else:
                raise ExtractError(f"affix test on unexpected subject(s) {sorted(subjects)} at line {n.lineno}")
    if not seen_loop:
        raise ExtractError("no startswith/endswith tests found in the loops over symbol_table.our_types")
    if not type_prefixes:
        raise ExtractError("no our_type.name.startswith(...) literal found")
    if len(member_prefixes) != 1:
        raise ExtractError(f"expected exactly one member prefix literal, got {member_prefixes}")
    if len(over_prefixes) != 1 or not over_suffixes:
        raise ExtractError(f"expected one 'over' prefix and its suffixes, got {over_prefixes} / {over_suffixes}")
    # the method-prefix and property-prefix tests must both exist with the same literal
    subj_with_member_prefix = set()
    for n in ast.walk(fn):
        if isinstance(n, ast.If):
            calls = _affix_calls(n.test)
            if len(calls) == 1 and calls[0][1] == "startswith" and calls[0][2] == member_prefixes[0]:
                subj_with_member_prefix.add(calls[0][0])
    if subj_with_member_prefix != {"method.name.lower()", "prop.name.lower()"}:
        raise ExtractError(f"member prefix test expected on methods and properties, found on {sorted(subj_with_member_prefix)}")

    # PRIMITIVE_TYPES
    tmod = hx._parse(repo, _TYPES)
    prims: Optional[Set[str]] = None
    for st in tmod.body:
        tgt = None
        if isinstance(st, ast.Assign) and len(st.targets) == 1 and isinstance(st.targets[0], ast.Name):
            tgt, val = st.targets[0].id, st.value
        elif isinstance(st, ast.AnnAssign) and isinstance(st.target, ast.Name) and st.value is not None:
            tgt, val = st.target.id, st.value
        if tgt == "PRIMITIVE_TYPES":
            prims = _eval_str_set(val, {})
    if prims is None:
        raise ExtractError("PRIMITIVE_TYPES not found in parse/_types.py")
    res = {
        "_stamp": stamp,
        "reserved_type_names": env["reserved_type_names"],
        "reserved_member_names": env["reserved_member_names"],
        "type_prefixes": type_prefixes,
        "member_prefix": member_prefixes[0],
        "over_prefix": over_prefixes[0],
        "over_suffixes": over_suffixes,
        "primitive_types": prims,
    }
    _TABLES_CACHE[key] = res
    return res


_FROZEN_PATH = pathlib.Path(__file__).resolve().parent / "c06_reserved.json"
_FROZEN_KEYS = ["reserved_type_names", "reserved_member_names", "type_prefixes", "member_prefix", "over_prefix", "over_suffixes", "primitive_types"]
_FROZEN_CACHE: Optional[Dict[str, Any]] = None


def freeze_reserved(repo: pathlib.Path) -> str:
    """JSON text of the reserved-name tables of ``repo`` (written once for the pinned tree, see ``frozen_tables``)."""
    t = source_tables(repo)
    d = {k: (sorted(t[k]) if isinstance(t[k], (set, frozenset)) else t[k]) for k in _FROZEN_KEYS}
    return json.dumps(d, indent=1, sort_keys=True) + "\n"


def frozen_tables() -> Dict[str, Any]:
    """
    The documented reserved names as of the pinned tree (``harness/props/c06_reserved.json``, committed; regenerate with
    ``python -m harness.props.c06 --freeze-reserved``).  The ORACLE uses only this copy, never the source under test:
    an entry deleted from the source then shows up as an accepted meta-model that uses a reserved name.
    """
    global _FROZEN_CACHE
    if _FROZEN_CACHE is None:
        d = json.loads(_FROZEN_PATH.read_text())
        for k in ("reserved_type_names", "reserved_member_names", "primitive_types"):
            d[k] = set(d[k])
        _FROZEN_CACHE = d
    return _FROZEN_CACHE


def _lean_chunks(names: List[str], per: int = 100) -> str:
    if not names:
        return "[]"
    chunks = [names[i : i + per] for i in range(0, len(names), per)]
    return "\n  ++ ".join(lean_text_list(c) for c in chunks)


def gen_Rules(repo: pathlib.Path) -> str:
    t = source_tables(repo)
    return (
        "import AasVerif.Model.Text\n"
        "/-! GENERATED by harness/props/c06.py (gen_Rules) from aas_core_codegen/parse/_translate.py — do not edit. -/\n"
        "namespace AasVerif.Gen.Rules\n"
        "open AasVerif\n"
        f"def reservedTypeNames : List Text :=\n  {_lean_chunks(sorted(t['reserved_type_names']))}\n"
        f"def reservedMemberNames : List Text :=\n  {_lean_chunks(sorted(t['reserved_member_names']))}\n"
        f"def typePrefixes : List Text := {lean_text_list(t['type_prefixes'])}\n"
        f"def memberPrefix : Text := {lean_text(t['member_prefix'])}\n"
        f"def overPrefix : Text := {lean_text(t['over_prefix'])}\n"
        f"def overSuffixes : List Text := {lean_text_list(t['over_suffixes'])}\n"
        f"def primitiveTypes : List Text := {lean_text_list(sorted(t['primitive_types']))}\n"
        "end AasVerif.Gen.Rules\n"
    )


# =========================================================================== the abstract value A

RULE_IDS = [
    "dupProperty", "dupMethod", "memberClash", "dupSymbol",
    "reservedTypePrefix", "reservedTypeName", "reservedMethodName", "reservedPropertyName", "reservedConstantName", "reservedFunctionName",
    "missingBase", "baseNotClass", "danglingType", "cycle",
    "redeclaredProperty", "redeclaredMethod", "ctorMissingInherited", "inheritedClash",
    "danglingDocClass", "danglingDocConst", "danglingDocAttr",
    "ctorDefault", "ctorPropInit", "ctorMissing", "ctorArgNames", "ctorArgOrder", "ctorArgType",
    "nestedOptional", "listOfOptional", "patternInvalid", "patternEmpty", "patternNotAnchored", "dupInvariantDescription",
]

PRIM_SOURCE_NAMES = ("bool", "int", "float", "str", "bytearray")


class Unsupported(Exception):
    """The source text uses something the abstraction ``A`` cannot express (the input is skipped, and counted)."""


def _mm():
    from harness import mm

    return mm


def abs_type(t: Any) -> List[Any]:
    mm = _mm()
    if isinstance(t, mm.Prim):
        return ["p", mm.PRIM_TO_SOURCE[t.name]]
    if isinstance(t, mm.Ref):
        return ["r", t.name]
    if isinstance(t, mm.ListOf):
        return ["l", abs_type(t.item)]
    if isinstance(t, mm.OptionalOf):
        return ["o", abs_type(t.item)]
    raise TypeError(repr(t))


_REF_RE = re.compile(r":(class|attr|const):`([^`]*)`")


def doc_refs(text: str) -> List[List[str]]:
    """The ``:class:`` / ``:attr:`` / ``:const:`` roles of a description (``:paramref:``/``:constraintref:`` are not modelled)."""
    out: List[List[str]] = []
    for m in _REF_RE.finditer(text):
        role, target = m.group(1), m.group(2)
        target = re.sub(r"^[!~]+", "", target)
        if role == "class":
            out.append(["cls", target])
        elif role == "const":
            out.append(["const", target])
        else:
            parts = target.split(".")
            if len(parts) == 1:
                out.append(["attr", target])
            elif len(parts) == 2:
                out.append(["attr2", parts[0], parts[1]])
            else:
                raise Unsupported(f"attribute reference with {len(parts)} parts: {target}")
    return out


def _doc_entry(docs: List[Dict[str, Any]], scope: Optional[str], text: Optional[str]) -> None:
    if text is None:
        return
    refs = doc_refs(text)
    if refs:
        docs.append({"scope": scope, "refs": refs})


def abstract(m: Any) -> Dict[str, Any]:
    """``A`` directly from the ``mm.MM`` dataclasses (``m._no_init``: names of classes rendered without ``__init__``)."""
    mm = _mm()
    if m.constrained_primitives:
        raise Unsupported("constrained primitives")
    no_init = getattr(m, "_no_init", set())
    enums, classes, docs = [], [], []
    _doc_entry(docs, None, m.description)
    fns = []
    for f in m.verification_functions:
        fns.append({"name": f.name, "pattern": f.pattern if isinstance(f, mm.PatternFn) else None})
        _doc_entry(docs, None, f.description)
    for t in m.our_types_in_order():
        if isinstance(t, mm.Enum):
            enums.append({"name": t.name, "literals": [lit.name for lit in t.literals]})
            _doc_entry(docs, t.name, t.description)
            for lit in t.literals:
                _doc_entry(docs, t.name, lit.description)
        else:
            if t.impl_specific:
                raise Unsupported("implementation-specific class")
            if t.name in no_init:
                ctor = None
            else:
                c = t.ctor if t.ctor is not None else mm.default_ctor(m, t.name)
                ctor = None
                if c is not None:
                    ctor = [
                        {"name": a.name, "type": abs_type(a.type), "dflt": "absent" if a.default is None else ("none" if a.default == "None" else "other")}
                        for a in c.args
                    ]
            classes.append(
                {
                    "name": t.name,
                    "parents": list(t.bases),
                    "props": [{"name": p.name, "type": abs_type(p.type)} for p in t.props],
                    "methods": [me.name for me in t.methods],
                    "invs": [inv.description for inv in t.invariants],
                    "ctor": ctor,
                }
            )
            _doc_entry(docs, t.name, t.description)
            for p in t.props:
                _doc_entry(docs, t.name, p.description)
            for me in t.methods:
                _doc_entry(docs, t.name, me.description)
    consts = []
    for c in list(m.constants) + list(m.constant_sets):
        consts.append(c.name)
        _doc_entry(docs, None, c.description)
    return {"enums": enums, "classes": classes, "consts": consts, "fns": fns, "docs": docs}


# --------------------------------------------------------------------------- extraction from source text


def _is_str_expr(node: ast.AST) -> bool:
    return isinstance(node, ast.Expr) and isinstance(node.value, ast.Constant) and isinstance(node.value.value, str)


def _x_type(node: ast.AST) -> List[Any]:
    if isinstance(node, ast.Constant) and isinstance(node.value, str):
        name = node.value
        return ["p", name] if name in PRIM_SOURCE_NAMES else ["r", name]
    if isinstance(node, ast.Name):
        if node.id in ("List", "Optional"):
            raise Unsupported(f"bare generic {node.id}")
        return ["p", node.id] if node.id in PRIM_SOURCE_NAMES else ["r", node.id]
    if isinstance(node, ast.Subscript) and isinstance(node.value, ast.Name) and node.value.id in ("List", "Optional"):
        inner = node.slice
        if isinstance(inner, ast.Tuple):
            raise Unsupported("generic with several subscripts")
        return ["l" if node.value.id == "List" else "o", _x_type(inner)]
    raise Unsupported(f"type annotation {ast.dump(node)[:60]}")


def _x_str(node: ast.AST, env: Dict[str, str]) -> str:
    if isinstance(node, ast.Constant) and isinstance(node.value, str):
        return node.value
    if isinstance(node, ast.Name) and node.id in env:
        return env[node.id]
    if isinstance(node, ast.JoinedStr):
        out = []
        for v in node.values:
            if isinstance(v, ast.Constant) and isinstance(v.value, str):
                out.append(v.value)
            elif isinstance(v, ast.FormattedValue) and v.conversion == -1 and v.format_spec is None:
                out.append(_x_str(v.value, env))
            else:
                raise Unsupported("f-string piece")
        return "".join(out)
    raise Unsupported(f"string expression {ast.dump(node)[:60]}")


def _x_pattern(fn: ast.FunctionDef) -> Optional[str]:
    """The pattern a verification function matches against, None if it does not call ``match``."""
    calls = [n for n in ast.walk(fn) if isinstance(n, ast.Call) and isinstance(n.func, ast.Name) and n.func.id == "match"]
    if not calls:
        return None
    body = list(fn.body)
    if body and _is_str_expr(body[0]):
        body = body[1:]
    if not body or not isinstance(body[-1], ast.Return) or len(calls) != 1:
        raise Unsupported("match() outside of the pattern-function shape")
    ret = body[-1].value
    ok = (
        isinstance(ret, ast.Compare)
        and len(ret.ops) == 1
        and isinstance(ret.ops[0], ast.IsNot)
        and isinstance(ret.comparators[0], ast.Constant)
        and ret.comparators[0].value is None
        and ret.left is calls[0]
        and len(calls[0].args) == 2
    )
    if not ok:
        raise Unsupported("match() outside of the pattern-function shape")
    env: Dict[str, str] = {}
    for st in body[:-1]:
        if isinstance(st, ast.Assign) and len(st.targets) == 1 and isinstance(st.targets[0], ast.Name):
            env[st.targets[0].id] = _x_str(st.value, env)
        else:
            raise Unsupported("statement in a pattern function")
    return _x_str(calls[0].args[0], env)


def _x_inv_description(dec: ast.AST) -> Optional[str]:
    if isinstance(dec, ast.Call) and isinstance(dec.func, ast.Name) and dec.func.id == "invariant":
        for kw in dec.keywords:
            if kw.arg == "description":
                return _x_str(kw.value, {})
        if len(dec.args) >= 2:
            return _x_str(dec.args[1], {})
        raise Unsupported("invariant without a description")
    return None


def _flags(enums: List[Any], classes: List[Any], bodies: List[Dict[str, Any]], sig_refs: List[str]) -> Set[str]:
    """
    What the text decides *outside* of ``A`` (``A`` has no constructor bodies and no method signatures):

    * ``noncanonical-ctor``: some constructor body is not canonical.  Canonical: every own property with an argument of
      the same name is assigned exactly that argument (``self.x = x``), nothing else is assigned, and every parent
      class with constructor arguments gets ``Parent.__init__(self, ...)`` with exactly the parent's arguments under
      their own names.  Only judged where the front end gets that far (sound hierarchy, no member declared again).
    * ``dangling-non-property-type``: a type is dangling in a method signature, a constructor argument or the item
      type of a constant set, but in no property.
    """
    flags: Set[str] = set()
    names = [c["name"] for c in classes]
    declared = set(names) | {e["name"] for e in enums}
    by_name = {c["name"]: c for c in classes}
    sound = len(names) == len(set(names)) and all(p in by_name for c in classes for p in c["parents"])
    reach: Dict[str, Set[str]] = {}
    if sound:
        reach = {n: set(by_name[n]["parents"]) for n in names}
        for _ in names:
            for n in names:
                for q in list(reach[n]):
                    reach[n] |= reach[q]
        sound = not any(n in reach[n] for n in names)
    for c in classes if sound else []:
        # the ontology errors (a member declared again, a class without constructor below one with arguments) end the
        # translation before any constructor body is looked at
        inherited = {m for q in reach[c["name"]] for m in [p["name"] for p in by_name[q]["props"]] + by_name[q]["methods"]}
        if any(m in inherited for m in [p["name"] for p in c["props"]] + c["methods"]):
            sound = False
        if c["ctor"] is None and any(by_name[q]["ctor"] for q in reach[c["name"]]):
            sound = False
        seen_owner: Dict[str, str] = {}
        for q in sorted(reach[c["name"]]):
            for p in by_name[q]["props"]:
                if seen_owner.setdefault(p["name"], q) != q:
                    sound = False
    for c, body in zip(classes, bodies):
        if c["ctor"] is None or not sound:
            continue
        own = [p["name"] for p in c["props"]]
        argn = [a["name"] for a in c["ctor"]]
        if body["odd"]:
            flags.add("noncanonical-ctor")
        for target, value in body["assigns"]:
            if target not in own or value != target or value not in argn:
                flags.add("noncanonical-ctor")
        assigned = {t for t, _ in body["assigns"]}
        if any(pn in argn and pn not in assigned for pn in own):
            flags.add("noncanonical-ctor")
        called = [q for q, _ in body["supers"]]
        if len(called) != len(set(called)) or any(q not in c["parents"] for q in called):
            flags.add("noncanonical-ctor")
        for q in c["parents"]:
            want = [a["name"] for a in (by_name[q]["ctor"] or [])]
            got = [passed for qq, passed in body["supers"] if qq == q]
            if want and (not got or got[0] is None or sorted(got[0]) != sorted(want) or any(x not in argn for x in got[0])):
                flags.add("noncanonical-ctor")
            if not want and got and got[0]:
                flags.add("noncanonical-ctor")
    dangling_in_props = {r for c in classes for p in c["props"] for r in _type_refs(p["type"]) if r not in declared}
    refs = list(sig_refs)
    for c in classes:
        for a in c["ctor"] or []:
            refs.extend(_type_refs(a["type"]))
    if any(r not in declared and r not in dangling_in_props for r in refs):
        flags.add("dangling-non-property-type")
    return flags


def _x_ctor_body(fn: ast.FunctionDef) -> Dict[str, Any]:
    """Assignments ``self.<target> = <name>``, super calls ``(class, passed names | None)``, and whether anything else is there."""
    out: Dict[str, Any] = {"assigns": [], "supers": [], "odd": False}
    for k, st in enumerate(fn.body):
        if k == 0 and _is_str_expr(st):
            continue
        if isinstance(st, ast.Pass):
            continue
        if (
            isinstance(st, ast.Assign)
            and len(st.targets) == 1
            and isinstance(st.targets[0], ast.Attribute)
            and isinstance(st.targets[0].value, ast.Name)
            and st.targets[0].value.id == "self"
        ):
            if isinstance(st.value, ast.Name):
                out["assigns"].append((st.targets[0].attr, st.value.id))
            else:
                out["assigns"].append((st.targets[0].attr, None))  # a default expression etc.
            continue
        if (
            isinstance(st, ast.Expr)
            and isinstance(st.value, ast.Call)
            and isinstance(st.value.func, ast.Attribute)
            and st.value.func.attr == "__init__"
            and isinstance(st.value.func.value, ast.Name)
        ):
            call = st.value
            passed: Optional[List[str]] = []
            args = list(call.args)
            if not args or not (isinstance(args[0], ast.Name) and args[0].id == "self"):
                passed = None
            else:
                for a in args[1:]:
                    if isinstance(a, ast.Name) and passed is not None:
                        passed.append(a.id)
                    else:
                        passed = None
                for kw in call.keywords:
                    if passed is not None and kw.arg is not None and isinstance(kw.value, ast.Name) and kw.value.id == kw.arg:
                        passed.append(kw.arg)
                    else:
                        passed = None
            out["supers"].append((call.func.value.id, passed))
            continue
        out["odd"] = True
    return out


def extract(text: str) -> Dict[str, Any]:
    """``A'`` from the meta-model *source text* (``ast`` only)."""
    return extract_ex(text)[0]


def extract_ex(text: str) -> Tuple[Dict[str, Any], Set[str]]:
    """``(A', flags)`` from the meta-model *source text* (``ast`` only); the flags are explained in ``_flags``."""
    try:
        mod = ast.parse(text)
    except (SyntaxError, ValueError) as e:
        raise Unsupported(f"not Python: {e}")
    enums, classes, consts, fns = [], [], [], []
    bodies: List[Dict[str, Any]] = []
    lit_values: Dict[str, List[Any]] = {}
    sig_refs: List[str] = []
    type_docs: List[Dict[str, Any]] = []
    fn_docs: List[Dict[str, Any]] = []
    const_docs: List[Dict[str, Any]] = []
    mm_desc: Optional[str] = None
    for node in mod.body:
        if _is_str_expr(node):
            mm_desc = node.value.value  # type: ignore
        elif isinstance(node, ast.FunctionDef):
            fns.append({"name": node.name, "pattern": _x_pattern(node)})
            _doc_entry(fn_docs, None, ast.get_docstring(node, clean=False))
        elif isinstance(node, ast.AnnAssign) and isinstance(node.target, ast.Name):
            consts.append(node.target.id)
            ann = node.annotation
            if isinstance(ann, ast.Subscript) and isinstance(ann.value, ast.Name) and ann.value.id == "Set":
                # the item type may be a name or a forward reference written as a string literal
                item = ann.slice
                item_name = item.id if isinstance(item, ast.Name) else (
                    item.value if isinstance(item, ast.Constant) and isinstance(item.value, str) else None)
                if item_name is not None and item_name not in PRIM_SOURCE_NAMES:
                    sig_refs.append(item_name)
            if isinstance(node.value, ast.Call):
                for kw in node.value.keywords:
                    if kw.arg == "description":
                        _doc_entry(const_docs, None, _x_str(kw.value, {}))
        elif isinstance(node, ast.ClassDef):
            bases = []
            for b in node.bases:
                if not isinstance(b, ast.Name):
                    raise Unsupported("base that is not a name")
                bases.append(b.id)
            body = list(node.body)
            if "Enum" in bases:
                if len(bases) > 1:
                    raise Unsupported("enumeration with several bases")
                lits = []
                for i, st in enumerate(body):
                    if i == 0 and _is_str_expr(st):
                        _doc_entry(type_docs, node.name, st.value.value)  # type: ignore
                    elif isinstance(st, ast.Assign) and len(st.targets) == 1 and isinstance(st.targets[0], ast.Name):
                        lits.append(st.targets[0].id)
                        if isinstance(st.value, ast.Constant):
                            lit_values.setdefault(node.name, []).append(st.value.value)
                        if i + 1 < len(body) and _is_str_expr(body[i + 1]):
                            _doc_entry(type_docs, node.name, body[i + 1].value.value)  # type: ignore
                    elif _is_str_expr(st) or isinstance(st, ast.Pass):
                        pass
                    else:
                        raise Unsupported("statement in an enumeration")
                enums.append({"name": node.name, "literals": lits})
                continue
            parents = [b for b in bases if b != "DBC"]
            if any(p in PRIM_SOURCE_NAMES for p in parents):
                raise Unsupported("constrained primitive")
            for d in node.decorator_list:
                dn = d.func if isinstance(d, ast.Call) else d
                if isinstance(dn, ast.Name) and dn.id == "implementation_specific":
                    raise Unsupported("implementation-specific class")
            invs = [x for x in (_x_inv_description(d) for d in node.decorator_list) if x is not None]
            invs.reverse()
            props, methods, ctor = [], [], None
            ctor_body: Dict[str, Any] = {"assigns": [], "supers": [], "odd": False}
            for i, st in enumerate(body):
                if i == 0 and _is_str_expr(st):
                    _doc_entry(type_docs, node.name, st.value.value)  # type: ignore
                elif isinstance(st, ast.AnnAssign) and isinstance(st.target, ast.Name):
                    props.append({"name": st.target.id, "type": _x_type(st.annotation)})
                    if i + 1 < len(body) and _is_str_expr(body[i + 1]):
                        _doc_entry(type_docs, node.name, body[i + 1].value.value)  # type: ignore
                elif isinstance(st, ast.FunctionDef):
                    if st.name == "__init__":
                        a = st.args
                        if a.vararg or a.kwarg or a.kwonlyargs or getattr(a, "posonlyargs", []):
                            raise Unsupported("constructor signature")
                        args = list(a.args)
                        if not args or args[0].arg != "self":
                            raise Unsupported("constructor without self")
                        args = args[1:]
                        ndef = len(a.defaults)
                        if ndef > len(args):
                            raise Unsupported("default for self")
                        ctor = []
                        for k, arg in enumerate(args):
                            if arg.annotation is None:
                                raise Unsupported("constructor argument without annotation")
                            j = k - (len(args) - ndef)
                            if j < 0:
                                dflt = "absent"
                            else:
                                dn = a.defaults[j]
                                dflt = "none" if isinstance(dn, ast.Constant) and dn.value is None else "other"
                            ctor.append({"name": arg.arg, "type": _x_type(arg.annotation), "dflt": dflt})
                        ctor_body = _x_ctor_body(st)
                    else:
                        methods.append(st.name)
                        _doc_entry(type_docs, node.name, ast.get_docstring(st, clean=False))
                        for arg in st.args.args[1:]:
                            if arg.annotation is not None:
                                sig_refs.extend(_type_refs(_x_type(arg.annotation)))
                        if st.returns is not None and not (isinstance(st.returns, ast.Constant) and st.returns.value is None):
                            sig_refs.extend(_type_refs(_x_type(st.returns)))
                elif _is_str_expr(st) or isinstance(st, ast.Pass):
                    pass
                else:
                    raise Unsupported("statement in a class")
            classes.append({"name": node.name, "parents": parents, "props": props, "methods": methods, "invs": invs, "ctor": ctor})
            bodies.append(ctor_body)
    flags = _flags(enums, classes, bodies, sig_refs)
    if any(len(e["literals"]) != len(set(e["literals"])) for e in enums) or any(len(v) != len(set(map(repr, v))) for v in lit_values.values()):
        flags.add("duplicate-enum-literal")
    docs: List[Dict[str, Any]] = []
    _doc_entry(docs, None, mm_desc)
    docs.extend(fn_docs)
    docs.extend(type_docs)
    docs.extend(const_docs)
    return {"enums": enums, "classes": classes, "consts": consts, "fns": fns, "docs": docs}, flags


# --------------------------------------------------------------------------- wire


def _w_type(t: Sequence[Any], out: List[str]) -> None:
    k = t[0]
    if k in ("p", "r"):
        out.extend([k, enc_text(t[1])])
    elif k in ("l", "o"):
        out.append(k)
        _w_type(t[1], out)
    else:
        raise ValueError(f"not a type: {t!r}")


def wire(A: Dict[str, Any]) -> str:
    out: List[str] = ["E", str(len(A["enums"]))]
    for e in A["enums"]:
        out.extend([enc_text(e["name"]), str(len(e["literals"]))])
        out.extend(enc_text(x) for x in e["literals"])
    out.extend(["C", str(len(A["classes"]))])
    for c in A["classes"]:
        out.extend([enc_text(c["name"]), str(len(c["parents"]))])
        out.extend(enc_text(x) for x in c["parents"])
        out.append(str(len(c["props"])))
        for p in c["props"]:
            out.append(enc_text(p["name"]))
            _w_type(p["type"], out)
        out.append(str(len(c["methods"])))
        out.extend(enc_text(x) for x in c["methods"])
        out.append(str(len(c["invs"])))
        out.extend(enc_text(x) for x in c["invs"])
        if c["ctor"] is None:
            out.append("-")
        else:
            out.extend(["c", str(len(c["ctor"]))])
            for a in c["ctor"]:
                out.append(enc_text(a["name"]))
                _w_type(a["type"], out)
                out.append({"absent": "a", "none": "n", "other": "o"}[a["dflt"]])
    out.extend(["K", str(len(A["consts"]))])
    out.extend(enc_text(x) for x in A["consts"])
    out.extend(["F", str(len(A["fns"]))])
    for f in A["fns"]:
        out.append(enc_text(f["name"]))
        if f["pattern"] is None:
            out.append("-")
        else:
            out.extend(["p", enc_text(f["pattern"])])
    out.extend(["D", str(len(A["docs"]))])
    for d in A["docs"]:
        if d["scope"] is None:
            out.append("-")
        else:
            out.extend(["s", enc_text(d["scope"])])
        out.append(str(len(d["refs"])))
        for r in d["refs"]:
            if r[0] == "cls":
                out.extend(["c", enc_text(r[1])])
            elif r[0] == "attr":
                out.extend(["a", enc_text(r[1])])
            elif r[0] == "attr2":
                out.extend(["b", enc_text(r[1]), enc_text(r[2])])
            elif r[0] == "const":
                out.extend(["k", enc_text(r[1])])
            else:
                raise ValueError(f"not a reference: {r!r}")
    return " ".join(out)


# =========================================================================== the direct oracle (no staging, no Lean)


def _type_refs(t: Sequence[Any]) -> Iterator[str]:
    if t[0] == "r":
        yield t[1]
    elif t[0] in ("l", "o"):
        yield from _type_refs(t[1])


def _has_shape(t: Sequence[Any], outer: str, inner: str) -> bool:
    """Some ``[outer, [inner, _]]`` anywhere inside ``t``."""
    while t[0] in ("l", "o"):
        if t[0] == outer and t[1][0] == inner:
            return True
        t = t[1]
    return False


def top_level_alternation(pattern: str) -> bool:
    """True if the regex text has a ``|`` outside of every group, character class and escape."""
    depth = 0
    i, n = 0, len(pattern)
    while i < n:
        ch = pattern[i]
        if ch == "\\":
            i += 2
            continue
        if ch == "[":
            # a character class: a leading ``^`` and a leading ``]`` are literal members
            i += 1
            if i < n and pattern[i] == "^":
                i += 1
            if i < n and pattern[i] == "]":
                i += 1
            while i < n and pattern[i] != "]":
                i += 2 if pattern[i] == "\\" else 1
            i += 1
            continue
        if ch == "(":
            depth += 1
        elif ch == ")":
            depth -= 1
        elif ch == "|" and depth == 0:
            return True
        i += 1
    return False


def _ends_with_unescaped_dollar(pattern: str) -> bool:
    if not pattern.endswith("$"):
        return False
    k = 0
    i = len(pattern) - 2
    while i >= 0 and pattern[i] == "\\":
        k += 1
        i -= 1
    return k % 2 == 0


#: constructs the project documents as unsupported in patterns: ``(?...)`` groups (non-capturing, named, look-around),
#: the class escapes ``\d \w \s`` (and their complements), word boundaries / string anchors and back-references
_UNSUPPORTED_CONSTRUCT_RE = re.compile(r"\\[dDwWsSbBAZ1-9]|\(\?")


def uses_unsupported_construct(pattern: str) -> bool:
    i, n = 0, len(pattern)
    in_class = False
    while i < n:
        if pattern[i] == "\\":
            if _UNSUPPORTED_CONSTRUCT_RE.match(pattern, i) and not (in_class and pattern[i + 1 : i + 2] in "bBAZ123456789"):
                return True
            i += 2
            continue
        if in_class:
            in_class = pattern[i] != "]"
        elif pattern[i] == "[":
            in_class = True
            if pattern[i + 1 : i + 2] == "^":
                i += 1
            if pattern[i + 1 : i + 2] == "]":
                i += 1
        elif pattern.startswith("(?", i):
            return True
        i += 1
    return False


def pattern_rules(pattern: str) -> Set[str]:
    out: Set[str] = set()
    if pattern == "":
        return {"patternEmpty"}
    try:
        re.compile(pattern)
    except (re.error, OverflowError, RecursionError):
        return {"patternInvalid"}
    if uses_unsupported_construct(pattern):
        return {"patternInvalid"}
    if not (pattern.startswith("^") and _ends_with_unescaped_dollar(pattern) and len(pattern) >= 2 and not top_level_alternation(pattern)):
        out.add("patternNotAnchored")
    return out


def oracle_rules(A: Dict[str, Any], tables: Optional[Dict[str, Any]] = None) -> Set[str]:
    """Every documented rule of C06 that the abstract meta-model breaks (rule ids), decided independently of the model."""
    T = tables if tables is not None else frozen_tables()
    bad: Set[str] = set()
    rt, rm = T["reserved_type_names"], T["reserved_member_names"]
    enum_names = [e["name"] for e in A["enums"]]
    class_names = [c["name"] for c in A["classes"]]
    type_names = set(enum_names) | set(class_names)
    by_name: Dict[str, Dict[str, Any]] = {}
    for c in A["classes"]:
        by_name.setdefault(c["name"], c)
    enum_by_name: Dict[str, Dict[str, Any]] = {}
    for e in A["enums"]:
        enum_by_name.setdefault(e["name"], e)

    # ---- unique names
    symbols = enum_names + class_names + list(A["consts"]) + [f["name"] for f in A["fns"]]
    if len(symbols) != len(set(symbols)):
        bad.add("dupSymbol")
    for c in A["classes"]:
        pn = [p["name"] for p in c["props"]]
        mn = list(c["methods"])
        if len(pn) != len(set(pn)):
            bad.add("dupProperty")
        if len(mn) != len(set(mn)):
            bad.add("dupMethod")
        if set(pn) & set(mn):
            bad.add("memberClash")

    # ---- reserved names
    def member_prefixed(low: str) -> bool:
        return low.startswith(T["member_prefix"])

    for n in enum_names + class_names:
        if any(n.startswith(p) for p in T["type_prefixes"]):
            bad.add("reservedTypePrefix")
        if n.lower() in rt:
            bad.add("reservedTypeName")
    for c in A["classes"]:
        for me in c["methods"]:
            low = me.lower()
            if low in rm or member_prefixed(low) or (low.startswith(T["over_prefix"]) and any(low.endswith(s) for s in T["over_suffixes"])):
                bad.add("reservedMethodName")
        for p in c["props"]:
            low = p["name"].lower()
            if low in rm or member_prefixed(low):
                bad.add("reservedPropertyName")
    for k in A["consts"]:
        if k.lower() in rm or k.lower() in rt:
            bad.add("reservedConstantName")
    for f in A["fns"]:
        if f["name"].lower() in rm or f["name"].lower() in rt:
            bad.add("reservedFunctionName")

    # ---- inheritance from existing classes, acyclic
    for c in A["classes"]:
        for p in c["parents"]:
            if p in by_name:
                continue
            bad.add("baseNotClass" if p in enum_by_name else "missingBase")
    reach: Dict[str, Set[str]] = {n: {p for p in by_name[n]["parents"] if p in by_name} for n in by_name}
    changed = True
    while changed:
        changed = False
        for n in reach:
            new = set(reach[n])
            for p in reach[n]:
                new |= reach[p]
            if new != reach[n]:
                reach[n] = new
                changed = True
    if any(n in reach[n] for n in reach):
        bad.add("cycle")

    # ---- property types
    for c in A["classes"]:
        for p in c["props"]:
            if any(r not in type_names for r in _type_refs(p["type"])):
                bad.add("danglingType")
            if _has_shape(p["type"], "o", "o"):
                bad.add("nestedOptional")
            if _has_shape(p["type"], "l", "o"):
                bad.add("listOfOptional")

    # ---- inherited members are not declared again; a class without a constructor below one with arguments
    for c in A["classes"]:
        ancs = [by_name[a] for a in sorted(reach.get(c["name"], ())) if by_name[a] is not c]
        anc_props = {p["name"] for a in ancs for p in a["props"]}
        anc_methods = {me for a in ancs for me in a["methods"]}
        inherited = anc_props | anc_methods
        if any(p["name"] in inherited for p in c["props"]):
            bad.add("redeclaredProperty")
        if any(me in inherited for me in c["methods"]):
            bad.add("redeclaredMethod")
        if c["ctor"] is None and any(a["ctor"] for a in ancs):
            bad.add("ctorMissingInherited")
        # a property name must not come down from two different ancestors (one ancestor reached twice is fine)
        owners: Dict[str, Set[str]] = {}
        for a in ancs:
            for p in a["props"]:
                owners.setdefault(p["name"], set()).add(a["name"])
        if any(len(v) >= 2 for v in owners.values()):
            bad.add("inheritedClash")

    # ---- stacked properties (own + inherited, ancestors first)
    def stacked(n: str, seen: Tuple[str, ...] = ()) -> List[Tuple[str, Dict[str, Any]]]:
        c = by_name[n]
        out: List[Tuple[str, Dict[str, Any]]] = []
        for p in c["parents"]:
            if p in by_name and p not in seen and p != n:
                for owner, prop in stacked(p, seen + (n,)):
                    if not any(o == owner and q is prop for o, q in out):
                        out.append((owner, prop))
        out.extend((n, p) for p in c["props"])
        return out

    # ---- constructors
    for c in A["classes"]:
        props = [p for _, p in stacked(c["name"])] if by_name[c["name"]] is c else list(c["props"])
        args = c["ctor"] or []
        if c["ctor"] is None and c["props"]:
            bad.add("ctorMissing")
        for a in args:
            if a["type"][0] == "o" and a["dflt"] != "none":
                bad.add("ctorDefault")
        pnames = [p["name"] for p in props]
        anames = [a["name"] for a in args]
        if set(pnames) != set(anames):
            bad.add("ctorArgNames")
        arg_of = {a["name"]: a for a in reversed(args)}
        for p in props:
            a = arg_of.get(p["name"])
            if a is None or (p["type"][0] != "o" and a["type"][0] == "o"):
                bad.add("ctorPropInit")
            if a is not None and a["type"] != p["type"]:
                bad.add("ctorArgType")
        # order: within the arguments without a default, and within those with one, the property order is kept
        pos = {}
        for i, nme in enumerate(pnames):
            pos.setdefault(nme, i)
        for group in ([a for a in args if a["dflt"] == "absent"], [a for a in args if a["dflt"] != "absent"]):
            idx = [pos[a["name"]] for a in group if a["name"] in pos]
            if idx != sorted(idx):
                bad.add("ctorArgOrder")

    # ---- invariant descriptions: all distinct invariants reaching a class have distinct descriptions
    for c in A["classes"]:
        owners = [c] + [by_name[a] for a in sorted(reach.get(c["name"], ())) if by_name[a] is not c]
        descs = [d for o in owners for d in o["invs"]]
        if len(descs) != len(set(descs)):
            bad.add("dupInvariantDescription")

    # ---- documentation references
    def has_attr(tname: str, attr: str) -> bool:
        if tname in enum_by_name and tname not in by_name:
            return attr in enum_by_name[tname]["literals"]
        if tname in by_name:
            return any(p["name"] == attr for _, p in stacked(tname))
        return False

    for d in A["docs"]:
        for r in d["refs"]:
            if r[0] == "cls" and r[1] not in type_names:
                bad.add("danglingDocClass")
            elif r[0] == "const" and r[1] not in A["consts"]:
                bad.add("danglingDocConst")
            elif r[0] == "attr" and (d["scope"] is None or not has_attr(d["scope"], r[1])):
                bad.add("danglingDocAttr")
            elif r[0] == "attr2" and not has_attr(r[1], r[2]):
                bad.add("danglingDocAttr")

    # ---- patterns
    for f in A["fns"]:
        if f["pattern"] is not None:
            bad |= pattern_rules(f["pattern"])
    return bad


# =========================================================================== classification of the front end's messages

#: lines that only introduce underlying errors
HEADLINES = [
    "Failed to construct the symbol table",
    "Failed to translate the parsed symbol table to intermediate symbol table",
    "Failed to translate the parsed symbol table to an intermediate symbol table",
    "Failed to parse the meta-model",
    "Failed to parse the class definition",
    "One or more symbols in the meta-model have duplicate names",
    "Verification of the meta-model failed",
    "Failed to translate the verification function",
    "Failed to translate the class",
    "Failed to translate the enumeration",
    "Failed to understand the constructors",
    "Failed to understand the constructor of the class",
    "Failed to parse the arguments to the super ``__init__``",
    "Failed to parse a property",
    "Failed to parse the method",
]

#: (regular expression searched in a message line, rule id) — first match wins
MESSAGE_RULES: List[Tuple[str, str]] = [
    (r"^The property '.*' has been defined more than once", "dupProperty"),
    (r"^The method '.*' has been defined more than once", "dupMethod"),
    (r"conflicts with the method of the same name", "memberClash"),
    (r"conflicts with the property of the same name", "memberClash"),
    (r"^Duplicate for ", "dupSymbol"),
    (r"^The prefix ``I_`` in the name of the type", "reservedTypePrefix"),
    (r"^The prefix ``Must_`` in the name of the type", "reservedTypePrefix"),
    (r"^The name of the type is reserved", "reservedTypeName"),
    (r"^The name of the method is reserved", "reservedMethodName"),  # incl. the "Over_X_or_Empty" getters
    (r"^The prefix 'mutable' in the name of the method", "reservedMethodName"),
    (r"^The name of the property is reserved", "reservedPropertyName"),
    (r"^The prefix 'mutable' in the name of the property", "reservedPropertyName"),
    (r"^The name of the constant is reserved", "reservedConstantName"),
    (r"^The name of the verification function is reserved", "reservedFunctionName"),
    (r"^A parent of the class '.*' is dangling:", "missingBase"),
    (r"to inherit from another class", "baseNotClass"),
    (r"^Our type could not be found in the symbol table", "danglingType"),
    (r"^Expected no cycles in the inheritance", "cycle"),
    (r"^The property has already been defined in the ancestor", "redeclaredProperty"),
    (r"^The property conflicts with the method defined in the ancestor", "redeclaredProperty"),
    (r"^The method has already been defined in the ancestor", "redeclaredMethod"),
    (r"^The method conflicts with the property defined in the ancestor", "redeclaredMethod"),
    (r"does not specify a constructor, but the ancestor", "ctorMissingInherited"),
    (r"is inherited in the class .* both from the class", "inheritedClash"),
    (r"^The identifier of the reference to our type could not be found", "danglingDocClass"),
    (r"^The identifier of the reference to a constant could not be found", "danglingDocConst"),
    (r"^Dangling reference to a non-existing", "danglingDocAttr"),
    (r"can not be resolved as there is no encompassing", "danglingDocAttr"),
    (r"to default to ``None``", "ctorDefault"),
    (r"is not properly initialized in the constructor", "ctorPropInit"),
    (r"^No constructor has been specified for the class", "ctorMissing"),
    (r"^The properties and constructor arguments do not coincide", "ctorArgNames"),
    (r"^The order of constructor arguments and properties", "ctorArgOrder"),
    (r"mismatch in type\. The argument is typed", "ctorArgType"),
    (r"we do not handle nested optionals", "nestedOptional"),
    (r"we handle only lists non-optionals", "listOfOptional"),
    (r"^Failed to parse the pattern of the pattern verification function", "patternInvalid"),
    (r"^The pattern is empty\.", "patternEmpty"),
    (r"We expect all the patterns to be anchored", "patternNotAnchored"),
    (r"^The invariants' descriptions need to be unique", "dupInvariantDescription"),
]

#: messages of checks that C06 does not state (and the Lean model does not have); ``unmodelled:<what>``
UNMODELLED_RULES: List[Tuple[str, str]] = [
    # validity for Python's ``re`` is decided in the first translation pass, long before the pattern checks of ``_verify``
    (r"^Failed to compile the pattern with the Python's ``re`` module", "unmodelled:reCompile"),
    (r"^Expected the property .* to be assigned exactly the argument with the same name", "unmodelled:ctor-body"),
    (r"^The call to ``.*__init__`` is missing one or more arguments", "unmodelled:ctor-body"),
    (r"^The ``.*__init__`` expected \d+ argument", "unmodelled:ctor-body"),
    (r"is not an argument of ``", "unmodelled:ctor-body"),
    (r"^Expected the arguments to super ``__init__`` to be passed with the same names", "unmodelled:ctor-body"),
    (r"does not define a ``__init__``", "unmodelled:ctor-body"),
    (r"^The property .* is assigned more than once", "unmodelled:ctor-body"),
    (r"is used as a type of one or more properties, but it has no concrete descendants", "unmodelled:abstract-without-descendants"),
    (r"^The constraint reference is dangling", "unmodelled:constraintref"),
    (r"its serialization setting ``with_model_type`` has not been set", "unmodelled:with-model-type"),
    (r"needs to have serialization setting ``with_model_type`` set", "unmodelled:with-model-type"),
    (r"^The subset '.*' of the constant set '.*' is dangling", "unmodelled:constant-subset"),
    (r"^The literal from the subset '.*' is not contained in the set", "unmodelled:constant-subset"),
    (r"^The value from the subset '.*' is not contained in the set", "unmodelled:constant-subset"),
    (r"can not be inherited in the class .* due to the diamond inheritance", "unmodelled:diamond-method"),
    (r"^The base '.*' has been listed more than once", "unmodelled:duplicate-base"),
    (r"^The translation of the default value to the intermediate layer has not been implemented", "unmodelled:default-value"),
]

_MESSAGE_RES = [(re.compile(p), r) for p, r in MESSAGE_RULES]
_UNMODELLED_RES = [(re.compile(p), r) for p, r in UNMODELLED_RULES]
_AT_RE = re.compile(r"^At line \d+ and column \d+: ")
#: continuation lines of the multi-line messages we know (the text after the first line of such a message)
_CONTINUATION_RES = [
    re.compile(r"^The evaluated pattern was: "),
    re.compile(r"^The error message was: "),
]


def classify(error_text: str) -> Set[str]:
    """Rule ids of the leaf messages of an error report of the front end; unknown lines give ``other:<start of line>``."""
    out: Set[str] = set()
    skip = 0
    for raw in error_text.split("\n"):
        line = raw.strip()
        if line.startswith("* "):
            line = line[2:].strip()
        if line == "":
            continue
        if skip > 0:
            skip -= 1
            continue
        line = _AT_RE.sub("", line)
        if any(line == h or line.startswith(h + ":") or line.startswith(h + " ") for h in HEADLINES):
            continue
        if any(r.search(line) for r in _CONTINUATION_RES):
            continue
        for rx, rule in _MESSAGE_RES:
            if rx.search(line):
                out.add(rule)
                if line.startswith("Failed to parse the pattern of the pattern verification function"):
                    skip = 3  # the parser's message, the pattern, the pointer line
                break
        else:
            for rx, rule in _UNMODELLED_RES:
                if rx.search(line):
                    out.add(rule)
                    break
            else:
                out.add("other:" + line[:40])
    return out


# =========================================================================== mutators on the mm.MM value

_CUT = "@@C06-CUT@@"


def render_mm(m: Any) -> str:
    """``mm.render`` honouring ``m._no_init`` (classes rendered without ``__init__``)."""
    mm = _mm()
    no_init = getattr(m, "_no_init", set())
    if not no_init:
        return mm.render(m)
    m2 = copy.copy(m)
    m2.classes = []
    for c in m.classes:
        if c.name in no_init:
            c = copy.copy(c)
            c.ctor = mm.Ctor(args=[], description=_CUT)
        m2.classes.append(c)
    text = mm.render(m2)
    return text.replace(f'    def __init__(self) -> None:\n        """{_CUT}"""', "    pass")


#: Member layouts of a class body.  ``mm.render`` always writes properties, methods, ``__init__`` ("PMI"); the front end
#: keeps the members in SOURCE order (``parse.Class.methods`` includes ``__init__`` at its place), so a loop over the
#: members of an ancestor that stops/skips at the wrong place shows only with another layout.  The order WITHIN the
#: properties and within the methods is kept (it is part of ``A``: constructor arguments follow the property order), so the
#: abstract value of the text does not change.  P = the properties, M = the methods, I = ``__init__``;
#: "split": P, first method, I, other methods; "mixed": properties and methods alternate, I after the first method.
LAYOUTS = ["PMI", "PIM", "IPM", "IMP", "MIP", "MPI", "split", "mixed"]


def _layout_units(layout: str, props: List[str], methods: List[str], init: List[str]) -> List[str]:
    if layout == "split":
        return props + methods[:1] + init + methods[1:]
    if layout == "mixed":
        out: List[str] = []
        for k in range(max(len(props), len(methods))):
            out += props[k : k + 1] + methods[k : k + 1]
            if k == 0:
                out += init
        return out if (props or methods) else list(init)
    groups = {"P": props, "M": methods, "I": init}
    return [u for g in layout for u in groups[g]]


def relayout(text: str, layout: Any) -> str:
    """
    The same meta-model with the members of its classes written in another order.

    ``layout``: a name of ``LAYOUTS`` for every class, or ``{class name: layout}`` (other classes are left alone).
    Works on the text (``ast`` positions): a member is a property with its docstring or a function with its decorators;
    enumerations, constrained primitives and class bodies with other statements are left as they are.
    """
    try:
        mod = ast.parse(text)
    except (SyntaxError, ValueError):
        return text
    lines = text.split("\n")
    for node in sorted((n for n in mod.body if isinstance(n, ast.ClassDef)), key=lambda n: -n.lineno):
        lay = layout.get(node.name) if isinstance(layout, dict) else layout
        if lay is None or lay == "PMI":
            continue
        if any(isinstance(b, ast.Name) and (b.id == "Enum" or b.id in PRIM_SOURCE_NAMES) for b in node.bases):
            continue
        body = list(node.body)
        if body and _is_str_expr(body[0]):
            body = body[1:]
        units: List[Tuple[str, int]] = []  # (kind, first line)
        ok = True
        for k, st in enumerate(body):
            if isinstance(st, ast.AnnAssign):
                units.append(("P", st.lineno))
            elif isinstance(st, ast.FunctionDef):
                first = min([st.lineno] + [d.lineno for d in st.decorator_list])
                units.append(("I" if st.name == "__init__" else "M", first))
            elif _is_str_expr(st) and k > 0 and isinstance(body[k - 1], ast.AnnAssign):
                pass  # the docstring of the property before it
            else:
                ok = False
        if not ok or not units:
            continue
        end = node.end_lineno or len(lines)
        chunks: Dict[str, List[str]] = {"P": [], "M": [], "I": []}
        for (kind, first), nxt in zip(units, [u[1] for u in units[1:]] + [end + 1]):
            chunk = lines[first - 1 : nxt - 1]
            while chunk and chunk[-1].strip() == "":
                chunk.pop()
            chunks[kind].append("\n".join(chunk))
        ordered = _layout_units(lay, chunks["P"], chunks["M"], chunks["I"])
        lines[units[0][1] - 1 : end] = "\n\n".join(ordered).split("\n")
    return "\n".join(lines)


def clone(base: Any, freeze: bool = True, kw: bool = False) -> Any:
    mm = _mm()
    m = copy.deepcopy(base)
    m._no_init = set(getattr(base, "_no_init", set()))
    if freeze:
        for c in m.classes:
            if c.ctor is None:
                c.ctor = mm.default_ctor(base, c.name, keyword_super_args=kw)
    return m


def _ident_ok(name: str) -> bool:
    import keyword

    return name.isidentifier() and not keyword.iskeyword(name) and name.lower() not in ("enum", "dbc", "list", "optional", "set", "self") and name not in PRIM_SOURCE_NAMES


def _case_variants(name: str) -> List[str]:
    out = []
    for v in (name, name.capitalize(), name.upper()):
        if _ident_ok(v) and v not in out:
            out.append(v)
    return out


#: mutator kinds whose checks walk over the members of a class / of its ancestors: also run with another member layout
_LAYOUT_SENSITIVE = ("redeclared-", "ctor-missing", "inherited-clash", "dup-method", "member-clash", "reserved-method")
#: ... except where the verdict is the same but the FIRST error of the class body depends on the source order of the members of
#: different kinds, which the abstract value does not carry (one error per class: the duplicate property or the clash)
_LAYOUT_DEPENDENT = ("dup-property-and-clash",)

Entry = Tuple[Any, str, str, Callable[[Any], None]]  # (expected rule | "valid" | "?" | frozenset, label "kind:site", mode, fn)


def catalogue(base: Any, T: Dict[str, Any], rng: Any, n_reserved: int = 2) -> List[Entry]:
    """Every mutator x every applicable site of ``base``.  ``fn(m)`` edits a clone in place."""
    mm = _mm()
    out: List[Entry] = []

    def add(rule: Any, label: str, fn: Callable[[Any], None], mode: str = "any") -> None:
        out.append((rule, label, mode, fn))

    names = [c.name for c in base.classes]
    anc = {n: mm.ancestors(base, n) for n in names}
    desc = {n: mm.descendants(base, n) for n in names}
    leaves = [n for n in names if not desc[n]]
    with_bases = [n for n in names if base.cls(n).bases]
    with_props = [n for n in names if base.cls(n).props]
    ctor0 = {n: mm.default_ctor(base, n) for n in names}
    O, L, P, R = mm.OptionalOf, mm.ListOf, mm.Prim, mm.Ref

    def meth(name: str, description: Optional[str] = None) -> Any:
        return mm.Method(name, [], P("bool"), impl_specific=True, description=description)

    def taut(k: int = 0) -> Any:
        vals = (mm.Constant(True), mm.Constant(False))
        return mm.Or(vals if k % 2 == 0 else vals[::-1])

    def ensure_enum(m: Any) -> str:
        if not m.enums:
            m.enums.append(mm.Enum.of("Zz_added_enum", [("Zz_lit_one", "one"), ("Zz_lit_two", "two")]))
        return m.enums[0].name

    # ---- cycle
    for n in names:
        add("cycle", f"cycle-self-first:{n}", lambda m, n=n: m.cls(n).bases.insert(0, n))
        add("cycle", f"cycle-self-last:{n}", lambda m, n=n: m.cls(n).bases.append(n))
    for n in with_bases:
        top = anc[n][0]
        add("cycle", f"cycle-back-to-root:{top}<-{n}", lambda m, n=n, top=top: m.cls(top).bases.append(n))
        p = base.cls(n).bases[-1]
        if p != top:
            add("cycle", f"cycle-two:{p}<-{n}", lambda m, n=n, p=p: m.cls(p).bases.append(n))
    for i, a in enumerate(names):
        for b in names[i + 1 :]:
            if a not in anc[b] and b not in anc[a]:
                def two(m: Any, a: str = a, b: str = b) -> None:
                    m.cls(a).bases.append(b)
                    m.cls(b).bases.append(a)
                add("cycle", f"cycle-unrelated-pair:{a},{b}", two)
    # ---- bases
    for n in names:
        add("missingBase", f"missing-base-last:{n}", lambda m, n=n: m.cls(n).bases.append("Nonexistent_parent"))
        add("missingBase", f"missing-base-first:{n}", lambda m, n=n: m.cls(n).bases.insert(0, "Nonexistent_parent"))
        add("baseNotClass", f"base-is-enum:{n}", lambda m, n=n: m.cls(n).bases.append(ensure_enum(m)))
    # ---- duplicate symbols
    for n in names:
        add("dupSymbol", f"dup-class-class:{n}", lambda m, n=n: m.classes.append(copy.deepcopy(m.cls(n))))
        add("dupSymbol", f"dup-class-enum:{n}", lambda m, n=n: m.enums.append(mm.Enum.of(n, [("Zz_lit_one", "one")])))
        add("dupSymbol", f"dup-class-const:{n}", lambda m, n=n: m.constants.append(mm.ConstantPrimitive(n, "str", "x")))
        add("dupSymbol", f"dup-class-fn:{n}", lambda m, n=n: m.verification_functions.append(mm.PatternFn.simple(n, "^a$")))
    for e in base.enums:
        add("dupSymbol", f"dup-enum-enum:{e.name}", lambda m, e=e: m.enums.append(copy.deepcopy(e)))
        add("dupSymbol", f"dup-enum-const:{e.name}", lambda m, e=e: m.constants.append(mm.ConstantPrimitive(e.name, "int", 1)))
    for k in list(base.constants) + list(base.constant_sets):
        add("dupSymbol", f"dup-const-const:{k.name}", lambda m, k=k: m.constants.append(mm.ConstantPrimitive(k.name, "str", "x")))
        add("dupSymbol", f"dup-const-fn:{k.name}", lambda m, k=k: m.verification_functions.append(mm.PatternFn.simple(k.name, "^a$")))
    for f in base.verification_functions:
        add("dupSymbol", f"dup-fn-fn:{f.name}", lambda m, f=f: m.verification_functions.append(copy.deepcopy(f)))

    def two_new_consts(m: Any) -> None:
        m.constants.append(mm.ConstantPrimitive("Zz_added_constant", "str", "x"))
        m.constants.append(mm.ConstantPrimitive("Zz_added_constant", "int", 2))

    add("dupSymbol", "dup-new-const-twice:", two_new_consts)
    # ---- members of one class
    for n in with_props:
        for idx in sorted({0, len(base.cls(n).props) - 1}):
            add("dupProperty", f"dup-property:{n}.{idx}", lambda m, n=n, idx=idx: m.cls(n).props.append(copy.deepcopy(m.cls(n).props[idx])), "frozen")
        add("dupProperty", f"dup-property-other-type:{n}", lambda m, n=n: m.cls(n).props.append(mm.Prop(m.cls(n).props[0].name, O(P("bool")))), "frozen")
        add("memberClash", f"member-clash:{n}", lambda m, n=n: m.cls(n).methods.append(meth(m.cls(n).props[-1].name)), "frozen")

        def dup_and_clash(m: Any, n: str = n) -> None:
            c = m.cls(n)
            c.props.append(copy.deepcopy(c.props[0]))
            c.methods.append(meth(c.props[0].name))

        add("dupProperty", f"dup-property-and-clash:{n}", dup_and_clash, "frozen")  # the first error of the class wins
    for n in names:
        add("dupMethod", f"dup-method:{n}", lambda m, n=n: m.cls(n).methods.extend([meth("zz_compute"), meth("zz_compute")]))
    # ---- reserved names
    rt = sorted(x for x in T["reserved_type_names"] if x.isidentifier())
    rm = sorted(x for x in T["reserved_member_names"] if x.isidentifier())
    both = sorted(set(rt) | set(rm))

    def pick(xs: List[str], k: int) -> List[str]:
        return rng.sample(xs, min(k, len(xs)))

    for name in pick(rt, n_reserved) + ["class", "path", "error", "visitor", "for", "string"]:
        for v in _case_variants(name)[1:] or _case_variants(name):
            add("reservedTypeName", f"reserved-class-name:{v}", lambda m, v=v: m.classes.append(mm.Class(v)))
            add("reservedTypeName", f"reserved-enum-name:{v}", lambda m, v=v: m.enums.append(mm.Enum.of(v, [("Zz_lit_one", "one")])))
    for v in ("I_thing", "Must_thing", "I_", "Must_"):
        add("reservedTypePrefix", f"reserved-class-prefix:{v}", lambda m, v=v: m.classes.append(mm.Class(v)))
        add("reservedTypePrefix", f"reserved-enum-prefix:{v}", lambda m, v=v: m.enums.append(mm.Enum.of(v, [("Zz_lit_one", "one")])))
    for v in ("Is_thing", "Mustard", "Imust_thing", "Xi_thing"):
        add("valid", f"valid-class-name:{v}", lambda m, v=v: m.classes.append(mm.Class(v)))
    add("valid", "valid-reserved-literal-names:", lambda m: m.enums.append(mm.Enum.of("Zz_data_kinds", [("Boolean", "b"), ("Int", "i"), ("Class", "c"), ("String", "s")])))
    member_specials = ["mutable_x", "Mutable_thing", "MUTABLE", "mutablex"]
    method_specials = ["over_x_or_empty", "Over_XOrEmpty", "OVER_OR_EMPTY", "overorempty", "Over_thing_or_Empty"]
    for n in leaves[:2]:
        for name in pick(rm, n_reserved) + ["descend", "accept", "transform", "for"]:
            for v in _case_variants(name):
                add("reservedMethodName", f"reserved-method-name:{n}.{v}", lambda m, n=n, v=v: m.cls(n).methods.append(meth(v)))
        for v in member_specials + method_specials:
            add("reservedMethodName", f"reserved-method-affix:{n}.{v}", lambda m, n=n, v=v: m.cls(n).methods.append(meth(v)))
        for v in ("immutable_x", "over_x", "x_or_empty", "cover_x_or_empty", "remutable"):
            add("valid", f"valid-method-name:{n}.{v}", lambda m, n=n, v=v: m.cls(n).methods.append(meth(v)))
    for n in names[:3]:
        for name in pick(rm, n_reserved) + ["type_name", "model_type"]:
            for v in _case_variants(name):
                add("reservedPropertyName", f"reserved-property-name:{n}.{v}", lambda m, n=n, v=v: m.cls(n).props.append(mm.Prop(v, O(P("int")))), "derived")
        for v in member_specials:
            add("reservedPropertyName", f"reserved-property-affix:{n}.{v}", lambda m, n=n, v=v: m.cls(n).props.append(mm.Prop(v, P("str"))), "derived")
        for v in ("over_x_or_empty", "immutable_x", "Overorempty"):
            add("valid", f"valid-property-name:{n}.{v}", lambda m, n=n, v=v: m.cls(n).props.append(mm.Prop(v, O(P("int")))), "derived")
    for name in pick(both, n_reserved) + ["visitor", "descend", "path"]:
        for v in _case_variants(name):
            add("reservedConstantName", f"reserved-constant-name:{v}", lambda m, v=v: m.constants.append(mm.ConstantPrimitive(v, "str", "x")))
            add("reservedFunctionName", f"reserved-function-name:{v}", lambda m, v=v: m.verification_functions.append(mm.PatternFn.simple(v, "^a$")))
    add("valid", "valid-constant-name:", lambda m: m.constants.append(mm.ConstantPrimitive("Mutable_thing", "str", "x")))
    add("valid", "valid-function-name:", lambda m: m.verification_functions.append(mm.PatternFn.simple("over_x_or_empty", "^a$")))
    # ---- inherited members
    for child in with_bases:
        for k, a in enumerate(anc[child]):
            kind = "parent" if a in base.cls(child).bases else "grandparent"
            if base.cls(a).props:
                add("redeclaredProperty", f"redeclared-property-{kind}:{child}<{a}", lambda m, child=child, a=a: m.cls(child).props.append(copy.deepcopy(m.cls(a).props[0])), "frozen")
                add("redeclaredMethod", f"redeclared-method-vs-property-{kind}:{child}<{a}", lambda m, child=child, a=a: m.cls(child).methods.append(meth(m.cls(a).props[-1].name)), "frozen")

            def cross(m: Any, child: str = child, a: str = a) -> None:
                m.cls(a).methods.append(meth("zz_member"))
                m.cls(child).props.append(mm.Prop("zz_member", O(P("int"))))

            # "derived": the constructor of the child initialises the new property, so the re-declaration is the ONLY broken rule
            # (with a frozen constructor a front end that misses the re-declaration would still reject: not initialised)
            add("redeclaredProperty", f"redeclared-property-vs-method-{kind}:{child}<{a}", cross, "derived")

            def both_methods(m: Any, child: str = child, a: str = a) -> None:
                m.cls(a).methods.append(meth("zz_member"))
                m.cls(child).methods.append(meth("zz_member"))

            add("redeclaredMethod", f"redeclared-method-{kind}:{child}<{a}", both_methods, "frozen")
        if any(ctor0[a] is not None for a in anc[child]):
            add("ctorMissingInherited", f"ctor-missing-inherited:{child}", lambda m, child=child: m._no_init.add(child), "frozen")
    # ---- one property name from two different ancestors
    def dedupe_ctors(m: Any) -> None:
        """Explicit constructors, ancestors first, every argument name once (a twice-inherited name is passed to both parents)."""
        for c in m.classes:
            c.ctor = None
        for c in sorted(m.classes, key=lambda c: len(mm.ancestors(m, c.name))):
            ct = mm.default_ctor(m, c.name)
            if ct is not None:
                seen_args: Set[str] = set()
                ct.args = [a for a in ct.args if not (a.name in seen_args or seen_args.add(a.name))]
                ct.args = [a for a in ct.args if a.default is None] + [a for a in ct.args if a.default is not None]
            c.ctor = ct

    for n in names:
        ps = base.cls(n).bases
        for i, p1 in enumerate(ps):
            for p2 in ps[i + 1 :]:
                if p1 in anc[p2] or p2 in anc[p1]:
                    continue

                def clash_both(m: Any, p1: str = p1, p2: str = p2) -> None:
                    m.cls(p1).props.append(mm.Prop("zz_clash", P("int")))
                    m.cls(p2).props.append(mm.Prop("zz_clash", P("int")))
                    dedupe_ctors(m)

                add("inheritedClash", f"inherited-clash-two-parents:{n}<{p1},{p2}", clash_both, "derived")
                for g in anc[p1]:
                    if g not in anc[p2] and g != p2:
                        def clash_grand(m: Any, g: str = g, p2: str = p2) -> None:
                            m.cls(g).props.append(mm.Prop("zz_clash", O(P("str"))))
                            m.cls(p2).props.append(mm.Prop("zz_clash", O(P("str"))))
                            dedupe_ctors(m)

                        add("inheritedClash", f"inherited-clash-grandparent-and-parent:{n}<{g},{p2}", clash_grand, "derived")
                        break
        stacked_here = mm.all_props(base, n)
        for kind, cands in (("parent", [(p, o) for p, o in stacked_here if o in ps]), ("grandparent", [(p, o) for p, o in stacked_here if o != n and o not in ps]), ("own", [(p, o) for p, o in stacked_here if o == n])):
            if not cands:
                continue
            prop0 = cands[0][0]

            def other_parent(m: Any, n: str = n, prop0: Any = prop0) -> None:
                m.classes.append(mm.Class("Zz_other_parent", props=[mm.Prop(prop0.name, prop0.type)], abstract=True))
                m.cls(n).bases.append("Zz_other_parent")

            # own: the class itself declares the name again -> that is a redeclaration, not a clash between ancestors
            add("inheritedClash" if kind != "own" else "redeclaredProperty", f"inherited-clash-new-parent-vs-{kind}:{n}", other_parent, "frozen")
        roots_above = [a for a in anc[n] if not base.cls(a).bases and a not in ps]
        if roots_above:
            add("valid", f"valid-ancestor-reached-twice:{n}<{roots_above[0]}", lambda m, n=n, r=roots_above[0]: m.cls(n).bases.append(r), "derived")
    # ---- constructors
    for n in names:
        c0 = ctor0[n]
        if c0 is None:
            continue
        opt = [i for i, a in enumerate(c0.args) if isinstance(a.type, mm.OptionalOf)]
        req = [i for i, a in enumerate(c0.args) if not isinstance(a.type, mm.OptionalOf)]
        for i in opt[:2]:
            inner = c0.args[i].type.item
            dv = {"str": '""', "bool": "False", "float": "1.5"}.get(getattr(inner, "name", ""), "0") if isinstance(inner, mm.Prim) else "0"
            add("ctorDefault", f"ctor-default-not-none:{n}.{i}", lambda m, n=n, i=i, dv=dv: setattr(m.cls(n).ctor.args[i], "default", dv), "frozen")
        if opt:
            def drop_defaults(m: Any, n: str = n) -> None:
                for a in m.cls(n).ctor.args:
                    a.default = None

            add("ctorDefault", f"ctor-default-absent:{n}", drop_defaults, "frozen")
        if req:
            add("?", f"ctor-default-on-required:{n}", lambda m, n=n, i=req[-1]: setattr(m.cls(n).ctor.args[i], "default", "0"), "frozen")
        for grp, gname in ((req, "required"), (opt, "optional")):
            if len(grp) >= 2:
                def swap(m: Any, n: str = n, i: int = grp[0], j: int = grp[1]) -> None:
                    args = m.cls(n).ctor.args
                    args[i], args[j] = args[j], args[i]

                add("ctorArgOrder", f"ctor-order-swap-{gname}:{n}", swap, "frozen-kw")
                if len(grp) >= 3:
                    def swap_last(m: Any, n: str = n, i: int = grp[0], j: int = grp[-1]) -> None:
                        args = m.cls(n).ctor.args
                        args[i], args[j] = args[j], args[i]

                    add("ctorArgOrder", f"ctor-order-swap-far-{gname}:{n}", swap_last, "frozen-kw")
        # types
        for i, a in list(enumerate(c0.args))[:4]:
            t = a.type
            core = t.item if isinstance(t, mm.OptionalOf) else t
            if isinstance(core, mm.Prim):
                new_core: Any = P("int") if core.name != "int" else P("str")
            elif isinstance(core, mm.ListOf):
                new_core = L(P("bool")) if core.item != P("bool") else L(P("int"))
            else:
                new_core = P("float")
            new_t = O(new_core) if isinstance(t, mm.OptionalOf) else new_core
            add("ctorArgType", f"ctor-type-core:{n}.{i}", lambda m, n=n, i=i, new_t=new_t: setattr(m.cls(n).ctor.args[i], "type", new_t), "frozen")
            if isinstance(t, mm.OptionalOf):
                add("ctorArgType", f"ctor-type-optional-to-required:{n}.{i}", lambda m, n=n, i=i, core=core: setattr(m.cls(n).ctor.args[i], "type", core), "frozen")
            else:
                add("ctorArgType", f"ctor-type-required-to-optional:{n}.{i}", lambda m, n=n, i=i, t=t: setattr(m.cls(n).ctor.args[i], "type", O(t)), "frozen")
        add("ctorArgNames", f"ctor-extra-argument:{n}" if n in leaves else f"ctor-extra-argument-inner:{n}", lambda m, n=n, k=len(req): m.cls(n).ctor.args.insert(k, mm.Arg("zz_surplus", P("int"))), "frozen" if n in leaves else "skip")
        if n in leaves and base.cls(n).props:
            own = base.cls(n).props[0].name

            def rename_arg(m: Any, n: str = n, own: str = own) -> None:
                c = m.cls(n).ctor
                for a in c.args:
                    if a.name == own:
                        a.name = own + "_renamed"
                c.assigns = [(p, v) for p, v in c.assigns if p != own]

            def drop_arg(m: Any, n: str = n, own: str = own) -> None:
                c = m.cls(n).ctor
                c.args = [a for a in c.args if a.name != own]
                c.assigns = [(p, v) for p, v in c.assigns if p != own]

            add("ctorPropInit", f"ctor-rename-argument:{n}", rename_arg, "frozen")
            add("ctorPropInit", f"ctor-drop-argument:{n}", drop_arg, "frozen")
            add("ctorMissing", f"ctor-missing:{n}", lambda m, n=n: m._no_init.add(n), "frozen")
    # ---- type shapes and dangling types: a new property, constructors derived
    shapes = [
        ("nestedOptional", O(O(P("int")))),
        ("nestedOptional", O(O(O(P("str"))))),
        ("listOfOptional", L(O(P("str")))),
        ("listOfOptional", L(L(O(P("int"))))),
        ("listOfOptional", O(L(O(P("str"))))),
        ("listOfOptional", O(L(L(O(P("float")))))),
        (frozenset(["nestedOptional", "listOfOptional"]), L(O(O(P("int"))))),
        (frozenset(["nestedOptional", "listOfOptional"]), O(L(O(O(P("bool")))))),
        ("valid", O(L(L(P("int"))))),
        ("valid", L(L(P("str")))),
        ("valid", O(L(P("bytes")))),
        ("danglingType", R("Nonexistent_type")),
        ("danglingType", L(R("Nonexistent_type"))),
        ("danglingType", O(L(R("Nonexistent_type")))),
        (frozenset(["danglingType", "listOfOptional"]), L(O(R("Nonexistent_type")))),
    ]
    for n in names:
        for k, (rule, t) in enumerate(shapes):
            tag = "shape" if rule != "danglingType" else "dangling-type"
            add(rule, f"{tag}-{k}:{n}", lambda m, n=n, t=t: m.cls(n).props.append(mm.Prop("zz_shape", t)), "derived")
    if base.enums:
        en = base.enums[0].name
        for n in names[:2]:
            add("valid", f"valid-enum-typed-property:{n}", lambda m, n=n, en=en: m.cls(n).props.append(mm.Prop("zz_kind", O(R(en)))), "derived")
    # ---- documentation references
    some_cls = names[0] if names else None
    bad_refs = [
        ("danglingDocClass", ":class:`Nonexistent_type`"),
        ("danglingDocClass", ":class:`~Nonexistent_type`"),
        ("danglingDocConst", ":const:`Nonexistent_constant`"),
        ("danglingDocAttr", ":attr:`nonexistent_attr`"),
        ("danglingDocAttr", ":attr:`Nonexistent_type.some_attr`"),
    ]
    if some_cls:
        bad_refs.append(("danglingDocAttr", f":attr:`{some_cls}.nonexistent_attr`"))
        bad_refs.append(("danglingDocAttr", f":attr:`~{some_cls}.nonexistent_attr`"))
        bad_refs.append(("danglingDocConst", f":const:`{some_cls}`"))
    if base.constants:
        bad_refs.append(("danglingDocClass", f":class:`{base.constants[0].name}`"))
    if base.verification_functions:
        bad_refs.append(("danglingDocClass", f":class:`{base.verification_functions[0].name}`"))

    def text_with(ref: str) -> str:
        return f"Represent something, see {ref}."

    def fn_text(ref: str) -> str:
        return f"Check that :paramref:`text` is fine, see {ref}.\n\n:param text: to be checked\n:returns: True if it is fine"

    def positions(ref: str) -> List[Tuple[str, Callable[[Any], None], str, Optional[str]]]:
        """(position name, fn, mode, scope kind) for a reference text."""
        ps: List[Tuple[str, Callable[[Any], None], str, Optional[str]]] = []
        for n in names[:3]:
            ps.append((f"class:{n}", lambda m, n=n: setattr(m.cls(n), "description", text_with(ref)), "any", "class"))
        for n in with_props[:2]:
            ps.append((f"property:{n}", lambda m, n=n: setattr(m.cls(n).props[0], "description", text_with(ref)), "any", "class"))
        for n in leaves[:1]:
            ps.append((f"method:{n}", lambda m, n=n: m.cls(n).methods.append(meth("zz_documented", f"Compute something, see {ref}.\n\n:returns: True if fine")), "any", "class"))

        def enum_desc(m: Any) -> None:
            m.enums.append(mm.Enum("Zz_documented_enum", [mm.EnumLiteral("Zz_lit_one", "one")], text_with(ref)))

        def lit_desc(m: Any) -> None:
            m.enums.append(mm.Enum("Zz_documented_enum", [mm.EnumLiteral("Zz_lit_one", "one", text_with(ref))]))

        ps.append(("enum:", enum_desc, "any", "enum"))
        ps.append(("literal:", lit_desc, "any", "enum"))
        ps.append(("function:", lambda m: m.verification_functions.append(mm.PatternFn.simple("zz_matches_documented", "^a$", description=fn_text(ref))), "any", None))
        ps.append(("constant:", lambda m: m.constants.append(mm.ConstantPrimitive("Zz_documented_constant", "str", "x", text_with(ref))), "any", None))
        ps.append(("constant-set:", lambda m: m.constant_sets.append(mm.ConstantSet("Zz_documented_set", "str", ["a", "b"], [], text_with(ref))), "any", None))
        ps.append(("meta-model:", lambda m: setattr(m, "description", text_with(ref)), "any", None))
        return ps

    for rule, ref in bad_refs:
        for pos, fn, mode, _scope in positions(ref):
            add(rule, f"doc-{rule}-{pos.split(':')[0]}:{ref}@{pos}", fn, mode)
    # valid references
    good_refs: List[str] = []
    if some_cls:
        good_refs += [f":class:`{some_cls}`", f":class:`~{some_cls}`"]
    for n in with_props[:2]:
        good_refs.append(f":attr:`{n}.{base.cls(n).props[0].name}`")
        good_refs.append(f":attr:`~{n}.{base.cls(n).props[-1].name}`")
    for n in with_bases[:2]:
        inh = [p for p, owner in mm.all_props(base, n) if owner != n]
        if inh:
            good_refs.append(f":attr:`{n}.{inh[0].name}`")
    for e in base.enums[:1]:
        good_refs.append(f":class:`{e.name}`")
        if e.literals:
            good_refs.append(f":attr:`{e.name}.{e.literals[-1].name}`")
    for k in (list(base.constants) + list(base.constant_sets))[:1]:
        good_refs.append(f":const:`{k.name}`")
    for ref in good_refs:
        for pos, fn, mode, _scope in positions(ref):
            add("valid", f"doc-valid-{pos.split(':')[0]}:{ref}@{pos}", fn, mode)
    # bare attribute references: valid only inside the type that has the attribute
    for n in names[:4]:
        stacked = mm.all_props(base, n)
        own_or_inh = [p.name for p, _ in stacked]
        for pname in own_or_inh[:1] + own_or_inh[-1:]:
            add("valid", f"doc-valid-bare-attr:{n}.{pname}", lambda m, n=n, pname=pname: setattr(m.cls(n), "description", text_with(f":attr:`{pname}`")))
            for pos, fn, mode, scope in positions(f":attr:`{pname}`"):
                if scope is None:
                    add("danglingDocAttr", f"doc-bare-attr-without-scope-{pos.split(':')[0]}:{pname}@{pos}", fn, mode)
        below = [p.name for d in desc[n] for p in base.cls(d).props if p.name not in own_or_inh]
        if below:
            add("danglingDocAttr", f"doc-attr-of-descendant:{n}.{below[0]}", lambda m, n=n, b=below[0]: setattr(m.cls(n), "description", text_with(f":attr:`{b}`")))
    for n in leaves[:1]:
        def method_as_attr(m: Any, n: str = n) -> None:
            m.cls(n).methods.append(meth("zz_some_method"))
            m.cls(n).description = text_with(":attr:`zz_some_method`")

        add("danglingDocAttr", f"doc-attr-names-method:{n}", method_as_attr)

    def lit_refs(m: Any, good: bool) -> None:
        lit = "Zz_lit_one" if good else "Zz_lit_none"
        m.enums.append(mm.Enum("Zz_documented_enum", [mm.EnumLiteral("Zz_lit_one", "one"), mm.EnumLiteral("Zz_lit_two", "two", text_with(f":attr:`{lit}`"))], text_with(f":attr:`{lit}`")))

    add("valid", "doc-valid-bare-literal:", lambda m: lit_refs(m, True))
    add("danglingDocAttr", "doc-bare-literal-dangling:", lambda m: lit_refs(m, False))
    # ---- patterns
    PV = mm.PVar
    pats: List[Tuple[Any, str]] = [
        # accepted by Python's ``re``, outside of the regex dialect the project supports
        ("patternInvalid", "^(?:a)$"), ("patternInvalid", "^(?P<n>a)$"), ("patternInvalid", "^(?=a)a$"), ("patternInvalid", "^\\d+$"),
        ("patternInvalid", "^[\\d]$"), ("patternInvalid", "^\\w$"), ("patternInvalid", "^\\s$"), ("patternInvalid", "^(a)\\1$"), ("patternInvalid", "^\\bA$"),
        ("patternInvalid", "\\d"), ("patternInvalid", "(?:a)|b"),
        # refused by Python's ``re`` already (an earlier pass of the front end, un-modelled: only oracle and verdict count)
        ("?", "^(a$"), ("?", "^a)$"), ("?", "^[a$"), ("?", "^a**$"), ("?", "^a{2,1}$"), ("?", "^*a$"),
        # dialect corner cases on which the oracle has no opinion of its own
        ("?", "^\\|$"), ("?", "^[]|]$"), ("?", "^a{,2}$"), ("?", "^\\-$"), ("?", "^{$"), ("?", "^\\/$"),
        ("patternNotAnchored", "^a$|^b$"), ("patternNotAnchored", "^a\\$"), ("patternNotAnchored", "(^a$)"), ("patternNotAnchored", "^"),
        ("patternNotAnchored", "$^"), ("patternNotAnchored", "^a|b$"), ("patternNotAnchored", "^a$b"), ("patternNotAnchored", "a"),
        ("patternNotAnchored", "a$"), ("patternNotAnchored", "^a"), ("patternNotAnchored", "$"), ("patternNotAnchored", "^a[$]"), ("patternNotAnchored", "[\\^]a$"),
        ("valid", "^(a|b)$"), ("valid", "^a$"), ("valid", "^$"), ("valid", "^[|]$"), ("valid", "^a\\\\$"), ("valid", "^[a-z]+$"),
        ("valid", "^(a|(b|c))*$"), ("valid", "^[$^]+$"),
    ]
    for k, (rule, pat) in enumerate(pats):
        for style in ("fstring", "plain", "inline"):
            if style != "fstring" and k % 3 != 0:
                continue
            add(rule, f"pattern-{'dialect' if rule == '?' else rule}-{style}:{pat}", lambda m, pat=pat, style=style: m.verification_functions.append(mm.PatternFn("zz_matches_added", parts=(pat,), style=style)))
    for style in ("fstring", "plain", "inline"):
        add("patternEmpty", f"pattern-empty-{style}:", lambda m, style=style: m.verification_functions.append(mm.PatternFn("zz_matches_added", parts=("",), style=style)))
    var_pats: List[Tuple[Any, str, Any]] = [
        ("valid", "anchors-in-variables", mm.PatternFn("zz_matches_added", parts=(PV("start"), "a", PV("end")), variables=[("start", ("^",)), ("end", ("$",))])),
        ("valid", "group-in-variable", mm.PatternFn("zz_matches_added", parts=("^", PV("alt"), "$"), variables=[("alt", ("(a|b)",))])),
        ("valid", "nested-variables", mm.PatternFn("zz_matches_added", parts=(PV("whole"),), variables=[("core", ("[a-z]",)), ("whole", ("^", PV("core"), "+$"))])),
        ("patternNotAnchored", "union-in-variable", mm.PatternFn("zz_matches_added", parts=("^", PV("body")), variables=[("body", ("a|b$",))])),
        ("patternNotAnchored", "escaped-end-in-variable", mm.PatternFn("zz_matches_added", parts=("^a", PV("end")), variables=[("end", ("\\$",))])),
        ("patternEmpty", "empty-variable", mm.PatternFn("zz_matches_added", parts=(PV("nothing"),), variables=[("nothing", ("",))])),
        ("patternNotAnchored", "inline-with-variable", mm.PatternFn("zz_matches_added", parts=(PV("body"), "$"), variables=[("body", ("a",))], style="inline")),
    ]
    for rule, what, fnv in var_pats:
        add(rule, f"pattern-variables-{what}:", lambda m, fnv=fnv: m.verification_functions.append(copy.deepcopy(fnv)))
    # ---- invariant descriptions
    D1 = "A description used more than once."
    for n in names:
        add("dupInvariantDescription", f"dup-invariant-same-class:{n}", lambda m, n=n: m.cls(n).invariants.extend([mm.Invariant(D1, taut(0)), mm.Invariant(D1, taut(1))]))
        if base.cls(n).invariants:
            add("dupInvariantDescription", f"dup-invariant-existing:{n}", lambda m, n=n: m.cls(n).invariants.append(mm.Invariant(m.cls(n).invariants[0].description, taut(0))))
    for child in with_bases:
        for a in anc[child]:
            kind = "parent" if a in base.cls(child).bases else "grandparent"

            def inh(m: Any, child: str = child, a: str = a) -> None:
                m.cls(a).invariants.append(mm.Invariant(D1, taut(0)))
                m.cls(child).invariants.append(mm.Invariant(D1, taut(1)))

            add("dupInvariantDescription", f"dup-invariant-{kind}:{child}<{a}", inh)
            if base.cls(a).invariants:
                add("dupInvariantDescription", f"dup-invariant-existing-{kind}:{child}<{a}", lambda m, child=child, a=a: m.cls(child).invariants.insert(0, mm.Invariant(m.cls(a).invariants[-1].description, taut(0))))
    roots = [n for n in names if not base.cls(n).bases]

    def on_roots(m: Any) -> None:
        for k, r in enumerate(roots):
            m.cls(r).invariants.append(mm.Invariant(f"An invariant added to the root number {k}.", taut(k)))

    add("valid", "valid-invariant-on-every-root:", on_roots)
    for i, a in enumerate(names):
        for b in names[i + 1 :]:
            if a in anc[b] or b in anc[a]:
                continue
            common = [d for d in names if a in anc[d] and b in anc[d]]

            def sib(m: Any, a: str = a, b: str = b) -> None:
                m.cls(a).invariants.append(mm.Invariant(D1, taut(0)))
                m.cls(b).invariants.append(mm.Invariant(D1, taut(1)))

            if common:
                add("dupInvariantDescription", f"dup-invariant-meets-in-descendant:{a},{b}", sib)
            else:
                add("valid", f"valid-invariant-unrelated-classes:{a},{b}", sib)
    return [e for e in out if e[2] != "skip"]


def removed_reserved_entries(base: Any, frozen: Dict[str, Any], current: Dict[str, Any]) -> List[Entry]:
    """
    Mutators using every reserved name (and affix) of the frozen tables that the source under test no longer has:
    empty on the pinned tree; after a deletion in the source the front end accepts these and the oracle objects.
    """
    mm = _mm()
    out: List[Entry] = []
    names = [c.name for c in base.classes]
    leaf = [n for n in names if not mm.descendants(base, n)][0]
    P, O = mm.Prim, mm.OptionalOf

    def meth(name: str) -> Any:
        return mm.Method(name, [], P("bool"), impl_specific=True)

    gone_t = sorted(frozen["reserved_type_names"] - current["reserved_type_names"])
    gone_m = sorted(frozen["reserved_member_names"] - current["reserved_member_names"])
    for name in gone_t:
        for v in (_case_variants(name)[1:] or _case_variants(name))[:1]:
            out.append(("reservedTypeName", f"removed-reserved-class-name:{v}", "any", lambda m, v=v: m.classes.append(mm.Class(v))))
            out.append(("reservedTypeName", f"removed-reserved-enum-name:{v}", "any", lambda m, v=v: m.enums.append(mm.Enum.of(v, [("Zz_lit_one", "one")]))))
    for name in gone_m:
        for v in _case_variants(name)[:1]:
            out.append(("reservedMethodName", f"removed-reserved-method-name:{v}", "any", lambda m, v=v: m.cls(leaf).methods.append(meth(v))))
            out.append(("reservedPropertyName", f"removed-reserved-property-name:{v}", "derived", lambda m, v=v: m.cls(leaf).props.append(mm.Prop(v, O(P("int"))))))
    for name in sorted(set(gone_t) & set(gone_m)):
        # constants and functions are checked against the union of both tables
        for v in _case_variants(name)[:1]:
            out.append(("reservedConstantName", f"removed-reserved-constant-name:{v}", "any", lambda m, v=v: m.constants.append(mm.ConstantPrimitive(v, "str", "x"))))
            out.append(("reservedFunctionName", f"removed-reserved-function-name:{v}", "any", lambda m, v=v: m.verification_functions.append(mm.PatternFn.simple(v, "^a$"))))
    for pre in frozen["type_prefixes"]:
        if pre not in current["type_prefixes"]:
            out.append(("reservedTypePrefix", f"removed-reserved-type-prefix:{pre}", "any", lambda m, pre=pre: m.classes.append(mm.Class(pre + "thing"))))
    if frozen["member_prefix"] != current["member_prefix"]:
        v = frozen["member_prefix"] + "_x"
        out.append(("reservedMethodName", f"removed-reserved-member-prefix:{v}", "any", lambda m, v=v: m.cls(leaf).methods.append(meth(v))))
        out.append(("reservedPropertyName", f"removed-reserved-member-prefix-property:{v}", "derived", lambda m, v=v: m.cls(leaf).props.append(mm.Prop(v, O(P("int"))))))
    for suf in frozen["over_suffixes"]:
        if suf not in current["over_suffixes"] or frozen["over_prefix"] != current["over_prefix"]:
            v = frozen["over_prefix"] + "_x_" + suf
            out.append(("reservedMethodName", f"removed-reserved-over-suffix:{v}", "any", lambda m, v=v: m.cls(leaf).methods.append(meth(v))))
    return out


def build(base: Any, entries: Sequence[Entry]) -> Optional[Any]:
    """Apply mutators to one clone of ``base``; None if their constructor modes are incompatible."""
    modes = {e[2] for e in entries} - {"any"}
    if len(modes) > 1:
        return None
    mode = modes.pop() if modes else "frozen"
    m = clone(base, freeze=(mode != "derived"), kw=(mode == "frozen-kw"))
    for e in entries:
        e[3](m)
    return m


def kind_of(label: str) -> str:
    return label.split(":", 1)[0]


def select(entries: List[Entry], rng: Any, per_kind: Optional[int]) -> List[Entry]:
    """At most ``per_kind`` sites of every mutator kind (None = all), chosen with ``rng``."""
    if per_kind is None:
        return list(entries)
    groups: Dict[str, List[Entry]] = {}
    for e in entries:
        groups.setdefault(kind_of(e[1]), []).append(e)
    out: List[Entry] = []
    for k in sorted(groups):
        g = groups[k]
        out.extend(g if len(g) <= per_kind else rng.sample(g, per_kind))
    return out


# =========================================================================== base models


def enrich(m: Any, variant: int = 0) -> Any:
    """Give a bare hierarchy model the other ingredients of a meta-model (deterministic)."""
    mm = _mm()
    O, L, P, R = mm.OptionalOf, mm.ListOf, mm.Prim, mm.Ref
    m.enums.append(mm.Enum("Kind_of_thing", [mm.EnumLiteral("Lit_first", "first", "Represent the first literal."), mm.EnumLiteral("Lit_second", "second")], "Represent a kind, see :attr:`Lit_first`."))
    m.constants.append(mm.ConstantPrimitive("Limit_of_things", "int", 10, "Represent a limit."))
    m.constant_sets.append(mm.ConstantSet("Known_words", "str", ["a", "b"], [], "Represent the known words, see :const:`Limit_of_things`."))
    m.verification_functions.append(
        mm.PatternFn.simple("matches_word", "^[a-z]+$", description="Check that :paramref:`text` is a word.\n\n:param text: to be checked\n:returns: True if it matches")
    )
    m.verification_functions.append(mm.TranspilableFn("is_small", [mm.Arg("value", P("int"))], P("bool"), [mm.Return(mm.Comparison(mm.Name("value"), "<", mm.Constant(10)))]))
    if m.order is not None:
        m.order = ["Kind_of_thing"] + list(m.order)
    letters = "abcdefghijklmnopqrstuvwxyz"
    for i, c in enumerate(m.classes):
        ch = letters[i]
        c.props.append(mm.Prop(f"o_{ch}", O(P("int")), f"Represent an optional number of :class:`{c.name}`." if (i + variant) % 2 == 0 else None))
        if (i + variant) % 3 == 0:
            c.props.append(mm.Prop(f"l_{ch}", L(P("float"))))
        if (i + variant) % 3 == 1:
            c.props.append(mm.Prop(f"k_{ch}", O(R("Kind_of_thing")), "Represent the kind, see :attr:`Kind_of_thing.Lit_second`."))
        if (i + variant) % 2 == 1:
            c.props.append(mm.Prop(f"q_{ch}", O(L(P("str")))))
        c.description = f"Represent the class number {i}, see :attr:`{c.props[0].name}` and :class:`Kind_of_thing`."
    m.description = "Represent a small meta-model around :class:`Klass_a`."
    return m


def fixed_models() -> List[Tuple[str, Any]]:
    """Hand-picked hierarchies on which the whole mutator catalogue runs (seed independent)."""
    mm = _mm()
    shapes = {
        "single": ((),),
        "chain3": ((), (0,), (1,)),
        "diamond": ((), (0,), (0,), (1, 2)),
        "forest": ((), (), (0, 1), (2,)),
        "fork": ((), (0,), (0,), ()),
    }
    out = []
    for k, (name, parents) in enumerate(shapes.items()):
        n = len(parents)
        h = mm.Hierarchy(parents=parents, abstract=tuple(i == 0 and n > 1 for i in range(n)), order=tuple(range(n)), mro_legal=True)
        out.append((name, enrich(mm.hierarchy_to_mm(h), k)))
    return out


#: (kind of the member in the ancestor, kind of the member of the same name in the descendant, broken rule)
MEMBER_ORDER_KINDS = [
    ("method", "property", "redeclaredProperty"),
    ("property", "method", "redeclaredMethod"),
    ("method", "method", "redeclaredMethod"),
    ("property", "property", "redeclaredProperty"),
]
_CHILD_LAYOUTS = ["PMI", "IPM", "MIP"]


def member_order_models(thorough: bool) -> List[Tuple[str, str, str, Dict[str, Any]]]:
    """
    ``(label, source, expected rule | "valid", A)`` — seed independent.

    An inherited member declared again, across kinds (method -> property, property -> method, and the same kind), across
    distance (every pair descendant < ancestor of a chain, a diamond and a two-parent forest: parent, grandparent, the top
    and the arms of a diamond, the second of two unrelated parents) and for every ORDER of the members in the ancestor and
    in the descendant: the member first / last of its kind, before / after ``__init__``, first / last member of the class
    body (``LAYOUTS``).  Only the re-declaration rule is broken (the constructors fit), except property -> property, where
    the name occurs twice among the stacked properties.  The designed expectation of every model is "rejected" with the
    rule of its kind; the look-alikes (another name in the descendant; the same name in a sibling) are valid.

    Quick: all 16 (position x ancestor layout) combinations x 4 kinds on one parent pair, 2 rotating combinations (1 for the
    same-kind pairs) for every other (pair, kind); thorough: all 48 combinations for the cross-kind pairs, 12 for the others.
    """
    mm = _mm()
    P, O = mm.Prim, mm.OptionalOf
    fm = dict(fixed_models())

    def meth(name: str) -> Any:
        return mm.Method(name, [], P("bool"), impl_specific=True)

    combos = [(tpos, la, lc) for tpos in ("first", "last") for la in LAYOUTS for lc in _CHILD_LAYOUTS]
    out: List[Tuple[str, str, str, Dict[str, Any]]] = []
    k = 0
    for sname in ("chain3", "diamond", "forest"):
        base = fm[sname]
        for child in [c.name for c in base.classes]:
            for a in mm.ancestors(base, child):
                full = k < len(MEMBER_ORDER_KINDS)  # the first pair: a parent and its child in the chain
                for ak, ck, rule in MEMBER_ORDER_KINDS:
                    if thorough:
                        chosen = combos if ak != ck else combos[k % 4 :: 4]
                    elif full:
                        chosen = [(tpos, la, _CHILD_LAYOUTS[(i + k) % 3]) for i, (tpos, la) in enumerate((t, l) for t in ("first", "last") for l in LAYOUTS)]
                    else:
                        chosen = [combos[(5 * k + 17 * j) % len(combos)] for j in range(2 if ak != ck else 1)]
                    k += 1
                    for tpos, la, lc in chosen:
                        m = clone(base, freeze=(ak == "property" and ck == "property"))
                        A, C = m.cls(a), m.cls(child)
                        if ak == "method":
                            tname = "zz_member"
                            A.methods.extend([meth("zz_other"), meth(tname)] if tpos == "last" else [meth(tname), meth("zz_other")])
                        else:
                            tname = A.props[0].name if tpos == "first" else A.props[-1].name
                            A.methods.append(meth("zz_other"))
                        if ck == "method":
                            C.methods.extend([meth("zz_own"), meth(tname)] if tpos == "last" else [meth(tname), meth("zz_own")])
                        elif ak == "property":
                            C.props.append(copy.deepcopy([p for p in A.props if p.name == tname][0]))
                        else:
                            C.props.append(mm.Prop(tname, O(P("int"))))
                        text = relayout(render_mm(m), {a: la, child: lc})
                        out.append((f"member-order-{ak}-to-{ck}:{sname}:{child}<{a}:{tpos}:{la}:{lc}", text, rule, abstract(m)))
    # ---- valid look-alikes: another name in the descendant; the same name in a sibling (no common descendant); plain bases
    for i, la in enumerate(LAYOUTS):
        base = fm["chain3"]
        names = [c.name for c in base.classes]
        m = clone(base, freeze=False)
        m.cls(names[0]).methods.extend([meth("zz_other"), meth("zz_member")])
        m.cls(names[-1]).props.append(mm.Prop("zz_member_too", O(P("int"))))
        m.cls(names[-1]).methods.append(meth("zz_other_too"))
        out.append((f"member-order-valid-other-name:chain3:{la}", relayout(render_mm(m), la), "valid", abstract(m)))
        base = fm["fork"]
        names = [c.name for c in base.classes]
        m = clone(base, freeze=False)
        m.cls(names[1]).methods.extend([meth("zz_member"), meth("zz_other")])
        m.cls(names[2]).props.append(mm.Prop("zz_member", O(P("int"))))
        m.cls(names[3]).methods.append(meth(m.cls(names[0]).props[0].name))  # the unrelated root: a method named like a property elsewhere
        out.append((f"member-order-valid-sibling:fork:{la}", relayout(render_mm(m), la), "valid", abstract(m)))
        base = fm["diamond"]
        m = clone(base, freeze=False)
        for j, c in enumerate(m.classes):
            if j > 0:  # a method of the top of a diamond can not be inherited over both arms (a check outside of C06)
                c.methods.append(meth(f"zz_m{j}"))
        out.append((f"member-order-valid-base:diamond:{la}", relayout(render_mm(m), la), "valid", abstract(m)))
    return out


def c06_features() -> Any:
    mm = _mm()
    ft = mm.Features()
    ft.constrained_primitives = False
    ft.impl_specific = False
    return ft


# =========================================================================== judging


def impl_run(text: str) -> Dict[str, Any]:
    mm = _mm()
    r = mm.load(text)
    if r.crash:
        return {"verdict": "crash", "crash": r.crash, "rules": set(), "error": (r.traceback or "")[-400:], "traceback": r.traceback or ""}
    if r.ok:
        return {"verdict": "accepted", "rules": set(), "error": None}
    return {"verdict": "rejected", "rules": classify(r.error or ""), "error": r.error}


def _split(rules: Set[str]) -> Tuple[Set[str], Set[str], Set[str]]:
    modelled = {r for r in rules if ":" not in r}
    unmodelled = {r for r in rules if r.startswith("unmodelled:")}
    other = {r for r in rules if r.startswith("other:")}
    return modelled, unmodelled, other


def _parse_model(ans: str) -> Optional[Set[str]]:
    if ans == "ok":
        return set()
    ids = set(ans.split(","))
    if ans == "bad-op" or not ids <= set(RULE_IDS):
        return None
    return ids


def known_crash_family(A: Optional[Dict[str, Any]], flags: Set[str], impl: Dict[str, Any]) -> Optional[str]:
    """Crash families that other property checks own (not C06 failures); None for any other crash."""
    if A is not None and any(c["ctor"] and len({a["name"] for a in c["ctor"]}) != len(c["ctor"]) for c in A["classes"]):
        return "duplicate-constructor-argument"
    if "duplicate-enum-literal" in flags:
        return "duplicate-enum-literal"
    tb = impl.get("traceback", "")
    if impl.get("crash") == "crash:AssertionError" and "_verify_all_properties_are_initialized_in_the_constructor" in tb:
        return "constructor-argument-of-ancestor-missing"
    return None


#: un-modelled messages a *strict* stream (my own mutants) may provoke on purpose
_EXPECTED_UNMODELLED = {"unmodelled:reCompile"}


class _Batch:
    """Inputs are collected, run on the implementation and the oracle at once, the model in one driver call."""

    def __init__(self, ctx: Ctx, with_model: bool) -> None:
        self.ctx = ctx
        self.with_model = with_model
        self.items: List[Dict[str, Any]] = []
        self.tables = frozen_tables()

    def add(self, stream: str, source: str, rule: Any = None, label: str = "", A: Optional[Dict[str, Any]] = None, strict: bool = True, expect: Optional[Sequence[str]] = None) -> None:
        self.items.append({"stream": stream, "source": source, "rule": rule, "label": label, "A": A, "strict": strict, "expect": expect})

    def run(self) -> None:
        ctx = self.ctx
        lines: List[str] = []
        for it in self.items:
            it["impl"] = impl_run(it["source"])
            try:
                it["Ax"], it["flags"] = extract_ex(it["source"])
            except Unsupported as e:
                it["Ax"], it["flags"] = None, set()
                ctx.hit("skipped:extract:" + str(e).split(":")[0][:30])
            it["oracle"] = oracle_rules(it["Ax"], self.tables) if it["Ax"] is not None else None
            if it["Ax"] is not None and self.with_model:
                it["line"] = len(lines)
                lines.append("check " + wire(it["Ax"]))
        answers = ctx.model(lines) if (self.with_model and lines) else []
        for k, it in enumerate(self.items):
            self.judge(k, it, answers[it["line"]] if "line" in it else None)
        self.items = []

    def judge(self, k: int, it: Dict[str, Any], answer: Optional[str]) -> None:
        ctx = self.ctx
        src, stream, rule, impl, oracle, flags = it["source"], it["stream"], it["rule"], it["impl"], it["oracle"], it["flags"]
        inp = {"source": src, "rule": sorted(rule) if isinstance(rule, frozenset) else rule, "mutator": it["label"]}
        nontrivial = rule is not None and rule != "valid"
        ctx.count(src, nontrivial=True, stream=stream)
        ctx.hit("verdict:" + impl["verdict"])
        if impl["verdict"] == "crash":
            ctx.hit(impl["crash"] + "@" + (kind_of(it["label"]) or stream))
        rules = set(impl["rules"])
        if "dangling-non-property-type" in flags and "danglingType" in rules:
            # "Our type could not be found" about a method signature / constructor argument / constant set: not in ``A``
            rules = (rules - {"danglingType"}) | {"unmodelled:danglingNonPropertyType"}
        modelled, unmodelled, other = _split(rules)
        for r in sorted(modelled | unmodelled | other):
            ctx.hit(("rule:" + r) if r in modelled else r)
        if it["label"]:
            ctx.hit("mutator:" + kind_of(it["label"]))
        if k % 211 == 0 or (nontrivial and k % 97 == 0):
            ctx.sample({"stream": stream, "mutator": it["label"], "impl": impl["verdict"], "impl_rules": sorted(rules), "oracle": sorted(oracle) if oracle is not None else None, "model": answer, "source_tail": src[-300:]}, cap=16)
        # ---- round trip of the abstraction
        if it["A"] is not None and it["Ax"] is not None and it["A"] != it["Ax"]:
            diff = [key for key in it["A"] if it["A"][key] != it["Ax"][key]]
            ctx.disagree("roundtrip", inp, {"abstract": {d: it["A"][d] for d in diff}}, {"extract": {d: it["Ax"][d] for d in diff}})
        if it["A"] is not None and it["Ax"] is None:
            ctx.disagree("roundtrip", inp, "abstract() succeeded", "extract() does not support the rendered text")
        if it["A"] is not None and flags - {"duplicate-enum-literal"}:
            ctx.disagree("roundtrip", inp, "a generated model", {"flags": sorted(flags)})
        if oracle is None:
            return
        # ---- the property itself: accepted only if no rule is broken; a broken rule is answered with an error report
        if impl["verdict"] == "accepted" and oracle:
            first = sorted(oracle)[0]
            ctx.fail({"source": src}, f"the front end accepts the meta-model although it breaks: {', '.join(sorted(oracle))}", sig=f"C06:accepted-despite:{first}")
        if impl["verdict"] == "crash":
            known = known_crash_family(it["Ax"], flags, impl)
            if known is not None:
                ctx.hit("crash-known:" + known)
            elif oracle:
                first = sorted(oracle)[0]
                ctype = impl["crash"].split(":", 1)[-1]
                ctx.fail({"source": src}, f"the front end crashes ({impl['crash']}) instead of reporting an error on a meta-model that breaks: {', '.join(sorted(oracle))}", sig=f"C06:crash-instead-of-error:{first}:{ctype}")
            else:
                ctx.hit("crash-without-broken-rule:" + impl["crash"])
        # ---- sanity of the generators (harness side)
        if rule == "valid" and (oracle or impl["verdict"] != "accepted") and it["strict"]:
            ctx.disagree("mutator-valid", inp, {"impl": impl["verdict"], "impl_rules": sorted(rules), "error": (impl["error"] or "")[-300:]}, {"oracle": sorted(oracle)})
        if isinstance(rule, str) and rule in RULE_IDS and rule not in oracle:
            ctx.disagree("mutator-misses-its-rule", inp, sorted(oracle), rule)
        if isinstance(rule, frozenset) and not rule <= oracle:
            ctx.disagree("mutator-misses-its-rule", inp, sorted(oracle), sorted(rule))
        if it["expect"] is not None and set(it["expect"]) != (modelled if impl["verdict"] == "rejected" else set()):
            ctx.disagree("corpus-expectation", inp, sorted(rules), sorted(it["expect"]))
        if other and it["strict"]:
            ctx.disagree("classify", inp, sorted(other), (impl["error"] or "")[-400:])
        if it["strict"] and unmodelled - _EXPECTED_UNMODELLED:
            ctx.disagree("unmodelled-check-fired", inp, sorted(unmodelled), (impl["error"] or "")[-400:])
        # ---- model
        if answer is None:
            return
        model = _parse_model(answer)
        if model is None:
            ctx.disagree("driver", inp, None, answer)
            return
        if "noncanonical-ctor" in flags:
            ctx.hit("skipped-model:noncanonical-ctor")  # the model assumes canonical constructor bodies
            return
        if "unmodelled:reCompile" in unmodelled:
            ctx.hit("skipped-model:reCompile")  # validity for Python's ``re`` is decided in an earlier pass, outside of the model
            return
        if "unmodelled:danglingNonPropertyType" in unmodelled:
            ctx.hit("skipped-model:dangling-non-property-type")
            return
        ctx.traces_validated += 1
        ctx.hit("model:ok" if not model else "model:rejects")
        if (not oracle) != (not model) and not it["label"].startswith("pattern-dialect"):
            ctx.disagree("oracle-vs-model", inp, {"oracle": sorted(oracle)}, sorted(model))
        if impl["verdict"] == "crash":
            ctx.hit("crash-not-compared")
            return
        if impl["verdict"] == "accepted":
            if model:
                ctx.disagree(stream, inp, "accepted", sorted(model))
            return
        if (unmodelled or other) and not it["strict"]:
            # a check outside of C06 fired (possibly at an earlier stage): only the direction C06 states is compared
            if modelled and not modelled <= model and model:
                ctx.disagree(stream, inp, sorted(rules), sorted(model))
            ctx.hit("compared-loosely")
            return
        if modelled != model:
            ctx.disagree(stream, inp, sorted(rules), sorted(model))


# =========================================================================== streams


def _fixture_files() -> List[pathlib.Path]:
    root = REPO / "dev" / "test_data"
    if not root.is_dir():
        return []
    return sorted(p for p in root.rglob("meta_model.py") if p.stat().st_size < 60_000)


def _by_rule(entries: Sequence[Entry]) -> Dict[str, List[Entry]]:
    out: Dict[str, List[Entry]] = {}
    for e in entries:
        for r in (e[0] if isinstance(e[0], frozenset) else [e[0]]):
            if r in RULE_IDS:
                out.setdefault(r, []).append(e)
    return out


def _streams(ctx: Ctx, with_model: bool) -> None:
    import random as _random

    mm = _mm()
    T = frozen_tables()  # the names the mutators use come from the documented (frozen) tables, like the oracle's
    B = _Batch(ctx, with_model)
    thorough = ctx.tier == "thorough"
    rotation = [0]

    layout_rotation = [0]

    def next_layout() -> str:
        layout_rotation[0] += 1
        return LAYOUTS[1 + layout_rotation[0] % (len(LAYOUTS) - 1)]  # never the layout of mm.render itself

    def add_base(stream: str, m: Any) -> bool:
        if m.constrained_primitives or any(c.ctor is not None or c.impl_specific for c in m.classes):
            ctx.hit("skipped:base-not-expressible")
            return False
        text, A = render_mm(m), abstract(m)
        B.add(stream, text, rule="valid", label="base:", A=A)
        if len(B.items) % 8 == 0:
            # the members of every class in another order: a valid model stays valid
            lay = next_layout()
            B.add(stream, relayout(text, lay), rule="valid", label="base@" + lay + ":", A=A)
            ctx.hit("layout:" + lay)
        return True

    def add_mutants(stream: str, m: Any, entries: Sequence[Entry]) -> None:
        for e in entries:
            mut = build(m, [e])
            if mut is None:
                continue
            text, A = render_mm(mut), abstract(mut)
            B.add(stream, text, rule=e[0], label=e[1], A=A)
            if kind_of(e[1]).startswith(_LAYOUT_SENSITIVE) and kind_of(e[1]) not in _LAYOUT_DEPENDENT:
                # the checks on the members of a class and of its ancestors run over the members in source order
                lay = next_layout()
                B.add(stream, relayout(text, lay), rule=e[0], label=kind_of(e[1]) + "@" + lay + ":" + e[1].split(":", 1)[-1], A=A)
                ctx.hit("layout:" + lay)

    def rotate_rules(entries: Sequence[Entry], n: int, rng: Any) -> List[Entry]:
        """One mutator (random site) for each of the next ``n`` rule ids of a rotation that runs through all streams."""
        groups = _by_rule(entries)
        out: List[Entry] = []
        tried = 0
        while len(out) < n and tried < len(RULE_IDS):
            r = RULE_IDS[rotation[0] % len(RULE_IDS)]
            rotation[0] += 1
            tried += 1
            if r in groups:
                out.append(rng.choice(groups[r]))
        return out

    def add_doubles(stream: str, m: Any, entries: List[Entry], rng: Any, n: int) -> None:
        bad = [e for e in entries if e[0] != "valid" and e[0] != "?"]
        if len(bad) < 2:
            return
        for _ in range(n):
            e1, e2 = rng.sample(bad, 2)
            mut = build(m, [e1, e2])
            if mut is None:
                continue
            try:
                text, A = render_mm(mut), abstract(mut)
            except Exception:  # two mutators that do not compose (e.g. both index the same list)
                ctx.hit("skipped:double-does-not-compose")
                continue
            if any(c["ctor"] and len({a["name"] for a in c["ctor"]}) != len(c["ctor"]) for c in A["classes"]):
                ctx.hit("skipped:double-with-duplicate-ctor-argument")  # a known crash of the front end, not a C06 matter
                continue
            if any(len(set(c["parents"])) != len(c["parents"]) for c in A["classes"]):
                # two mutators added the same base to one class: the parse stage reports "listed more than once" (a check
                # outside of C06, added by a later repair of the front end) before any structural rule is looked at
                ctx.hit("skipped:double-with-duplicate-base")
                continue
            B.add(stream, text, rule="?", label=f"double:{e1[1]} + {e2[1]}", A=A)

    # ---- 1. corpus
    for c in corpus(ID):
        B.add("corpus", c["source"], rule=None, label="corpus:" + str(c.get("name", "")), strict=False, expect=c.get("expect"))
    B.run()

    # ---- 1b. reserved names the source under test has lost (nothing on the pinned tree; deterministic, every entry)
    try:
        current = source_tables(REPO)
    except ExtractError:
        current = None  # reported by the runner as a broken extraction; the regular mutants still use the frozen names
    if current is not None:
        base = dict(fixed_models())["chain3"]
        for e in removed_reserved_entries(base, T, current):
            mut = build(base, [e])
            if mut is not None:
                B.add("reserved-removed-from-source", render_mm(mut), rule=e[0], label=e[1], A=abstract(mut), strict=False)
        B.run()

    # ---- 2. enumerated, seed independent
    det = _random.Random(20240606)
    for idx, (name, m) in enumerate(fixed_models()):
        if add_base("fixed", m):
            entries = catalogue(m, T, det, n_reserved=3 if thorough else 1)
            if thorough:
                chosen = list(entries)
            elif name == "diamond":
                chosen = select(entries, det, 1)  # one site of EVERY mutator kind
            else:
                kinds = sorted({kind_of(e[1]) for e in entries})
                window = set(kinds[idx % 4 :: 4])
                chosen = select([e for e in entries if kind_of(e[1]) in window], det, 1)
            add_mutants("fixed", m, chosen)
            add_doubles("fixed", m, entries, det, 40 if thorough else 5)
    B.run()

    # ---- 2b. inherited members declared again: kinds x distances x member orders (seed independent)
    for label, text, rule, A in member_order_models(thorough):
        B.add("member-order", text, rule=rule, label=label, A=A)
        parts = label.split(":")
        if len(parts) >= 6:
            ctx.hit("member-order:" + parts[0].replace("member-order-", "") + ":target-" + parts[3])
            ctx.hit("member-order:ancestor-layout:" + parts[4])
            ctx.hit("member-order:descendant-layout:" + parts[5])
        if len(B.items) > 400:
            B.run()
    B.run()
    hierarchies = list(mm.enumerate_hierarchies(max_classes=4, abstract_mixes=False, all_orders_up_to=4 if thorough else 0))
    if thorough:
        hierarchies += list(mm.enumerate_hierarchies(max_classes=3, abstract_mixes=True, all_orders_up_to=2))
    for k, h in enumerate(hierarchies):
        m = enrich(mm.hierarchy_to_mm(h), k)
        if add_base("enumerated", m):
            entries = catalogue(m, T, det, n_reserved=1)
            add_mutants("enumerated", m, rotate_rules(entries, 8 if thorough else 2, det))
        if len(B.items) > 400:
            B.run()
    B.run()

    # ---- 3. seeded random models
    ft = c06_features()
    n_random = ctx.n(60, 540)
    for k in range(n_random):
        size = ctx.rng.randint(2, 7)
        m = mm.random_mm(ctx.rng, size, ft)
        if not add_base("random", m):
            continue
        entries = catalogue(m, T, ctx.rng, n_reserved=1)
        add_mutants("random", m, rotate_rules(entries, 5 if thorough else 3, ctx.rng))
        kinds = sorted({kind_of(e[1]) for e in entries})
        chosen = set(ctx.rng.sample(kinds, min(len(kinds), 3 if thorough else 2)))
        add_mutants("random", m, select([e for e in entries if kind_of(e[1]) in chosen], ctx.rng, 1))
        add_doubles("random", m, entries, ctx.rng, 1)
        if k % (20 if thorough else 30) == 0:
            for rule, text in mm.mutants(m, ctx.rng, max_sites_per_rule=1):
                B.add("mm.mutants", text, rule=None, label="mm.mutants:" + rule, strict=False)
        if len(B.items) > 400:
            B.run()
    B.run()

    # ---- 4. the meta-models of the repository's own test data
    files = _fixture_files()
    if not thorough:
        files = [p for p in files if "unexpected" in p.parts][::3] + [p for p in files if "unexpected" not in p.parts][:8]
    for p in files:
        try:
            text = p.read_text(encoding="utf-8")
            extract(text)
        except (Unsupported, OSError, UnicodeDecodeError):
            ctx.hit("fixture-skipped")
            continue
        B.add("fixtures", text, rule=None, label="fixture:" + "/".join(p.parts[-4:-1]), strict=False)
    B.run()


_RULE_NOTE = (
    "inputs are meta-model source texts: corpus + the mutator catalogue (one mutator per rule id x site, valid look-alikes, "
    "double mutants; quick: every mutator kind once on the diamond model and a quarter of the kinds on 4 other fixed "
    "hierarchies, thorough: every site) + every class DAG shape up to 4 classes, each with mutators of the next rule ids "
    "of a rotation over all rule ids + member-order: an inherited member declared again, 4 kind pairs (method/property in the "
    "ancestor x in the descendant) x every descendant-ancestor pair of a chain, a diamond and a two-parent forest x the member "
    "first/last of its kind x 8 member layouts of the ancestor x 3 of the descendant (quick: all 16 position x layout combinations "
    "on one parent pair, 1-2 rotating ones elsewhere; thorough: all), valid look-alikes; mutants of the member checks and every "
    "eighth base model also with the members of every class in another order + seeded random meta-models (2-7 classes, harness.mm.random_mm without constrained "
    "primitives) with rotated and sampled mutators, mm.mutants and the repository's own meta_model.py fixtures; every input "
    "is judged by the real front end, the Lean model (through extract -> wire) and the Python oracle; all inputs are counted "
    "as non-trivial (each is a complete meta-model), distinct by source text. rule:ctorMissing is unreachable in the front "
    "end (a class without constructor but with own properties always fails the earlier initialisation check: ctorPropInit)"
)


def correspond(ctx: Ctx) -> None:
    ctx.extra_cov["rule"] = _RULE_NOTE
    _streams(ctx, True)


def oracle(ctx: Ctx) -> None:
    # The oracle judges every correspondence input in _streams; it runs alone when the driver is
    # not available or when the runner searches for a failing input.
    if not ctx.driver_ok or ctx.searching:
        ctx.extra_cov.setdefault("rule", _RULE_NOTE)
        _streams(ctx, False)


def replay(ctx: Ctx, data: Dict[str, Any]) -> Any:
    inp = data["failure"]["input"] if "failure" in data else data
    src = inp["source"]
    impl = impl_run(src)
    res: Dict[str, Any] = {"impl": impl["verdict"] if impl["verdict"] != "crash" else impl["crash"], "impl_rules": sorted(impl["rules"]), "impl_error": impl["error"]}
    try:
        A, flags = extract_ex(src)
    except Unsupported as e:
        res["oracle"] = None
        res["model"] = None
        res["skipped"] = str(e)
        return res
    res["flags"] = sorted(flags)
    res["oracle"] = sorted(oracle_rules(A))
    if ctx.driver_ok:
        res["model"], res["model_all_stages"] = ctx.model(["check " + wire(A), "all " + wire(A)])
    else:
        res["model"] = None
    return res


if __name__ == "__main__":
    import sys

    if sys.argv[1:] == ["--freeze-reserved"]:
        _FROZEN_PATH.write_text(freeze_reserved(REPO))
        print(f"wrote {_FROZEN_PATH} from {REPO}")
    else:
        print("usage: VERIF_REPO=<repo> python -m harness.props.c06 --freeze-reserved")
