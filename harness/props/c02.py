"""C02 — generators never crash on accepted meta-models.

Direct oracle (the main part): every front-end-accepted model × 8 targets + smoke, in-process through
``mm.generate`` / ``mm.smoke``; any exception escaping the project = failing input with
``sig = C02:crash:<ExcType>@<repo-relative file>:<function>`` (innermost frame inside aas_core_codegen).

Lean part (decision logic + tables): ``Gen/Generators.lean`` is the skeleton of every
``<target>/main.py:execute`` (ordered generator calls, how each ``(code, errors)`` result is handled,
try/except wrapping, file writes), ``Props/C02.lean`` proves over ALL outcome combinations that no error
result is dropped.  Correspondence: the real ``execute`` with the generator functions replaced by stubs
producing the abstract outcomes vs the Lean model ``Model/Execute.lean``.
"""
from __future__ import annotations

import ast
import hashlib
import io
import json
import pathlib
import re
import sys
import traceback
from typing import Any, Dict, Iterator, List, Optional, Sequence, Tuple

from harness.core import REPO, VERIF, Ctx, corpus, show
from harness import extract
from harness.extract import ExtractError, HEADER, _parse, _lean_str

ID = "C02"
GEN = ["Generators", "ExitPaths"]
LEAN_PROPS = ["AasVerif.Props.C02", "AasVerif.Props.C03Exit", "AasVerif.Props.C02Cores"]

TARGETS = ("cpp", "csharp", "golang", "java", "jsonschema", "python", "typescript", "xsd")
ENTRIES = TARGETS + ("smoke",)


# =========================================================================== crash signature


def crash_sig(exc_name: str, tb_text: Optional[str], exc: Optional[BaseException] = None) -> str:
    """``C02:crash:<Type>@<file relative to the repo>:<function>`` of the innermost project frame."""
    typ = exc_name.split(":", 1)[1] if exc_name.startswith("crash:") else exc_name
    frames = re.findall(r'File "([^"]+)", line (\d+), in (\S+)', tb_text or "")
    inner = None
    for path, _line, fn in frames:
        if "/aas_core_codegen/" in path:
            inner = (path.split("/aas_core_codegen/", 1)[1], fn)
    if inner is None:
        return f"C02:crash:{typ}@?:?"
    return f"C02:crash:{typ}@aas_core_codegen/{inner[0]}:{inner[1]}"


# =========================================================================== running one model


def _mm():
    from harness import mm

    return mm


RUN_LIMIT_S = 180  #: wall-clock limit of one (model, target) run; C02 is about crashes, a slow run is only noted


class _RunTimeout(BaseException):
    pass


def _on_alarm(signum: int, frame: Any) -> None:
    raise _RunTimeout()


def run_entry(
    entry: str, text: str, symbol_table: Any, cache_dir: Optional[pathlib.Path] = None, snippets: Optional[Dict[str, str]] = None
) -> Dict[str, Any]:
    """One (model, target|smoke) run judged by the statement of C02. Never raises.

    ``snippets``: exactly this snippet set instead of the complete one of ``mm.snippets_for``."""
    import signal
    import threading

    mm = _mm()
    timed = threading.current_thread() is threading.main_thread()
    if timed:
        old_handler = signal.signal(signal.SIGALRM, _on_alarm)
        signal.setitimer(signal.ITIMER_REAL, RUN_LIMIT_S)
    try:
        if entry == "smoke":
            r = mm.smoke(text)
            out_files = None
        else:
            out = mm.new_scratch("out")
            r = mm.generate(entry, text, out, snippets=snippets, symbol_table=symbol_table, cache_dir=cache_dir)
            out_files = sum(1 for p in out.rglob("*") if p.is_file()) if out.exists() else 0
    except _RunTimeout:  # raised outside the guarded project call (our own bookkeeping)
        return {"entry": entry, "rc": None, "seconds": RUN_LIMIT_S, "outcome": "timeout"}
    finally:
        if timed:
            signal.setitimer(signal.ITIMER_REAL, 0)
            signal.signal(signal.SIGALRM, old_handler)
    res: Dict[str, Any] = {"entry": entry, "rc": r.rc, "seconds": round(r.seconds, 3)}
    if r.exception == "crash:_RunTimeout":
        res["outcome"] = "timeout"
        return res
    if r.exception is not None:
        res["outcome"] = "crash"
        res["sig"] = crash_sig(r.exception, r.traceback)
        res["what"] = (r.traceback or "").strip().split("\n")[-1][:300]
        return res
    if not isinstance(r.rc, int) or isinstance(r.rc, bool):
        res["outcome"] = "bad"
        res["sig"] = f"C02:status-not-int:{entry}"
        res["what"] = f"execute returned {r.rc!r}"
    elif r.rc == 0:
        if r.stderr != "":
            res["outcome"], res["sig"], res["what"] = "bad", f"C02:rc0-with-stderr:{entry}", f"exit 0 but stderr {r.stderr[:200]!r}"
        elif out_files == 0:
            res["outcome"], res["sig"], res["what"] = "bad", f"C02:rc0-without-output:{entry}", "exit 0 but no file written"
        else:
            res["outcome"] = "ok"
    else:
        if r.stderr.strip() == "":
            res["outcome"], res["sig"], res["what"] = "bad", f"C02:silent-failure:{entry}", f"exit {r.rc} with empty stderr"
        else:
            res["outcome"] = "error"
            head = re.sub(r"/\S+/meta_model\.py", "<model>", r.stderr.split("\n", 1)[0])
            res["headline"] = re.sub(r"/\S*/out\d+/", "<out>/", head)[:160]
    return res


def run_model(text: str, entries: Sequence[str] = ENTRIES) -> Dict[str, Any]:
    """All entries on one model text: {'accepted': bool, 'frontend': ..., 'runs': [...]}."""
    mm = _mm()
    try:
        text.encode("utf-8")
    except UnicodeEncodeError:
        return {"accepted": False, "frontend": "unencodable", "runs": []}
    ld = mm.load(text)
    out: Dict[str, Any] = {"accepted": ld.ok, "runs": []}
    if ld.crash is not None:
        out["frontend"] = "crash"
        out["frontend_sig"] = crash_sig(ld.crash, ld.traceback)
        out["frontend_what"] = (ld.traceback or "").strip().split("\n")[-1][:300]
        return out
    if not ld.ok:
        out["frontend"] = "rejected"
        out["frontend_error"] = (ld.error or "")[:300]
        return out
    out["frontend"] = "accepted"
    cache = mm.new_scratch("cache")
    for e in entries:
        if ":without:" in e:
            # "<target>:without:<snippet key>": the complete snippet set but one
            target, _, missing = e.split(":", 2)
            full = mm.snippets_for(target, ld.symbol_table)
            r = run_entry(target, text, ld.symbol_table, cache_dir=cache, snippets={k: v for k, v in full.items() if k != missing})
            r["entry"] = e
            out["runs"].append(r)
        else:
            out["runs"].append(run_entry(e, text, ld.symbol_table, cache_dir=cache))
    _sweep_scratch()
    return out


def incomplete_snippet_entries(text: str) -> List[str]:
    """``<target>:without:<key>`` for every snippet of the complete sets of the model (the snippet set is an input as well:
    a missing snippet has to be reported, whatever is missing)."""
    mm = _mm()
    ld = mm.load(text)
    if not ld.ok:
        return []
    return [f"{t}:without:{k}" for t in TARGETS for k in sorted(mm.snippets_for(t, ld.symbol_table))]


def _sweep_scratch() -> None:
    """Remove what the runs of one model left in this process' scratch root (thousands of generated files otherwise
    pile up until the interpreter exits, and deleting them all at once takes minutes on a busy disk)."""
    import shutil

    root = _mm().scratch_root()
    for p in list(root.iterdir()):
        if p.is_dir() and re.match(r"(gen|out|cache|smoke|load)\d+$", p.name):
            shutil.rmtree(p, ignore_errors=True)


def judge(ctx: Ctx, name: str, text: str, stream: str, res: Dict[str, Any], expect_accepted: Optional[bool] = None) -> None:
    key = hashlib.blake2b(text.encode("utf-8", "backslashreplace"), digest_size=8).hexdigest()
    ctx.count(("model", key), nontrivial=res["accepted"], stream=stream)
    ctx.hit("frontend:" + res["frontend"])
    inp = {"name": name, "stream": stream, "text": text}
    if res["frontend"] == "crash":
        # the front end neither accepted nor rejected the model: main.execute raised an uncaught exception for every target
        ctx.fail(inp, "front end raised: " + res["frontend_what"], res["frontend_sig"], {"entry": "frontend"})
        return
    if expect_accepted is False and res["accepted"]:
        ctx.note(f"corpus model {name} was expected to be rejected by the front end, but it is accepted now")
    if expect_accepted is True and not res["accepted"]:
        ctx.note(f"corpus model {name} is no longer accepted by the front end: {res.get('frontend_error', '')[:120]}")
    for r in res["runs"]:
        ctx.evaluations += 1
        entry_class = r["entry"].split(":without:")[0] + (":without-a-snippet" if ":without:" in r["entry"] else "")
        ctx.hit(f"{entry_class}:{r['outcome']}")
        if r["outcome"] in ("crash", "bad"):
            # at most two witnesses per root cause: ctx.fail keeps only the first 200 failures
            seen = sum(1 for f in ctx.failures if f["sig"] == r["sig"])
            ctx.hit("failing-runs:" + r["sig"])
            if seen < 2:
                ctx.fail(dict(inp, entry=r["entry"]), f"{r['entry']}: {r['what']}", r["sig"], {"entry": r["entry"]})
        elif r["outcome"] == "error":
            ctx.hit(f"{entry_class}:error:{r['headline'][:70]}")
        elif r["outcome"] == "timeout":
            ctx.note(f"{r['entry']} did not finish within {RUN_LIMIT_S} s on the model {name} (stream {stream}); not judged")
    if len(ctx.samples) < 12 and res["accepted"]:
        ctx.sample({"name": name, "stream": stream, "outcomes": {r["entry"]: r["outcome"] for r in res["runs"]}, "chars": len(text)})


# =========================================================================== input streams

HEADER_MM = '''\
from enum import Enum
from re import match
from typing import List, Optional, Set

from icontract import invariant, DBC

from aas_core_meta.marker import (
    abstract,
    serialization,
    implementation_specific,
    verification,
    constant_set,
    non_mutating,
)

__version__ = "V0.1"

__xml_namespace__ = "https://example.com/aasv/0/1"

'''


def _cls(name: str, props: Sequence[Tuple[str, str]], bases: str = "DBC", doc: bool = True, decorators: str = "") -> str:
    lines = [decorators + f"class {name}({bases}):"]
    if doc:
        lines.append('    """Represent something."""')
        lines.append("")
    for p, t in props:
        lines.append(f"    {p}: {t}")
        lines.append('    """Some property."""')
        lines.append("")
    args = "".join(f", {p}: {t}" + (" = None" if t.startswith("Optional") else "") for p, t in props)
    lines.append(f"    def __init__(self{args}) -> None:")
    if props:
        for p, _ in props:
            lines.append(f"        self.{p} = {p}")
    else:
        lines.append("        pass")
    return "\n".join(lines) + "\n\n\n"


def colliding_name_models() -> Iterator[Tuple[str, str]]:
    """Seed-independent: names that differ in the meta-model but collide after the case conversions of the targets."""
    pairs = [
        ("Some_URL", "Some_url"), ("Some_thing", "Something"), ("Abc_def", "Abc_Def"), ("A_b", "Ab"), ("Thing_1", "Thing1"),
        ("IThing", "Thing"), ("Thing", "Thing_t"), ("Thing", "Thing_enhanced"), ("Verification", "Verification_error"),
    ]
    for a, b in pairs:
        yield f"collide-classes-{a}-{b}", HEADER_MM + _cls(a, [("val", "str")]) + _cls(b, [("val", "str")])
    prop_pairs = [("some_URL", "some_url"), ("some_thing", "something"), ("abc_def", "abc_Def"), ("a_b", "ab"), ("val_1", "val1"),
                  ("class_", "Class"), ("model_type", "modelType")]
    for a, b in prop_pairs:
        yield f"collide-props-{a}-{b}", HEADER_MM + _cls("Thing", [(a, "str"), (b, "str")])
    lit_pairs = [("Some_URL", "Some_url"), ("Ab_c", "Abc"), ("A", "a")]
    for a, b in lit_pairs:
        yield (
            f"collide-literals-{a}-{b}",
            HEADER_MM + f'class Kind(Enum):\n    """Represent a kind."""\n\n    {a} = "x"\n    {b} = "y"\n\n\n' + _cls("Thing", [("kind", "Kind")]),
        )
    # a class against an enumeration / a constant / a verification function / a method against a property
    yield "collide-class-enum", HEADER_MM + 'class Some_kind(Enum):\n    """Represent a kind."""\n\n    A = "x"\n\n\n' + _cls("SomeKind", [("kind", "Some_kind")])
    yield "collide-class-constant", HEADER_MM + _cls("Some_thing", [("val", "str")]) + 'Something: str = constant_str(value="x", description="Some constant.")\n'
    yield (
        "collide-class-verification",
        HEADER_MM + '@verification\ndef is_thing(text: str) -> bool:\n    """Check it."""\n    return match(r"^a$", text) is not None\n\n\n' + _cls("Is_thing", [("val", "str")]),
    )
    yield (
        "collide-prop-method",
        HEADER_MM
        + 'class Thing(DBC):\n    """Represent something."""\n\n    some_val: str\n    """Some property."""\n\n'
        + '    @implementation_specific\n    def some_Val(self) -> str:\n        """Do it."""\n\n'
        + "    def __init__(self, some_val: str) -> None:\n        self.some_val = some_val\n\n\n",
    )
    # names of the generated support code / keywords of the targets
    for n in ("Class", "Object", "String", "Iterator", "Error", "Path", "Type", "Visitor", "Transformer", "Reporting", "Common", "Types", "Xmlization", "Jsonization"):
        yield f"collide-support-{n}", HEADER_MM + _cls(n, [("val", "str")])
    for p in ("class_", "type", "value", "errors", "that", "other", "path", "self_", "result", "instance", "jsonable", "element"):
        yield f"collide-support-prop-{p}", HEADER_MM + _cls("Thing", [(p, "str")])


# --------------------------------------------------------------------------- edge shapes (seed independent)

#: expressions (over ``self.flag: bool`` and ``self.val: str``) that the front end accepts although they are unusual at their
#: position: a callee which is not a function, a formatted value whose transpiled code spans several lines
EDGE_INVARIANT_EXPRS = [
    # -- the callee is a name which is not a function: the instance, a loop variable
    ("call-of-instance", "self(1) > 0"),
    ("call-of-loop-variable", "all(i(1) > 0 for i in range(0, len(self.val)))"),
    # -- formatted values of an f-string: boolean connectives (their transpiled code is broken into lines), a quantifier
    ("fstring-implication", 'len(f"{not self.flag or self.flag}") > 0'),
    ("fstring-and", 'len(f"{self.flag and self.flag}") > 0'),
    ("fstring-all", 'len(f"{all(i >= 0 for i in range(0, len(self.val)))}") > 0'),
    ("fstring-plain", 'len(f"{self.val}-{len(self.val)}") > 0'),
]

#: description texts for the class / property / enumeration / literal / constant docstrings (the C20 check feeds hundreds of
#: nasty texts through one fixed model; here only the shapes that reach distinct *renderer* branches of the description modules)
EDGE_DESCRIPTIONS = [
    ("backtick-in-literal", "Represent ``a`b`` something."),
    ("ends-in-vertical-tab", "Represent something. \x0b"),
    ("ends-in-form-feed", "Represent something.\n\nSome remark \x0c"),
    ("literal-with-at-and-braces", "Represent ``@x {y} */ \\`` something."),
]


def _edge_invariant_model(expr: str, on_primitive: bool) -> str:
    if on_primitive:
        # the invariant of a constrained primitive: ``self`` is the value itself
        e = expr.replace("self.val", "self").replace("self.flag", "(len(self) > 0)")
        return (
            HEADER_MM
            + f'@invariant(\n    lambda self: {e},\n    "Some constraint.",\n)\nclass Limit(str, DBC):\n    """Represent a limit."""\n\n\n'
            + _cls("Thing", [("limit", "Limit")])
        )
    return (
        HEADER_MM
        + f'@invariant(\n    lambda self: {expr},\n    "Some constraint.",\n)\n'
        + _cls("Thing", [("flag", "bool"), ("val", "str")])
    )


def _edge_function_model(expr: str) -> str:
    e = expr.replace("self.val", "val").replace("self.flag", "flag").replace("self(", "val(")
    return (
        HEADER_MM
        + f'@verification\ndef is_fine(flag: bool, val: str) -> bool:\n    """Check it."""\n    return {e}\n\n\n'
        + '@invariant(\n    lambda self: is_fine(self.flag, self.val),\n    "Some constraint.",\n)\n'
        + _cls("Thing", [("flag", "bool"), ("val", "str")])
    )


def _edge_description_model(desc: str) -> str:
    from harness.props.c20_files import lit

    d = lit(desc)
    return (
        HEADER_MM
        + f"class Kind(Enum):\n    {d}\n\n    First = \"first\"\n    {d}\n\n\n"
        + f"class Thing(DBC):\n    {d}\n\n    kind: Kind\n    {d}\n\n    def __init__(self, kind: Kind) -> None:\n        self.kind = kind\n\n\n"
        + f"Some_text: str = constant_str(\n    value=\"x\",\n    description={d},\n)\n"
    )


#: everything that needs a snippet: an implementation-specific class, constructor, method and verification function
SPECIFIC_MODEL = (
    HEADER_MM
    + '@implementation_specific\nclass Special(DBC):\n    """Represent something special."""\n\n    val: str\n    """Hold a value."""\n\n'
    + "    def __init__(self, val: str) -> None:\n        self.val = val\n\n\n"
    + 'class Plain(DBC):\n    """Represent something plain."""\n\n    @implementation_specific\n    def __init__(self) -> None:\n        pass\n\n\n'
    + 'class Thing(DBC):\n    """Represent a thing."""\n\n    special: Special\n    """Hold something special."""\n\n'
    + '    plain: Plain\n    """Hold something plain."""\n\n'
    + "    def __init__(self, special: Special, plain: Plain) -> None:\n        self.special = special\n        self.plain = plain\n\n"
    + '    @implementation_specific\n    def compute(self) -> str:\n        """Compute something."""\n\n\n'
    + '@verification\n@implementation_specific\ndef is_fine(text: str) -> bool:\n    """Check it."""\n'
)


def edge_models() -> Iterator[Tuple[str, str]]:
    """Seed-independent: small accepted models, each with one construct at the edge of what the front end accepts."""
    # -- enumerations and classes at their smallest
    empty_enum = 'class Kind(Enum):\n    """Represent a kind."""\n\n\n'
    yield "edge-enum-without-literals-used", HEADER_MM + empty_enum + _cls("Thing", [("kind", "Optional[Kind]")])
    yield "edge-enum-without-literals-unused", HEADER_MM + empty_enum + _cls("Thing", [("val", "str")])
    # -- constructors: no argument but a call to the constructor of the parent; one argument passed on; two arguments
    yield (
        "edge-constructor-shapes",
        HEADER_MM
        + '@abstract\nclass Parent(DBC):\n    """Represent a parent."""\n\n    def __init__(self) -> None:\n        pass\n\n\n'
        + 'class Child(Parent):\n    """Represent a child."""\n\n    def __init__(self) -> None:\n        Parent.__init__(self)\n\n\n'
        + _cls("Holder", [("child", "Child"), ("other", "Optional[Child]")]),
    )
    for name, expr in EDGE_INVARIANT_EXPRS:
        yield f"edge-invariant-{name}", _edge_invariant_model(expr, on_primitive=False)
    # the same construct classes in the two other positions where an expression is transpiled (one representative each)
    yield "edge-primitive-invariant-call-of-instance", _edge_invariant_model("self(1) > 0", on_primitive=True)
    yield "edge-primitive-invariant-fstring-implication", _edge_invariant_model(EDGE_INVARIANT_EXPRS[2][1], on_primitive=True)
    yield "edge-function-call-of-argument", _edge_function_model("self(1) > 0")
    yield "edge-function-fstring-implication", _edge_function_model(EDGE_INVARIANT_EXPRS[2][1])
    for name, desc in EDGE_DESCRIPTIONS:
        yield f"edge-description-{name}", _edge_description_model(desc)


# --------------------------------------------------------------------------- boolean shapes the type inferrer narrows on
#
# ``intermediate/type_inference.py:_Inferrer`` keeps a counting map of the expressions known to be non-None while it
# walks ``or`` (after ``X is None``), ``and`` (after ``X is not None``) and implications (``X is not None`` or a
# conjunction of them as the antecedent), and releases the entries on leaving the node.  Every SDK generator and the
# smoke tool run it on every invariant / transpilable body.  The fixtures and ``mm_gen`` only have ONE guard per
# connective; this family enumerates 2-4 guards over DIFFERENT members in every position, negations, nestings, the
# same inside ``any``/``all`` (loop variable, index), over a member chain, and in verification functions.

_NARROW_ITEM = '''\
class Item(DBC):
    """Represent an item."""

    xx: Optional[str]
    """Some property."""

    yy: Optional[str]
    """Some property."""

    zz: Optional[str]
    """Some property."""

    ww: Optional[str]
    """Some property."""

    def __init__(
        self,
        xx: Optional[str] = None,
        yy: Optional[str] = None,
        zz: Optional[str] = None,
        ww: Optional[str] = None,
    ) -> None:
        self.xx = xx
        self.yy = yy
        self.zz = zz
        self.ww = ww


'''

_NARROW_THING = '''\
class Thing(DBC):
    """Represent something."""

    aa: Optional[str]
    """Some property."""

    bb: Optional[str]
    """Some property."""

    cc: Optional[str]
    """Some property."""

    dd: Optional[str]
    """Some property."""

    other: Optional[Item]
    """Some property."""

    items: Optional[List[Item]]
    """Some property."""

    def __init__(
        self,
        aa: Optional[str] = None,
        bb: Optional[str] = None,
        cc: Optional[str] = None,
        dd: Optional[str] = None,
        other: Optional[Item] = None,
        items: Optional[List[Item]] = None,
    ) -> None:
        self.aa = aa
        self.bb = bb
        self.cc = cc
        self.dd = dd
        self.other = other
        self.items = items
'''


def _use(es: Sequence[str]) -> str:
    """A boolean expression that needs every expression of ``es`` to be narrowed to non-None."""
    if len(es) == 2:
        return f"len({es[0]}) <= len({es[1]})"
    return " + ".join(f"len({e})" for e in es) + " >= 1"


def _orders(pool: Sequence[str], k: int) -> List[Tuple[str, ...]]:
    """k members of the pool such that every member stands at every position (rotations of the k-subsets, reversed ones)."""
    import itertools

    out: List[Tuple[str, ...]] = []
    for sub in itertools.combinations(pool, k):
        for r in range(k):
            out.append(tuple(sub[r:] + sub[:r]))
        if k > 2:
            out.append(tuple(reversed(sub)))
    return out


def narrowing_shapes(pool: Sequence[str]) -> List[Tuple[str, str]]:
    """(kind, boolean expression) over the Optional[str] expressions ``pool`` (4 distinct ones)."""
    out: List[Tuple[str, str]] = []
    isn = lambda e: f"{e} is None"  # noqa: E731
    inn = lambda e: f"{e} is not None"  # noqa: E731
    for k in (2, 3, 4):
        for es in _orders(pool, k):
            out.append((f"or{k}", " or ".join(map(isn, es)) + " or " + _use(es)))
            out.append((f"and{k}", " and ".join(map(inn, es)) + " and " + _use(es)))
            out.append((f"impl{k}", "not (" + " and ".join(map(inn, es)) + ") or " + _use(es)))
            # the negated forms (De Morgan) of the two n-ary connectives
            out.append((f"not-or{k}", "not (" + " or ".join(map(isn, es)) + " or not (" + _use(es) + "))"))
            out.append((f"not-and{k}", "not (" + " and ".join(map(inn, es)) + " and not (" + _use(es) + "))"))
    a, b, c, d = pool
    for k in (2, 3, 4):
        es = list(pool[:k])
        # guards and uses interleaved: every guard is followed by a use of what is narrowed so far
        out.append((f"or-mid{k}", " or ".join(f"{isn(e)} or {_use(es[: i + 1])}" for i, e in enumerate(es))))
        out.append((f"and-mid{k}", " and ".join(f"{inn(e)} and {_use(es[: i + 1])}" for i, e in enumerate(es))))
        # a conjunction as the antecedent with a conjunct which is not a guard, in every position
        for at in range(1, k + 1):
            conj = [inn(e) for e in es]
            conj.insert(at, f"len({es[at - 1]}) > 2")
            out.append((f"impl-mixed{k}", "not (" + " and ".join(conj) + ") or " + _use(es)))
        # the same guard several times (the counting map goes to 2 and back)
        out.append((f"or-dup{k}", " or ".join(map(isn, es + es[:1])) + " or " + _use(es)))
        out.append((f"and-dup{k}", " and ".join(map(inn, es[:1] + es)) + " and " + _use(es)))
        out.append((f"impl-dup{k}", "not (" + " and ".join(map(inn, es + es[-1:])) + ") or " + _use(es)))
    out.append(("impl1", f"not ({inn(a)}) or len({a}) >= 1"))
    out.append(("or1", f"{isn(a)} or len({a}) >= 1"))
    out.append(("and1", f"{inn(a)} and len({a}) >= 1"))
    # ---- nested mixes
    nested = [
        f"{isn(a)} or ({inn(b)} and {inn(c)} and {_use([a, b, c])})",
        f"{isn(a)} or {isn(b)} or ({inn(c)} and {inn(d)} and {_use([a, b, c, d])})",
        f"({isn(a)} or {isn(b)} or {_use([a, b])}) and ({isn(c)} or {isn(d)} or {_use([c, d])})",
        f"({inn(a)} and {inn(b)} and {_use([a, b])}) or ({inn(c)} and {inn(d)} and {_use([c, d])})",
        f"not ({inn(a)}) or ({isn(b)} or {isn(c)} or {_use([a, b, c])})",
        f"not ({inn(a)} and {inn(b)}) or (not ({inn(c)} and {inn(d)}) or {_use([a, b, c, d])})",
        f"not ({inn(a)} and {inn(b)}) or ({isn(c)} or {isn(d)} or {_use([a, b, c, d])})",
        f"{isn(a)} or {isn(b)} or (not ({inn(c)}) or {_use([a, b, c])})",
        f"{isn(a)} or {isn(b)} or (not ({inn(c)} and {inn(d)}) or {_use([a, b, c, d])})",
        f"{inn(a)} and {inn(b)} and ({isn(c)} or {isn(d)} or {_use([a, b, c, d])})",
        f"{inn(a)} and {inn(b)} and (not ({inn(c)} and {inn(d)}) or {_use([a, b, c, d])})",
        f"({isn(a)} or {isn(b)} or {_use([a, b])}) or ({isn(c)} or {isn(d)} or {_use([c, d])})",
        f"not ({isn(a)} or {isn(b)} or {_use([a, b])}) or ({isn(c)} or {isn(d)} or {_use([c, d])})",
        f"not (not ({inn(a)} and {inn(b)}) or {_use([a, b])}) or ({isn(c)} or {isn(d)} or {_use([c, d])})",
        f"not ({isn(a)} or {isn(b)} or not ({inn(c)} and {inn(d)} and {_use([a, b, c, d])}))",
    ]
    # a guard on what is already narrowed: 'Expected the value to be of an optional type for a nullness check' is REPORTED
    renarrowed = [
        f"{isn(a)} or ({isn(a)} or {isn(b)} or {_use([a, b])})",
        f"{isn(a)} or {isn(b)} or ({isn(b)} or {isn(a)} or {_use([a, b])})",
        f"not ({inn(a)} and {inn(b)}) or (not ({inn(b)} and {inn(a)}) or {_use([a, b])})",
    ]
    out.extend(("renarrowed", e) for e in renarrowed)
    out.extend(("nested", e) for e in nested)
    # ---- forms that narrow nothing or too little: the SDK generators must REPORT, not raise
    under = [
        f"not ({isn(a)}) and not ({isn(b)}) and {_use([a, b])}",
        f"not ({isn(a)} or {isn(b)}) or {_use([a, b])}",
        f"{isn(a)} or {isn(b)} or {_use([a, b, c])}",
        f"{inn(a)} and {inn(b)} and {_use([a, b, c])}",
        f"not ({inn(a)} and {inn(b)}) or {_use([a, b, c])}",
        f"{_use([a, b])} or {isn(a)} or {isn(b)}",
        f"({isn(a)} or {isn(b)} or {_use([a, b])}) and {_use([a, b])}",
        f"{isn(a)} or {isn(b)} or {a}",
        f"not ({inn(a)} and {b}) or {_use([a, b])}",
    ]
    out.extend(("under-narrowed", e) for e in under)
    return out


def narrowing_invariants() -> List[Tuple[str, str]]:
    """(kind, invariant expression of ``Thing``): the shapes over properties, a member chain, loop variables and indices."""
    out: List[Tuple[str, str]] = []
    out.extend(narrowing_shapes(["self.aa", "self.bb", "self.cc", "self.dd"]))
    out.append(("seed-like", "self.aa is None or self.bb is None or len(self.aa) <= len(self.bb)"))
    chain = narrowing_shapes(["self.other.xx", "self.other.yy", "self.other.zz", "self.other.ww"])
    inner_kinds = ("or2", "or3", "or4", "and3", "impl2", "impl3", "impl4", "not-or3", "not-and3", "or-mid3", "and-mid3", "impl-mixed3",
                   "or-dup2", "impl-dup2", "nested", "renarrowed", "under-narrowed")
    seen: Dict[str, int] = {}
    for kind, e in chain:
        seen[kind] = seen.get(kind, 0) + 1
        if kind in inner_kinds and (seen[kind] <= 2 or kind == "nested"):
            out.append(("chain:" + kind, f"self.other is None or ({e})"))
            if seen[kind] == 1:
                out.append(("chain-impl:" + kind, f"not (self.other is not None) or ({e})"))
    loop = narrowing_shapes(["item.xx", "item.yy", "item.zz", "item.ww"])
    seen = {}
    for kind, e in loop:
        seen[kind] = seen.get(kind, 0) + 1
        if kind in inner_kinds and (seen[kind] <= 2 or kind == "nested"):
            q = ("all", "any")[(seen[kind] + len(kind)) % 2]
            out.append((f"{q}:" + kind, f"self.items is None or {q}({e} for item in self.items)"))
            if seen[kind] == 1:
                q2 = "any" if q == "all" else "all"
                out.append((f"{q2}-impl:" + kind, f"not (self.items is not None) or {q2}({e} for item in self.items)"))
    # guards outside and inside the quantifier, the use needs both
    out.append(("all:outer+inner", "self.aa is None or self.bb is None or self.items is None or all("
                "item.xx is None or item.yy is None or len(item.xx) + len(item.yy) + len(self.aa) + len(self.bb) >= 1 for item in self.items)"))
    out.append(("any:outer+inner", "not (self.aa is not None and self.bb is not None and self.items is not None) or any("
                "item.xx is not None and item.yy is not None and len(item.xx) + len(item.yy) + len(self.aa) + len(self.bb) >= 1 for item in self.items)"))
    out.append(("all:outer-and-inner-impl", "not (self.aa is not None and self.items is not None) or all("
                "not (item.xx is not None and item.yy is not None) or len(item.xx) + len(item.yy) + len(self.aa) >= 1 for item in self.items)"))
    # nested quantifiers are not in the language of the fixtures; indices are
    idx = narrowing_shapes(["self.items[i].xx", "self.items[i].yy", "self.items[i].zz", "self.items[i].ww"])
    seen = {}
    for kind, e in idx:
        seen[kind] = seen.get(kind, 0) + 1
        if kind in ("or2", "or3", "and2", "impl2", "impl3", "not-or2", "or-mid2", "nested") and (seen[kind] <= 1 or (kind == "nested" and seen[kind] <= 6)):
            out.append(("range:" + kind, f"self.items is None or all({e} for i in range(0, len(self.items)))"))
    return out


def narrowing_functions() -> List[Tuple[str, str]]:
    """(kind, body expression) of ``@verification def check_it(aa, bb, cc, dd: Optional[str]) -> bool``."""
    keep = ("or2", "or3", "or4", "and2", "and3", "impl2", "impl3", "impl4", "not-or2", "not-and2", "or-mid3", "and-mid3",
            "impl-mixed2", "or-dup2", "and-dup2", "impl-dup2", "nested", "renarrowed", "under-narrowed")
    seen: Dict[str, int] = {}
    out = []
    for kind, e in narrowing_shapes(["aa", "bb", "cc", "dd"]):
        seen[kind] = seen.get(kind, 0) + 1
        if kind in keep and (seen[kind] <= 2 or kind in ("nested", "under-narrowed")):
            out.append((kind, e))
    return out


def _invariant(expr: str, i: int) -> str:
    return f'@invariant(\n    lambda self: {expr},\n    "Invariant {i} holds.",\n)\n'


def _narrowing_model(invs: Sequence[str], fns: Sequence[str]) -> str:
    text = HEADER_MM
    for i, body in enumerate(fns):
        text += (
            f"@verification\ndef check_it_{i}(\n    aa: Optional[str], bb: Optional[str], cc: Optional[str], dd: Optional[str]\n) -> bool:\n"
            f'    """Check it."""\n    return {body}\n\n\n'
        )
    text += _NARROW_ITEM
    for i, e in reversed(list(enumerate(invs))):
        text += _invariant(e, i)
    if fns:
        text += _invariant(" and ".join(f"check_it_{i}(self.aa, self.bb, self.cc, self.dd)" for i in range(len(fns))), len(invs))
    return text + _NARROW_THING


def narrowing_models(solo: bool, group: int = 6) -> Iterator[Tuple[str, str]]:
    """
    (name, text).  Grouped: ``group`` invariants of one kind per model (the quick tier); ``solo``: additionally every
    expression in a model of its own (thorough tier, search), so that a report of one expression can not hide another.
    """
    by_kind: Dict[str, List[str]] = {}
    for kind, e in narrowing_invariants():
        by_kind.setdefault(kind, []).append(e)
    # kinds with few members are merged with their neighbours (same prefix before ':') to keep the number of models low
    merged: Dict[str, List[str]] = {}
    for kind, es in by_kind.items():
        if re.match(r"(under-narrowed|renarrowed|or-dup|and-dup|impl-dup)", kind.split(":")[-1]):
            key = "reported"   # some of these are reported by the SDK generators: keep them away from the accepted ones
        elif ":" in kind:
            key = kind.split(":")[0]
        elif len(es) < 4:
            key = re.sub(r"\d+$", "", kind)
        else:
            key = kind
        merged.setdefault(key, []).extend(es)
    for key, es in merged.items():
        for at in range(0, len(es), group):
            yield f"narrow-{key}-{at // group}", _narrowing_model(es[at : at + group], [])
    fn_by: Dict[str, List[str]] = {}
    for kind, e in narrowing_functions():
        fn_by.setdefault("reported" if re.match(r"(under-narrowed|renarrowed|or-dup|and-dup|impl-dup)", kind) else "fn", []).append(e)
    for key, es in fn_by.items():
        for at in range(0, len(es), group):
            yield f"narrow-fn-{key}-{at // group}", _narrowing_model([], es[at : at + group])
    if solo:
        for i, (kind, e) in enumerate(narrowing_invariants()):
            yield f"narrow-solo-{kind}-{i}", _narrowing_model([e], [])
        for i, (kind, e) in enumerate(narrowing_functions()):
            yield f"narrow-solo-fn-{kind}-{i}", _narrowing_model([], [e])


# --------------------------------------------------------------------------- texts that reach the generated files
#
# Descriptions are copied into the documentation comments of every target, string values into string literals,
# invariant descriptions into the error messages of the generated verification code.  What is written must be
# encodable and every target escapes differently, so each code-point class below is put at every such site.  The
# texts are written with ESCAPES in the meta-model source (a lone surrogate can not be stored in a UTF-8 file).

TEXT_CLASSES: List[Tuple[str, str]] = [
    ("hi-surrogate", "\ud83d"),
    ("lo-surrogate", "\ude00"),
    ("reversed-pair", "\ude00\ud83d"),
    ("surrogate-at-end", "end \udbff"),
    ("nul", "\x00"),
    ("c0", "\x01\x08\x1b\x1f"),
    ("c0-separators", "a\x1cb\x1dc\x1ed"),
    ("vt-ff", "a\x0bb\x0cc"),
    ("cr", "a\rb"),
    ("crlf", "a\r\nb"),
    ("tab", "a\tb"),
    ("del", "\x7f"),
    ("c1-nel", "a\x85b"),
    ("c1", "\x80\x9f"),
    ("line-separators", "a\u2028b\u2029c"),
    ("nonchar-fffe", "\ufffe"),
    ("nonchar-ffff", "\uffff"),
    ("nonchar-fdd0", "\ufdd0"),
    ("bom", "\ufeff"),
    ("astral", "\U0001F600"),
    ("astral-last", "\U0010ffff"),
    ("astral-plane-end", "\U0001fffe"),
    ("latin1", "\xe4\xff"),
    ("bmp", "\u65e5\u672c\u20ac"),
    ("combining", "e\u0301\u200d"),
    ("bidi", "\u202eabc\u202c"),
    ("nbsp", "a\xa0b\u3000c"),
    # docutils refuses lines of more than 10 000 characters in a description
    ("long-word", "x" * 9900),
    ("long-line", " ".join(["word"] * 1950)),
    ("long-astral", "\U0001F600" * 3000),
    ("long-text", "\n".join(["Some line of a very long paragraph, and so on, and on."] * 400)),
    ("comment-end", "*/ /* // --> ]]> #"),
    ("quotes", "\" ' ''' \"\"\""),
    ("backslash", "\\ \\n \\u0041 \\x41 \\"),
    ("java-unicode-escape", "\\u000a \\ud83d"),
    ("braces", "{ } {0} ${x} {@code x} %s %d %%"),
    ("markup", "<b> & &amp; </summary> <see cref=\"x\"/>"),
    ("at-sign", "@param x @return @throws"),
    # ---- RST markup which the description renderers of the targets translate one by one
    ("rst-literal-backtick", "``a`b``"),
    ("rst-literal-comment-end", "``*/ --> ]]>``"),
    ("rst-literal-markup", "``<b>&\\``"),
    ("rst-literal-nul-surrogate", "``\x00`` and ``\ud83d``"),
    ("rst-emphasis", "*emphasis* and *more emphasis*"),
    ("rst-references", ":class:`Thing` and :attr:`Thing.val` and :class:`Kind`"),
]

#: only at the value sites (docutils limits the length of a line of a description); Java limits a string constant to
#: 65 535 bytes, C++ compilers limit the length of a literal
TEXT_VALUE_ONLY_CLASSES: List[Tuple[str, str]] = [
    ("huge-value", "v" * 70000),
    ("huge-astral-value", "\U0001F600" * 20000),
]

#: sites of the descriptions (a docstring / a ``description=`` argument / the message of an invariant)
TEXT_DESC_SITES = ("module", "class", "property", "enum", "literal", "constant", "constant-set", "invariant", "verification",
                   "constrained", "method")
#: sites of the string values
TEXT_VALUE_SITES = ("enum-value", "str-constant", "set-value", "invariant-literal", "xml-namespace", "version")


def text_model(at: Dict[str, str]) -> str:
    """The meta-model with ``at[site]`` put at that site (other sites get plain ASCII)."""
    from harness.mm_model import render_str_literal as lit

    def desc(site: str, plain: str) -> str:
        if site not in at:
            return lit(plain)
        return lit(plain[:-1] + " " + at[site] + " and more.")

    def value(site: str, plain: str) -> str:
        return lit(at[site] if site in at else plain)

    return (
        desc("module", "Provide a meta-model.") + "\n"
        + HEADER_MM.replace('"V0.1"', value("version", "V0.1")).replace('"https://example.com/aasv/0/1"', value("xml-namespace", "https://example.com/aasv/0/1"))
        + f"class Kind(Enum):\n    {desc('enum', 'Represent a kind.')}\n\n    First = {value('enum-value', 'first')}\n"
        + f"    {desc('literal', 'Represent the first.')}\n\n    Second = \"second\"\n\n\n"
        + f"@verification\ndef is_thing(text: str) -> bool:\n    {desc('verification', 'Check the text.')}\n"
        + '    return match(r"^[a-z]+$", text) is not None\n\n\n'
        + f"@invariant(\n    lambda self: len(self) >= 1,\n    \"It is not empty.\",\n)\n"
        + f"class Some_str(str, DBC):\n    {desc('constrained', 'Represent a text.')}\n\n\n"
        + f"@invariant(\n    lambda self: self.val != {value('invariant-literal', 'nothing')},\n    \"Val is something.\",\n)\n"
        + f"@invariant(\n    lambda self: is_thing(self.val),\n    {desc('invariant', 'Val is a thing.')},\n)\n"
        + f"class Thing(DBC):\n    {desc('class', 'Represent something.')}\n\n"
        + f"    val: str\n    {desc('property', 'Some property.')}\n\n"
        + "    kind: Optional[Kind]\n    \"\"\"Kind of the thing.\"\"\"\n\n"
        + "    text: Optional[Some_str]\n    \"\"\"Text of the thing.\"\"\"\n\n"
        + f"    @implementation_specific\n    def do_it(self) -> str:\n        {desc('method', 'Do it.')}\n\n"
        + "    def __init__(self, val: str, kind: Optional[Kind] = None, text: Optional[Some_str] = None) -> None:\n"
        + "        self.val = val\n        self.kind = kind\n        self.text = text\n\n\n"
        + f"Some_text: str = constant_str(\n    value={value('str-constant', 'something')},\n    description={desc('constant', 'Some constant.')},\n)\n\n"
        + f"Some_texts: Set[str] = constant_set(\n    values=[{value('set-value', 'one')}, \"two\"],\n    description={desc('constant-set', 'Some constants.')},\n)\n"
    )


#: (class, sites) run alone already in the quick tier: a report or a known crash at one site must not hide another site.
#: Unpaired surrogates make the WRITE of the first file with the text fail, so every description site is run alone;
#: the other classes only lead to reports (or the known finding C02-F2) through the value sites.
TEXT_QUICK_SOLO: Dict[str, Tuple[str, ...]] = {
    "hi-surrogate": TEXT_DESC_SITES + TEXT_VALUE_SITES,
    "nul": TEXT_VALUE_SITES + ("invariant",),
    "latin1": TEXT_VALUE_SITES + ("invariant",),
    "astral": TEXT_VALUE_SITES + ("invariant",),
    "long-word": TEXT_VALUE_SITES + ("invariant",),
    "rst-literal-backtick": TEXT_DESC_SITES,
}


def text_models(full: bool) -> Iterator[Tuple[str, str]]:
    """
    (name, text).  Per code-point class: all description sites at once, all value sites at once, then every site of
    ``TEXT_QUICK_SOLO`` (``full``: every site of every class) alone, so that a report or a known crash at one site can
    not hide another site.
    """
    def value_sites(chars: str) -> Tuple[str, ...]:
        # the XML namespace and the version also go into the SNIPPETS which the harness has to write as UTF-8 files
        try:
            chars.encode("utf-8")
        except UnicodeEncodeError:
            return tuple(s for s in TEXT_VALUE_SITES if s not in ("xml-namespace", "version"))
        if '"' in chars or "'" in chars:
            # the front end refuses quotes in the XML namespace
            return tuple(s for s in TEXT_VALUE_SITES if s != "xml-namespace")
        return TEXT_VALUE_SITES

    for cls, chars in TEXT_CLASSES:
        yield f"text-{cls}-descriptions", text_model({s: chars for s in TEXT_DESC_SITES})
        yield f"text-{cls}-values", text_model({s: chars for s in value_sites(chars)})
    for cls, chars in TEXT_VALUE_ONLY_CLASSES:
        yield f"text-{cls}-values", text_model({s: chars for s in value_sites(chars)})
        if full:
            for s in value_sites(chars):
                yield f"text-{cls}-at-{s}", text_model({s: chars})
    for cls, chars in TEXT_CLASSES:
        for s in TEXT_DESC_SITES + value_sites(chars):
            if full or s in TEXT_QUICK_SOLO.get(cls, ()):
                yield f"text-{cls}-at-{s}", text_model({s: chars})
    if full:
        for cls, chars in TEXT_CLASSES:
            yield f"text-{cls}-everywhere", text_model({s: chars for s in TEXT_DESC_SITES + value_sites(chars)})


def fixture_models() -> List[pathlib.Path]:
    seen = set()
    out = []
    for p in sorted((REPO / "dev" / "test_data").glob("**/meta_model.py")):
        try:
            h = hashlib.blake2b(p.read_bytes(), digest_size=8).hexdigest()
        except OSError:
            continue
        if h not in seen:
            seen.add(h)
            out.append(p)
    return out


def hierarchy_models(max_classes: int, variants: Sequence[Tuple[bool, Optional[str]]]) -> Iterator[Tuple[str, str]]:
    mm = _mm()
    for h in mm.enumerate_hierarchies(max_classes, abstract_mixes=True, all_orders_up_to=0):
        for holder, wmt in variants:
            if holder and wmt is None:
                continue
            m = mm.hierarchy_to_mm(h, holder=holder, with_model_type=wmt)
            tag = "".join("A" if a else "c" for a in h.abstract) + "-" + ".".join(",".join(map(str, ps)) or "-" for ps in h.parents)
            yield f"hier-{tag}-{'holder' if holder else 'plain'}-{wmt}", mm.render(m)


def random_models(rng: Any, n_default: int, seeds_per_hazard: int, n_everything: int) -> Iterator[Tuple[str, str, str]]:
    """(name, stream, text): default features, each hazard flag switched on alone, everything on."""
    import random as _random

    mm = _mm()
    for i in range(n_default):
        s = rng.randrange(2**32)
        yield f"random-default-{s}", "random-default", mm.render(mm.random_mm(_random.Random(s), 1 + (s % 6), mm.Features()))
    for flag in mm.Features.HAZARDS:
        for k in range(seeds_per_hazard):
            # the first seed of every hazard is fixed (seed-independent part), the others come from the run's rng
            s = k if k == 0 else rng.randrange(2**32)
            ft = mm.Features()
            setattr(ft, flag, True)
            yield f"random-{flag}-{s}", f"hazard:{flag}", mm.render(mm.random_mm(_random.Random(s), 2 + (s % 4), ft))
    for i in range(n_everything):
        s = rng.randrange(2**32)
        yield f"random-everything-{s}", "random-everything", mm.render(mm.random_mm(_random.Random(s), 1 + (s % 5), mm.Features.everything()))


def all_models(ctx: Ctx) -> Iterator[Tuple[str, str, str]]:
    """(name, stream, text) in a deterministic order: corpus, fixtures, enumerated hierarchies, collisions, edge shapes, random."""
    for c in corpus(ID):
        yield c["name"], "corpus", c["text"]
    fixtures = fixture_models()
    if ctx.tier == "quick" and not ctx.searching:
        # a fixed third of the fixtures + a seeded sample of the rest
        fixed = fixtures[::3]
        rest = [p for p in fixtures if p not in fixed]
        ctx.rng.shuffle(rest)
        fixtures = fixed + rest[: ctx.n(15, 0)]
    for p in fixtures:
        try:
            text = p.read_text(encoding="utf-8")
        except (OSError, UnicodeDecodeError):
            continue
        yield str(p.relative_to(REPO / "dev" / "test_data")), "fixture", text
    if ctx.tier == "quick" and not ctx.searching:
        hs = list(hierarchy_models(3, [(False, "roots")]))
        hs += list(hierarchy_models(3, [(True, "roots"), (False, None)]))[::4]
    else:
        hs = list(hierarchy_models(3, [(False, "roots"), (True, "roots"), (False, None), (False, "all")]))
        hs += list(hierarchy_models(4, [(False, "roots"), (True, "all")]))[:: (2 if ctx.searching or ctx.tier == "thorough" else 8)]
    for name, text in hs:
        yield name, "hierarchy", text
    for name, text in colliding_name_models():
        yield name, "collision", text
    for name, text in edge_models():
        yield name, "edge", text
    # one model, every target, every snippet of the complete set left out once (see run_model / _work)
    yield "specific-model-with-incomplete-snippets", "incomplete-snippets", SPECIFIC_MODEL


    deep = ctx.searching or ctx.tier != "quick"
    for name, text in narrowing_models(solo=deep, group=8):
        yield name, "narrowing", text
    for name, text in text_models(full=deep):
        yield name, "text", text
    yield from random_models(ctx.rng, ctx.n(12, 500), 1 if ctx.tier == "quick" else 8, ctx.n(3, 100))


# =========================================================================== oracle


def _work(item: Tuple[str, str, str]) -> Dict[str, Any]:
    name, stream, text = item
    try:
        if stream == "incomplete-snippets":
            return run_model(text, list(ENTRIES) + incomplete_snippet_entries(text))
        if stream == "corpus":
            # a witness may name the entries to run beside the standard ones (e.g. "java:without:<snippet key>")
            extra = next((c.get("entries", []) for c in corpus(ID) if c["name"] == name and c["text"] == text), [])
            return run_model(text, list(ENTRIES) + list(extra))
        return run_model(text)
    except BaseException as e:  # noqa: B902  (harness problem, not a project crash)
        return {"accepted": False, "frontend": "harness-error", "runs": [], "error": f"{type(e).__name__}: {e}", "tb": traceback.format_exc()}


def _map(items: List[Tuple[str, str, str]], workers: int) -> Iterator[Dict[str, Any]]:
    if workers <= 1 or len(items) < 4:
        for it in items:
            yield _work(it)
        return
    import multiprocessing

    mpctx = multiprocessing.get_context("fork")
    with mpctx.Pool(workers) as pool:
        it = pool.imap(_work, items, chunksize=1)
        for name, _stream, _text in items:
            try:
                yield it.next(timeout=1200)
            except multiprocessing.TimeoutError:
                # a lost worker or a generator that does not terminate: a harness problem (exit 2), never a silent hang
                raise RuntimeError(f"no result for the model {name!r} within 1200 s")


def oracle(ctx: Ctx) -> None:
    import os

    _mm()  # import (puts the repo first on sys.path) before forking
    items = list(all_models(ctx))
    expect = {c["name"]: c.get("expect", "accepted") == "accepted" for c in corpus(ID)}
    workers = int(os.environ.get("VERIF_WORKERS", "0") or 0) or (4 if ctx.tier == "quick" else 8)
    for (name, stream, text), res in zip(items, _map(items, workers)):
        if res["frontend"] == "harness-error":
            raise RuntimeError(f"harness error on {name}: {res['error']}\n{res['tb']}")
        judge(ctx, name, text, stream, res, expect_accepted=expect.get(name) if stream == "corpus" else None)
    ctx.extra_cov["rule"] = (
        "one evaluation = one (model, target or smoke) run; models are distinct by text, rejected models are trivial"
    )


def replay(ctx: Ctx, data: Dict[str, Any]) -> Dict[str, Any]:
    inp = data["failure"]["input"] if "failure" in data else data
    if inp.get("kind") == "stub":
        f = [int(i) for i in inp["failed_checks"]]
        o = {int(k): v for k, v in inp["step_outcomes"].items()}
        impl = _Stubbed(inp["target"]).run(f, o)
        model = ctx.model([f"exec {inp['target']} {_wire(f, o)}"])[0] if ctx.driver_ok else None
        return {"target": inp["target"], "failed_checks": f, "step_outcomes": o, "impl": impl, "model": model,
                "property_holds": not (impl.startswith("crash") or impl.startswith("odd") or (impl == "exit0" and bool(f or o)))}
    text = inp["text"]
    entries = [inp["entry"]] if (inp.get("entry") in ENTRIES or ":without:" in str(inp.get("entry"))) else list(ENTRIES)
    res = run_model(text, entries)
    return {"name": inp.get("name"), "frontend": res["frontend"], "frontend_sig": res.get("frontend_sig"),
            "runs": [{k: r.get(k) for k in ("entry", "outcome", "rc", "sig", "what", "headline")} for r in res["runs"]],
            "property_holds": res["frontend"] != "crash" and all(r["outcome"] in ("ok", "error", "timeout") for r in res["runs"])}


# =========================================================================== Gen/Generators.lean


def _is_none_test(test: ast.expr, var: str) -> bool:
    return (
        isinstance(test, ast.Compare)
        and isinstance(test.left, ast.Name)
        and test.left.id == var
        and len(test.ops) == 1
        and isinstance(test.ops[0], ast.IsNot)
        and isinstance(test.comparators[0], ast.Constant)
        and test.comparators[0].value is None
    )


def _reports_and_returns_nonzero(body: List[ast.stmt]) -> bool:
    if not body or not isinstance(body[-1], ast.Return):
        return False
    v = body[-1].value
    nonzero = isinstance(v, ast.Constant) and isinstance(v.value, int) and not isinstance(v.value, bool) and v.value != 0
    return nonzero and any(extract._surely_writes_stderr(s) for s in body[:-1])


def _handling(block: List[ast.stmt], i: int, err_var: str, value_var: Optional[str]) -> str:
    """How the error variable assigned by block[i] is handled by the statements that follow."""
    nxt = block[i + 1] if i + 1 < len(block) else None
    if isinstance(nxt, ast.If) and _is_none_test(nxt.test, err_var) and _reports_and_returns_nonzero(nxt.body) and not nxt.orelse:
        return "reported"
    for st in block[i + 1 :]:
        if isinstance(st, ast.Assert):
            src = ast.unparse(st.test)
            if src in (f"{err_var} is None", f"not {err_var}") or (value_var and src == f"{value_var} is not None"):
                return "asserted"
        if any(isinstance(n, ast.Name) and n.id == err_var and isinstance(n.ctx, ast.Load) for n in ast.walk(st)):
            break
    return "ignored"


def _error_result_assign(st: ast.stmt) -> Optional[Tuple[str, Optional[str], str]]:
    """(error variable, value variable, call text) if ``st`` binds the error result of a call."""
    if not (isinstance(st, ast.Assign) and len(st.targets) == 1 and isinstance(st.value, ast.Call)):
        return None
    tgt = st.targets[0]
    call = ast.unparse(st.value.func)
    if isinstance(tgt, ast.Tuple) and len(tgt.elts) == 2 and all(isinstance(e, ast.Name) for e in tgt.elts):
        if "error" in tgt.elts[1].id:  # type: ignore
            return tgt.elts[1].id, tgt.elts[0].id, call  # type: ignore
    if isinstance(tgt, ast.Name) and "error" in tgt.id:
        return tgt.id, None, call
    return None


def _io_calls(block: List[ast.stmt], guarded: bool, acc: Dict[str, List[bool]]) -> None:
    """Collects for every ``.mkdir(`` / ``.write_text(`` / ``.write_bytes(`` call whether it is inside a reporting try."""
    for st in block:
        if isinstance(st, ast.Try):
            ok = bool(st.handlers) and all(
                h.type is not None and ast.unparse(h.type) in ("Exception", "OSError", "IOError") and _reports_and_returns_nonzero(h.body)
                for h in st.handlers
            )
            _io_calls(st.body, guarded or ok, acc)
            for h in st.handlers:
                _io_calls(h.body, guarded, acc)
            _io_calls(st.orelse, guarded, acc)
            _io_calls(st.finalbody, guarded, acc)
            continue
        subs = extract._sub_blocks(st)
        if subs:
            # the statement's own header expressions (e.g. a `with open(...)`) are not I/O we look for
            for sub in subs:
                _io_calls(sub, guarded, acc)
            continue
        for n in ast.walk(st):
            if isinstance(n, ast.Call) and isinstance(n.func, ast.Attribute):
                if n.func.attr == "mkdir":
                    acc["mkdir"].append(guarded)
                elif n.func.attr in ("write_text", "write_bytes"):
                    acc["write"].append(guarded)


def _is_generator_call(st: ast.stmt) -> bool:
    return isinstance(st, ast.Assign) and isinstance(st.value, ast.Call) and ast.unparse(st.value.func) == "generator_func"


def _generator_call(lb: List[ast.stmt], rel: str) -> Optional[Tuple[int, ast.stmt]]:
    """
    (index in the loop body, the ``code, errors = generator_func()`` statement).  The call may stand alone, or be the
    only statement of a ``try`` whose every handler turns the exception into an error result of the same step
    (``code, errors = None, [Error(...)]``) so that the report block which follows handles it like a returned error.
    """
    for i, st in enumerate(lb):
        if _is_generator_call(st):
            return i, st
        if isinstance(st, ast.Try) and len(st.body) == 1 and _is_generator_call(st.body[0]):
            er = _error_result_assign(st.body[0])
            if er is None or st.orelse or st.finalbody or not st.handlers:
                raise ExtractError(f"{rel}: line {st.lineno}: unexpected shape of the try around generator_func()")
            for h in st.handlers:
                last = h.body[-1] if h.body else None
                ok = (
                    isinstance(last, ast.Assign) and len(last.targets) == 1 and isinstance(last.targets[0], ast.Tuple)
                    and [ast.unparse(e) for e in last.targets[0].elts] == [er[1], er[0]]
                    and isinstance(last.value, ast.Tuple) and len(last.value.elts) == 2
                    and isinstance(last.value.elts[0], ast.Constant) and last.value.elts[0].value is None
                    and isinstance(last.value.elts[1], ast.List) and len(last.value.elts[1].elts) > 0
                    and not any(isinstance(n, (ast.Return, ast.Continue, ast.Break, ast.Raise)) for b in h.body for n in ast.walk(b))
                )
                if not ok:
                    raise ExtractError(f"{rel}: line {h.lineno}: the handler around generator_func() does not end in `{er[1]}, {er[0]} = None, [<error>]`")
            return i, st.body[0]
    return None


def generator_skeleton(repo: pathlib.Path, target: str) -> Dict[str, Any]:
    rel = f"aas_core_codegen/{target}/main.py"
    mod = _parse(repo, rel)
    fns = [n for n in mod.body if isinstance(n, ast.FunctionDef) and n.name == "execute"]
    if len(fns) != 1:
        raise ExtractError(f"{rel}: expected exactly one top-level execute()")
    body = fns[0].body
    table_at = next(
        (i for i, st in enumerate(body) if isinstance(st, ast.AnnAssign) and isinstance(st.target, ast.Name) and st.target.id == "rel_paths_generators"),
        None,
    )
    loops = [st for st in body if isinstance(st, ast.For)]
    checks: List[Dict[str, str]] = []
    steps: List[Dict[str, Any]] = []
    acc: Dict[str, List[bool]] = {"mkdir": [], "write": []}
    if table_at is not None:
        # ---- SDK shape: checks, table of generators, loop
        for i, st in enumerate(body[:table_at]):
            er = _error_result_assign(st)
            if er is not None:
                nxt_src = ast.unparse(body[i + 1]) if i + 1 < len(body) else ""
                checks.append({
                    "call": er[2], "handling": _handling(body, i, er[0], er[1]), "tuple": er[1] is not None,
                    # for the stubs only: the errors are texts (passed to the report as they are), not Error objects
                    "strings": "error_message(" not in nxt_src,
                })
        table = body[table_at].value  # type: ignore
        if not isinstance(table, (ast.List, ast.Tuple)) or not table.elts:
            raise ExtractError(f"{rel}: rel_paths_generators is not a non-empty list literal")
        for e in table.elts:
            if not (isinstance(e, ast.Tuple) and len(e.elts) == 2 and isinstance(e.elts[1], ast.Lambda)):
                raise ExtractError(f"{rel}: line {e.lineno}: entry of rel_paths_generators is not (path, lambda)")
            b = e.elts[1].body
            if isinstance(b, ast.Call):
                call, fallible = b, True
            elif (
                isinstance(b, ast.Tuple) and len(b.elts) == 2 and isinstance(b.elts[0], ast.Call)
                and isinstance(b.elts[1], ast.Constant) and b.elts[1].value is None
            ):
                call, fallible = b.elts[0], False
            else:
                raise ExtractError(f"{rel}: line {e.lineno}: lambda body is neither a call nor (call, None)")
            steps.append({"path": ast.unparse(e.elts[0]), "call": ast.unparse(call.func), "fallible": fallible})
        if len(loops) != 1 or ast.unparse(loops[0].iter) != "rel_paths_generators":
            raise ExtractError(f"{rel}: expected exactly one loop over rel_paths_generators")
        lb = loops[0].body
        found = _generator_call(lb, rel)
        if found is None:
            raise ExtractError(f"{rel}: the loop does not call generator_func()")
        at, call_stmt = found
        er = _error_result_assign(call_stmt)
        if er is None:
            raise ExtractError(f"{rel}: the result of generator_func() is not bound to (value, errors)")
        loop_handling = _handling(lb, at, er[0], er[1])
        _io_calls(lb[at + 1 :], False, acc)
        after = body[body.index(loops[0]) + 1 :]
    else:
        # ---- schema shape: one generating call, one file
        at = next((i for i, st in enumerate(body) if _error_result_assign(st) is not None), None)
        if at is None:
            raise ExtractError(f"{rel}: no (code, errors) = generate(...) found")
        er = _error_result_assign(body[at])
        assert er is not None
        loop_handling = _handling(body, at, er[0], er[1])
        steps.append({"path": "schema", "call": er[2], "fallible": True})
        _io_calls(body[at + 1 :], False, acc)
        after = body[at + 1 :]
        if any(_error_result_assign(st) is not None for st in body[at + 1 :]):
            raise ExtractError(f"{rel}: more than one error-returning call in the schema shape")
    if not acc["write"]:
        raise ExtractError(f"{rel}: no write_text/write_bytes call found after the generator call")
    last2 = after[-2:] if len(after) >= 2 else after
    done = (
        len(last2) == 2 and extract._is_done_line(last2[0]) and isinstance(last2[1], ast.Return)
        and isinstance(last2[1].value, ast.Constant) and last2[1].value.value == 0
    )
    return {
        "target": target, "checks": checks, "loop": loop_handling, "steps": steps,
        "mkdirs": len(acc["mkdir"]), "mkdir_guarded": all(acc["mkdir"]),
        "writes": len(acc["write"]), "write_guarded": all(acc["write"]), "done_line": done,
    }


def gen_Generators(repo: pathlib.Path) -> str:
    out = [
        "import AasVerif.Model.Execute\n"
        + HEADER.format(src="execute() of the eight <target>/main.py (harness/props/c02.py:gen_Generators)"),
        "namespace AasVerif.Gen.Generators\nopen AasVerif.Execute\n",
    ]
    b = lambda v: str(bool(v)).lower()  # noqa: E731
    for t in TARGETS:
        sk = generator_skeleton(repo, t)
        checks = ",\n    ".join(f"{{ call := {_lean_str(c['call'])}, handling := .{c['handling']} }}" for c in sk["checks"])
        steps = ",\n    ".join(
            f"{{ path := {_lean_str(s['path'])}, call := {_lean_str(s['call'])}, fallible := {b(s['fallible'])} }}" for s in sk["steps"]
        )
        out.append(
            f"def {t}Checks : List Check := [\n    {checks}]\n\n"
            f"def {t}Steps : List Step := [\n    {steps}]\n\n"
            f"def {t} : Skeleton :=\n  {{ target := {_lean_str(t)}, checks := {t}Checks, loop := .{sk['loop']}, steps := {t}Steps,\n"
            f"    mkdirs := {sk['mkdirs']}, mkdirGuarded := {b(sk['mkdir_guarded'])}, writes := {sk['writes']}, "
            f"writeGuarded := {b(sk['write_guarded'])}, doneLine := {b(sk['done_line'])} }}\n"
        )
    out.append("def all : List Skeleton := [" + ", ".join(TARGETS) + "]\n")
    out.append("end AasVerif.Gen.Generators\n")
    return "\n".join(out)


# =========================================================================== correspondence: real execute() with stubbed steps

TINY_MODEL = HEADER_MM + _cls("Thing", [("val", "str")])


class _Stubbed:
    """The real ``<target>/main.py:execute`` with every check and generator step replaced by a stub with a scripted outcome."""

    def __init__(self, target: str) -> None:
        import importlib

        mm = _mm()
        self.target = target
        self.sk = generator_skeleton(REPO, target)
        self.main = importlib.import_module(f"aas_core_codegen.{target}.main")
        self.work = mm.new_scratch("stub")
        self.model_path = self.work / "meta_model.py"
        self.model_path.write_text(TINY_MODEL, encoding="utf-8")
        ld = mm.load(TINY_MODEL)
        if not ld.ok:
            raise RuntimeError("the tiny model of the stubbed correspondence is not accepted: " + str(ld.error or ld.crash))
        self.st = ld.symbol_table
        self.atok = ld.atok
        self.snippets = mm.snippets_for(target, self.st)

    def _resolve(self, dotted: str) -> Tuple[Any, str]:
        parts = dotted.split(".")
        obj = self.main
        for prt in parts[:-1]:
            obj = getattr(obj, prt)
        return obj, parts[-1]

    def run(self, failed: Sequence[int], outs: Dict[int, str]) -> str:
        """Canonical outcome: ``exit0`` | ``exit1 <kind> <index>`` | ``crash <Type>`` | ``odd …``."""
        import pathlib as _pl

        from aas_core_codegen import run as cg_run, specific_implementations as si
        from aas_core_codegen.common import Error, LinenoColumner, Stripped

        sk = self.sk
        state = {"check": 0, "step": 0, "pending": None, "current": None, "encode": None}
        patches: List[Tuple[Any, str, Any]] = []

        def patch(obj: Any, name: str, new: Any) -> None:
            patches.append((obj, name, getattr(obj, name)))
            setattr(obj, name, new)

        def make_check(is_tuple: bool, strings: bool) -> Any:
            def stub(*a: Any, **k: Any) -> Any:
                i = state["check"]
                state["check"] += 1
                errs: Any = None
                if i in failed:
                    errs = [f"STUB-CHECK-{i}"] if strings else [Error(None, f"STUB-CHECK-{i}")]
                if is_tuple:
                    return (None, errs) if errs else (self.st, None)
                return errs

            return stub

        def make_step(fallible: bool) -> Any:
            def stub(*a: Any, **k: Any) -> Any:
                i = state["step"]
                state["step"] += 1
                state["current"] = i
                o = outs.get(i, "ok")
                state["pending"] = o if o in ("mkdir", "write") else None
                # "encode": the step succeeds, but its text holds an unpaired surrogate: the REAL write_text raises
                # UnicodeEncodeError (a ValueError, not an OSError); for the model that is a failed write of this step
                body = "stub \ud83d\n" if o == "encode" else "stub\n"
                if o == "encode":
                    state["encode"] = i
                if self.target == "java":
                    value: Any = [self.main.java_common.JavaFile(f"Stub{i}.java", "// " + body)]
                else:
                    value = body
                if not fallible:
                    return value
                if o == "err":
                    return None, [Error(None, f"STUB-STEP-{i}")]
                return value, None

            return stub

        # one stub per distinct function: the k-th check call is check k, the k-th generator call is step k
        done = set()
        for c in sk["checks"]:
            if c["call"] not in done:
                done.add(c["call"])
                obj, name = self._resolve(c["call"])
                patch(obj, name, make_check(c["tuple"], c["strings"]))
        fall_by_call: Dict[str, bool] = {}
        for st in sk["steps"]:
            if st["call"] in fall_by_call and fall_by_call[st["call"]] != st["fallible"]:
                raise RuntimeError(f"{st['call']} is used both as a fallible and an infallible step")
            fall_by_call[st["call"]] = st["fallible"]
        for call, fallible in fall_by_call.items():
            obj, name = self._resolve(call)
            patch(obj, name, make_step(fallible))

        out_dir = self.work / f"out{len(list(self.work.iterdir()))}"
        out_dir.mkdir()
        real_mkdir, real_write_text, real_write_bytes = _pl.Path.mkdir, _pl.Path.write_text, _pl.Path.write_bytes

        def under_out(pth: Any) -> bool:
            return str(pth).startswith(str(out_dir))

        def mkdir(pth: Any, *a: Any, **k: Any) -> Any:
            if state["pending"] == "mkdir" and under_out(pth):
                state["pending"] = None
                raise OSError(f"STUB-MKDIR-{state['current']}")
            return real_mkdir(pth, *a, **k)

        def write_text(pth: Any, *a: Any, **k: Any) -> Any:
            if state["pending"] == "write" and under_out(pth):
                state["pending"] = None
                raise OSError(f"STUB-WRITE-{state['current']}")
            return real_write_text(pth, *a, **k)

        def write_bytes(pth: Any, *a: Any, **k: Any) -> Any:
            if state["pending"] == "write" and under_out(pth):
                state["pending"] = None
                raise OSError(f"STUB-WRITE-{state['current']}")
            return real_write_bytes(pth, *a, **k)

        patch(_pl.Path, "mkdir", mkdir)
        patch(_pl.Path, "write_text", write_text)
        patch(_pl.Path, "write_bytes", write_bytes)
        stdout, stderr = io.StringIO(), io.StringIO()
        try:
            spec = {si.ImplementationKey(k): Stripped(v.strip()) for k, v in self.snippets.items() if v.strip() != ""}
            context = cg_run.Context(
                model_path=self.model_path, symbol_table=self.st, spec_impls=spec,
                lineno_columner=LinenoColumner(atok=self.atok), output_dir=out_dir,
            )
            try:
                rc = self.main.execute(context=context, stdout=stdout, stderr=stderr)
            except BaseException as e:  # noqa: B902
                if isinstance(e, (KeyboardInterrupt, SystemExit)):
                    raise
                return f"crash {type(e).__name__}"
        finally:
            for obj, name, old in reversed(patches):
                setattr(obj, name, old)
        err = stderr.getvalue()
        if rc == 0:
            ok = err == "" and stdout.getvalue() == f"Code generated to: {out_dir}\n"
            return "exit0" if ok else f"odd rc0 stderr={err[:80]!r} stdout={stdout.getvalue()[:80]!r}"
        marks = re.findall(r"STUB-(CHECK|STEP|MKDIR|WRITE)-(\d+)", err)
        if rc == 1 and len(set(marks)) == 1:
            kind = {"CHECK": "check", "STEP": "generate", "MKDIR": "mkdir", "WRITE": "write"}[marks[0][0]]
            return f"exit1 {kind} {marks[0][1]}"
        if rc == 1 and not marks and state["encode"] is not None and state["encode"] == state["current"] and "surrogates not allowed" in err:
            # the report of the real UnicodeEncodeError carries no marker: the run stops at the first failure, so the
            # step is the one called last
            return f"exit1 write {state['encode']}"
        return f"odd rc={rc} stderr={err[:160]!r}"


def _wire(failed: Sequence[int], outs: Dict[int, str]) -> str:
    f = ",".join(str(i) for i in sorted(failed)) or "-"
    o = ",".join(f"{i}:{'write' if k == 'encode' else k}" for i, k in sorted(outs.items())) or "-"
    return f"{f} {o}"


def correspond(ctx: Ctx) -> None:
    """Real execute() under scripted step outcomes vs Model.Execute.execute on the regenerated skeleton."""
    _mm()
    for target in TARGETS:
        try:
            stub = _Stubbed(target)
        except ExtractError as e:
            ctx.broken.append({"stage": "extract", "gen": "Generators", "error": str(e)})
            continue
        sk = stub.sk
        nc, ns = len(sk["checks"]), len(sk["steps"])
        fall = [i for i, s in enumerate(sk["steps"]) if s["fallible"]]
        shape = ctx.model([f"shape {target}"])[0]
        expected_shape = f"{nc} {ns} " + (",".join(map(str, fall)) or "-")
        if shape != expected_shape:
            ctx.disagree("shape", target, expected_shape, shape)
        kinds = ["err", "write", "encode"] + (["mkdir"] if sk["mkdirs"] > 0 else [])
        cases: List[Tuple[str, List[int], Dict[int, str]]] = [("enumerated", [], {})]
        # seed-independent: every single failure of every check and of every step, in each way
        for i in range(nc):
            cases.append(("enumerated", [i], {}))
        for i in range(ns):
            for k in kinds:
                cases.append(("enumerated", [], {i: k}))
        # a failing check together with a failing step, the last check with every step kind
        for k in kinds:
            if nc:
                cases.append(("enumerated", [nc - 1], {0: k}))
        # seeded: several failures at once
        for _ in range(ctx.n(12, 120)):
            f = [i for i in range(nc) if ctx.rng.random() < 0.15]
            o = {i: ctx.rng.choice(kinds) for i in range(ns) if ctx.rng.random() < 0.12}
            cases.append(("random", f, o))
        answers = ctx.model([f"exec {target} {_wire(f, o)}" for _, f, o in cases])
        for (stream, f, o), model in zip(cases, answers):
            impl = stub.run(f, o)
            ctx.count((target, tuple(f), tuple(sorted(o.items()))), nontrivial=bool(f or o), stream=f"stub-{stream}")
            ctx.hit(f"{target}:{impl.split(' ')[0]}" + (f":{impl.split(' ')[1]}" if impl.startswith("exit1") else ""))
            ctx.traces_validated += 1
            if impl != model:
                ctx.disagree(f"stub-{stream}", {"target": target, "failed_checks": f, "step_outcomes": {str(k): v for k, v in o.items()}}, impl, model)
            # the direct oracle on this input (independent of the model): a crash or a dropped error of the plumbing
            # violates C02 itself
            any_err = any(i < nc for i in f) or any(k in ("write", "encode", "mkdir") or sk["steps"][i]["fallible"] for i, k in o.items())
            if impl.startswith("crash") or impl.startswith("odd") or (impl == "exit0" and any_err) or (impl.startswith("exit1") and not any_err):
                sig = f"C02:plumbing:{target}:{impl.split(' ')[0]}"
                if sum(1 for x in ctx.failures if x["sig"] == sig) < 2:
                    ctx.fail(
                        {"kind": "stub", "target": target, "failed_checks": f, "step_outcomes": {str(k): v for k, v in o.items()}},
                        f"{target}/main.py:execute with failing checks {f} and step outcomes {o}: {impl} (model: {model})",
                        sig,
                    )
            if len(ctx.samples) < 4:
                ctx.sample({"target": target, "failed_checks": f, "step_outcomes": o, "impl": impl, "model": model})
