"""C02 — generators never crash on accepted meta-models.

Direct oracle (the main part): every front-end-accepted model × 8 targets + smoke, in-process through
``mm.generate`` / ``mm.smoke``; any exception escaping the project = failing input with
``sig = C02:crash:<ExcType>@<repo-relative file>:<function>`` (innermost frame inside aas_core_codegen).

Lean part (decision logic + tables): ``Gen/Generators.lean`` is the skeleton of every
``<target>/main.py:execute`` (ordered generator calls, how each ``(code, errors)`` result is handled,
try/except wrapping, file writes), ``Props/C02.lean`` proves over ALL outcome combinations that no error
result is dropped.  Correspondence: the real ``execute`` with the generator functions replaced by stubs
producing the abstract outcomes vs the Lean model ``Model/Execute.lean``.
"""
from __future__ import annotations

import ast
import hashlib
import io
import json
import pathlib
import re
import sys
import traceback
from typing import Any, Dict, Iterator, List, Optional, Sequence, Tuple

from harness.core import REPO, VERIF, Ctx, corpus, show
from harness import extract
from harness.extract import ExtractError, HEADER, _parse, _lean_str

ID = "C02"
GEN = ["Generators", "ExitPaths"]
LEAN_PROPS = ["AasVerif.Props.C02", "AasVerif.Props.C03Exit"]

TARGETS = ("cpp", "csharp", "golang", "java", "jsonschema", "python", "typescript", "xsd")
ENTRIES = TARGETS + ("smoke",)


# =========================================================================== crash signature


def crash_sig(exc_name: str, tb_text: Optional[str], exc: Optional[BaseException] = None) -> str:
    """``C02:crash:<Type>@<file relative to the repo>:<function>`` of the innermost project frame."""
    typ = exc_name.split(":", 1)[1] if exc_name.startswith("crash:") else exc_name
    frames = re.findall(r'File "([^"]+)", line (\d+), in (\S+)', tb_text or "")
    inner = None
    for path, _line, fn in frames:
        if "/aas_core_codegen/" in path:
            inner = (path.split("/aas_core_codegen/", 1)[1], fn)
    if inner is None:
        return f"C02:crash:{typ}@?:?"
    return f"C02:crash:{typ}@aas_core_codegen/{inner[0]}:{inner[1]}"


# =========================================================================== running one model


def _mm():
    from harness import mm

    return mm


def run_entry(entry: str, text: str, symbol_table: Any, cache_dir: Optional[pathlib.Path] = None) -> Dict[str, Any]:
    """One (model, target|smoke) run judged by the statement of C02. Never raises."""
    mm = _mm()
    if entry == "smoke":
        r = mm.smoke(text)
        out_files = None
    else:
        out = mm.new_scratch("out")
        r = mm.generate(entry, text, out, symbol_table=symbol_table, cache_dir=cache_dir)
        out_files = sum(1 for p in out.rglob("*") if p.is_file()) if out.exists() else 0
    res: Dict[str, Any] = {"entry": entry, "rc": r.rc, "seconds": round(r.seconds, 3)}
    if r.exception is not None:
        res["outcome"] = "crash"
        res["sig"] = crash_sig(r.exception, r.traceback)
        res["what"] = (r.traceback or "").strip().split("\n")[-1][:300]
        return res
    if not isinstance(r.rc, int) or isinstance(r.rc, bool):
        res["outcome"] = "bad"
        res["sig"] = f"C02:status-not-int:{entry}"
        res["what"] = f"execute returned {r.rc!r}"
    elif r.rc == 0:
        if r.stderr != "":
            res["outcome"], res["sig"], res["what"] = "bad", f"C02:rc0-with-stderr:{entry}", f"exit 0 but stderr {r.stderr[:200]!r}"
        elif out_files == 0:
            res["outcome"], res["sig"], res["what"] = "bad", f"C02:rc0-without-output:{entry}", "exit 0 but no file written"
        else:
            res["outcome"] = "ok"
    else:
        if r.stderr.strip() == "":
            res["outcome"], res["sig"], res["what"] = "bad", f"C02:silent-failure:{entry}", f"exit {r.rc} with empty stderr"
        else:
            res["outcome"] = "error"
            res["headline"] = re.sub(r"/\S+/meta_model\.py", "<model>", r.stderr.split("\n", 1)[0])[:160]
    return res


def run_model(text: str, entries: Sequence[str] = ENTRIES) -> Dict[str, Any]:
    """All entries on one model text: {'accepted': bool, 'frontend': ..., 'runs': [...]}."""
    mm = _mm()
    try:
        text.encode("utf-8")
    except UnicodeEncodeError:
        return {"accepted": False, "frontend": "unencodable", "runs": []}
    ld = mm.load(text)
    out: Dict[str, Any] = {"accepted": ld.ok, "runs": []}
    if ld.crash is not None:
        out["frontend"] = "crash"
        out["frontend_sig"] = crash_sig(ld.crash, ld.traceback)
        out["frontend_what"] = (ld.traceback or "").strip().split("\n")[-1][:300]
        return out
    if not ld.ok:
        out["frontend"] = "rejected"
        out["frontend_error"] = (ld.error or "")[:300]
        return out
    out["frontend"] = "accepted"
    cache = mm.new_scratch("cache")
    for e in entries:
        out["runs"].append(run_entry(e, text, ld.symbol_table, cache_dir=cache))
    return out


def judge(ctx: Ctx, name: str, text: str, stream: str, res: Dict[str, Any], expect_accepted: Optional[bool] = None) -> None:
    key = hashlib.blake2b(text.encode("utf-8", "backslashreplace"), digest_size=8).hexdigest()
    ctx.count(("model", key), nontrivial=res["accepted"], stream=stream)
    ctx.hit("frontend:" + res["frontend"])
    inp = {"name": name, "stream": stream, "text": text}
    if res["frontend"] == "crash":
        # the front end neither accepted nor rejected the model: main.execute raised an uncaught exception for every target
        ctx.fail(inp, "front end raised: " + res["frontend_what"], res["frontend_sig"], {"entry": "frontend"})
        return
    if expect_accepted is True and not res["accepted"]:
        ctx.note(f"corpus model {name} is no longer accepted by the front end: {res.get('frontend_error', '')[:120]}")
    for r in res["runs"]:
        ctx.evaluations += 1
        ctx.hit(f"{r['entry']}:{r['outcome']}")
        if r["outcome"] in ("crash", "bad"):
            ctx.fail(dict(inp, entry=r["entry"]), f"{r['entry']}: {r['what']}", r["sig"], {"entry": r["entry"]})
        elif r["outcome"] == "error":
            ctx.hit(f"{r['entry']}:error:{r['headline'][:70]}")
    if len(ctx.samples) < 12 and res["accepted"]:
        ctx.sample({"name": name, "stream": stream, "outcomes": {r["entry"]: r["outcome"] for r in res["runs"]}, "chars": len(text)})


# =========================================================================== input streams

HEADER_MM = '''\
from enum import Enum
from re import match
from typing import List, Optional, Set

from icontract import invariant, DBC

from aas_core_meta.marker import (
    abstract,
    serialization,
    implementation_specific,
    verification,
    constant_set,
    non_mutating,
)

__version__ = "V0.1"

__xml_namespace__ = "https://example.com/aasv/0/1"

'''


def _cls(name: str, props: Sequence[Tuple[str, str]], bases: str = "DBC", doc: bool = True, decorators: str = "") -> str:
    lines = [decorators + f"class {name}({bases}):"]
    if doc:
        lines.append('    """Represent something."""')
        lines.append("")
    for p, t in props:
        lines.append(f"    {p}: {t}")
        lines.append('    """Some property."""')
        lines.append("")
    args = "".join(f", {p}: {t}" + (" = None" if t.startswith("Optional") else "") for p, t in props)
    lines.append(f"    def __init__(self{args}) -> None:")
    if props:
        for p, _ in props:
            lines.append(f"        self.{p} = {p}")
    else:
        lines.append("        pass")
    return "\n".join(lines) + "\n\n\n"


def colliding_name_models() -> Iterator[Tuple[str, str]]:
    """Seed-independent: names that differ in the meta-model but collide after the case conversions of the targets."""
    pairs = [
        ("Some_URL", "Some_url"), ("Some_thing", "Something"), ("Abc_def", "Abc_Def"), ("A_b", "Ab"), ("Thing_1", "Thing1"),
        ("IThing", "Thing"), ("Thing", "Thing_t"), ("Thing", "Thing_enhanced"), ("Verification", "Verification_error"),
    ]
    for a, b in pairs:
        yield f"collide-classes-{a}-{b}", HEADER_MM + _cls(a, [("val", "str")]) + _cls(b, [("val", "str")])
    prop_pairs = [("some_URL", "some_url"), ("some_thing", "something"), ("abc_def", "abc_Def"), ("a_b", "ab"), ("val_1", "val1"),
                  ("class_", "Class"), ("model_type", "modelType")]
    for a, b in prop_pairs:
        yield f"collide-props-{a}-{b}", HEADER_MM + _cls("Thing", [(a, "str"), (b, "str")])
    lit_pairs = [("Some_URL", "Some_url"), ("Ab_c", "Abc"), ("A", "a")]
    for a, b in lit_pairs:
        yield (
            f"collide-literals-{a}-{b}",
            HEADER_MM + f'class Kind(Enum):\n    """Represent a kind."""\n\n    {a} = "x"\n    {b} = "y"\n\n\n' + _cls("Thing", [("kind", "Kind")]),
        )
    # a class against an enumeration / a constant / a verification function / a method against a property
    yield "collide-class-enum", HEADER_MM + 'class Some_kind(Enum):\n    """Represent a kind."""\n\n    A = "x"\n\n\n' + _cls("SomeKind", [("kind", "Some_kind")])
    yield "collide-class-constant", HEADER_MM + _cls("Some_thing", [("val", "str")]) + 'Something: str = constant_str(value="x", description="Some constant.")\n'
    yield (
        "collide-class-verification",
        HEADER_MM + '@verification\ndef is_thing(text: str) -> bool:\n    """Check it."""\n    return match(r"^a$", text) is not None\n\n\n' + _cls("Is_thing", [("val", "str")]),
    )
    yield (
        "collide-prop-method",
        HEADER_MM
        + 'class Thing(DBC):\n    """Represent something."""\n\n    some_val: str\n    """Some property."""\n\n'
        + '    @implementation_specific\n    def some_Val(self) -> str:\n        """Do it."""\n\n'
        + "    def __init__(self, some_val: str) -> None:\n        self.some_val = some_val\n\n\n",
    )
    # names of the generated support code / keywords of the targets
    for n in ("Class", "Object", "String", "Iterator", "Error", "Path", "Type", "Visitor", "Transformer", "Reporting", "Common", "Types", "Xmlization", "Jsonization"):
        yield f"collide-support-{n}", HEADER_MM + _cls(n, [("val", "str")])
    for p in ("class_", "type", "value", "errors", "that", "other", "path", "self_", "result", "instance", "jsonable", "element"):
        yield f"collide-support-prop-{p}", HEADER_MM + _cls("Thing", [(p, "str")])


def fixture_models() -> List[pathlib.Path]:
    seen = set()
    out = []
    for p in sorted((REPO / "dev" / "test_data").glob("**/meta_model.py")):
        try:
            h = hashlib.blake2b(p.read_bytes(), digest_size=8).hexdigest()
        except OSError:
            continue
        if h not in seen:
            seen.add(h)
            out.append(p)
    return out


def hierarchy_models(max_classes: int, variants: Sequence[Tuple[bool, Optional[str]]]) -> Iterator[Tuple[str, str]]:
    mm = _mm()
    for h in mm.enumerate_hierarchies(max_classes, abstract_mixes=True, all_orders_up_to=0):
        for holder, wmt in variants:
            if holder and wmt is None:
                continue
            m = mm.hierarchy_to_mm(h, holder=holder, with_model_type=wmt)
            tag = "".join("A" if a else "c" for a in h.abstract) + "-" + ".".join(",".join(map(str, ps)) or "-" for ps in h.parents)
            yield f"hier-{tag}-{'holder' if holder else 'plain'}-{wmt}", mm.render(m)


def random_models(rng: Any, n_default: int, seeds_per_hazard: int, n_everything: int) -> Iterator[Tuple[str, str, str]]:
    """(name, stream, text): default features, each hazard flag switched on alone, everything on."""
    import random as _random

    mm = _mm()
    for i in range(n_default):
        s = rng.randrange(2**32)
        yield f"random-default-{s}", "random-default", mm.render(mm.random_mm(_random.Random(s), 1 + (s % 6), mm.Features()))
    for flag in mm.Features.HAZARDS:
        for k in range(seeds_per_hazard):
            # the first seed of every hazard is fixed (seed-independent part), the others come from the run's rng
            s = k if k == 0 else rng.randrange(2**32)
            ft = mm.Features()
            setattr(ft, flag, True)
            yield f"random-{flag}-{s}", f"hazard:{flag}", mm.render(mm.random_mm(_random.Random(s), 2 + (s % 4), ft))
    for i in range(n_everything):
        s = rng.randrange(2**32)
        yield f"random-everything-{s}", "random-everything", mm.render(mm.random_mm(_random.Random(s), 1 + (s % 5), mm.Features.everything()))


def all_models(ctx: Ctx) -> Iterator[Tuple[str, str, str]]:
    """(name, stream, text) in a deterministic order: corpus, fixtures, enumerated hierarchies, collisions, random."""
    for c in corpus(ID):
        yield c["name"], "corpus", c["text"]
    fixtures = fixture_models()
    if ctx.tier == "quick" and not ctx.searching:
        # a fixed third of the fixtures + a seeded sample of the rest
        fixed = fixtures[::3]
        rest = [p for p in fixtures if p not in fixed]
        ctx.rng.shuffle(rest)
        fixtures = fixed + rest[: ctx.n(15, 0)]
    for p in fixtures:
        try:
            text = p.read_text(encoding="utf-8")
        except (OSError, UnicodeDecodeError):
            continue
        yield str(p.relative_to(REPO / "dev" / "test_data")), "fixture", text
    if ctx.tier == "quick" and not ctx.searching:
        hs = list(hierarchy_models(3, [(False, "roots")]))
        hs += list(hierarchy_models(3, [(True, "roots"), (False, None)]))[::4]
    else:
        hs = list(hierarchy_models(3, [(False, "roots"), (True, "roots"), (False, None), (False, "all")]))
        hs += list(hierarchy_models(4, [(False, "roots"), (True, "all")]))[:: (2 if ctx.searching or ctx.tier == "thorough" else 8)]
    for name, text in hs:
        yield name, "hierarchy", text
    for name, text in colliding_name_models():
        yield name, "collision", text
    yield from random_models(ctx.rng, ctx.n(12, 500), 1 if ctx.tier == "quick" else 8, ctx.n(3, 100))


# =========================================================================== oracle


def _work(item: Tuple[str, str, str]) -> Dict[str, Any]:
    name, stream, text = item
    try:
        return run_model(text)
    except BaseException as e:  # noqa: B902  (harness problem, not a project crash)
        return {"accepted": False, "frontend": "harness-error", "runs": [], "error": f"{type(e).__name__}: {e}", "tb": traceback.format_exc()}


def _map(items: List[Tuple[str, str, str]], workers: int) -> Iterator[Dict[str, Any]]:
    if workers <= 1 or len(items) < 4:
        for it in items:
            yield _work(it)
        return
    import multiprocessing

    mpctx = multiprocessing.get_context("fork")
    with mpctx.Pool(workers) as pool:
        yield from pool.imap(_work, items, chunksize=1)


def oracle(ctx: Ctx) -> None:
    import os

    _mm()  # import (puts the repo first on sys.path) before forking
    items = list(all_models(ctx))
    workers = int(os.environ.get("VERIF_WORKERS", "0") or 0) or (4 if ctx.tier == "quick" else 8)
    for (name, stream, text), res in zip(items, _map(items, workers)):
        if res["frontend"] == "harness-error":
            raise RuntimeError(f"harness error on {name}: {res['error']}\n{res['tb']}")
        judge(ctx, name, text, stream, res, expect_accepted=(stream == "corpus") or None)
    ctx.extra_cov["rule"] = (
        "one evaluation = one (model, target or smoke) run; models are distinct by text, rejected models are trivial"
    )


def replay(ctx: Ctx, data: Dict[str, Any]) -> Dict[str, Any]:
    inp = data["failure"]["input"] if "failure" in data else data
    text = inp["text"]
    entries = [inp["entry"]] if inp.get("entry") in ENTRIES else list(ENTRIES)
    res = run_model(text, entries)
    return {"name": inp.get("name"), "frontend": res["frontend"], "frontend_sig": res.get("frontend_sig"),
            "runs": [{k: r.get(k) for k in ("entry", "outcome", "rc", "sig", "what", "headline")} for r in res["runs"]],
            "property_holds": res["frontend"] != "crash" and all(r["outcome"] in ("ok", "error") for r in res["runs"])}
