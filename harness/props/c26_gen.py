"""C26 — extractor of the fixed skeletons of yielding/linear.py and cpp/yielding.py (Gen/Yielding.lean).

What is translated (with ``ast``, never importing the repo):

* for every ``_linearize_*`` function of ``yielding/linear.py``: the statement constructors that
  are called and the ``result.extend(<name>)`` calls, in source order (both branches of an
  ``if`` in order) — the *shape* of the emitted statement sequence;
* the order of the passes in ``linearize_to_subroutines`` and ``_compress_in_place``;
* for ``cpp/yielding.py::_generate_subroutine_body``: for every statement class of the
  ``isinstance`` chain which control transfer the emitted C++ block contains (``continue;`` /
  ``return;``), and the statement classes after which the end-of-routine block is appended.

The Lean side (`Model/YieldingSkeleton.lean`) holds the skeleton the hand-written model was
written against; `Props/C26.lean` proves them equal by `decide`.
"""
from __future__ import annotations

import ast
import pathlib
from typing import List, Tuple

from harness.extract import HEADER, ExtractError, _func, _parse

STATEMENT_CLASSES = ("Command", "If", "Jump", "Yield", "Noop")
LINEARIZE_FUNCS = (
    "_linearize_command",
    "_linearize_if_true",
    "_linearize_if_false",
    "_linearize_for",
    "_linearize_while",
    "_linearize_yield",
)


def _lean_str(s: str) -> str:
    if any(ord(c) < 32 or ord(c) > 126 or c in '"\\' for c in s):
        raise ExtractError(f"unexpected character in identifier {s!r}")
    return '"' + s + '"'


def _lean_strs(ss: List[str]) -> str:
    return "[" + ", ".join(_lean_str(s) for s in ss) + "]"


def _ordered_nodes(node: ast.AST) -> List[ast.AST]:
    """All descendants in source order (ast.walk is breadth-first, so sort by position)."""
    nodes = [n for n in ast.walk(node) if hasattr(n, "lineno")]
    nodes.sort(key=lambda n: (n.lineno, n.col_offset))
    return nodes


def _linearize_shape(fn: ast.FunctionDef) -> List[str]:
    out: List[str] = []
    for n in _ordered_nodes(fn):
        if isinstance(n, ast.Call):
            f = n.func
            if isinstance(f, ast.Name) and f.id in STATEMENT_CLASSES:
                out.append(f.id)
            elif (
                isinstance(f, ast.Attribute)
                and f.attr == "extend"
                and isinstance(f.value, ast.Name)
                and f.value.id == "result"
                and len(n.args) == 1
                and isinstance(n.args[0], ast.Name)
            ):
                out.append("extend:" + n.args[0].id)
    if not out:
        raise ExtractError(f"{fn.name}: no statement constructor found")
    return out


def _call_order(fn: ast.FunctionDef, prefix: str = "_") -> List[str]:
    out = []
    for n in _ordered_nodes(fn):
        if isinstance(n, ast.Call) and isinstance(n.func, ast.Name) and n.func.id.startswith(prefix):
            out.append(n.func.id)
    return out


def _isinstance_class(test: ast.AST) -> str:
    """`isinstance(statement, yielding_linear.X)` -> X"""
    if (
        isinstance(test, ast.Call)
        and isinstance(test.func, ast.Name)
        and test.func.id == "isinstance"
        and len(test.args) == 2
        and isinstance(test.args[1], ast.Attribute)
    ):
        return test.args[1].attr
    raise ExtractError("unexpected test in the isinstance chain of _generate_subroutine_body")


def _strings(nodes: List[ast.stmt]) -> str:
    parts = []
    for st in nodes:
        for n in ast.walk(st):
            if isinstance(n, ast.Constant) and isinstance(n.value, str):
                parts.append(n.value)
    return "\n".join(parts)


def _emit_skeleton(fn: ast.FunctionDef) -> Tuple[List[Tuple[str, List[str]]], List[str]]:
    loop = None
    for n in fn.body:
        if isinstance(n, ast.For):
            loop = n
            break
    if loop is None:
        raise ExtractError("_generate_subroutine_body: no for-loop over the statements")
    chain = None
    tail_ifs = []
    for st in loop.body:
        if isinstance(st, ast.If):
            if chain is None:
                chain = st
            else:
                tail_ifs.append(st)
    if chain is None:
        raise ExtractError("_generate_subroutine_body: isinstance chain not found")
    table: List[Tuple[str, List[str]]] = []
    cur: ast.AST = chain
    while isinstance(cur, ast.If):
        cls = _isinstance_class(cur.test)
        text = _strings(cur.body)
        kinds = [k for k in ("continue", "return") if (k + ";") in text]
        table.append((cls, kinds))
        if len(cur.orelse) == 1 and isinstance(cur.orelse[0], ast.If):
            cur = cur.orelse[0]
        else:
            break
    # end-of-routine block: `if (i == len(subroutine) - 1 and next_subroutine is None and isinstance(statement, X))`
    end_kinds: List[str] = []
    for st in tail_ifs:
        for n in ast.walk(st.test):
            if isinstance(n, ast.Call) and isinstance(n.func, ast.Name) and n.func.id == "isinstance":
                second = n.args[1]
                if isinstance(second, ast.Attribute):
                    end_kinds.append(second.attr)
                elif isinstance(second, ast.Tuple):
                    end_kinds.extend(e.attr for e in second.elts if isinstance(e, ast.Attribute))
        if "return;" not in _strings(st.body):
            raise ExtractError("end-of-routine block does not return")
    if not end_kinds:
        raise ExtractError("end-of-routine block of _generate_subroutine_body not found")
    return table, end_kinds


def gen_Yielding(repo: pathlib.Path) -> str:
    lin = _parse(repo, "aas_core_codegen/yielding/linear.py")
    cpp = _parse(repo, "aas_core_codegen/cpp/yielding.py")
    shapes = [(name, _linearize_shape(_func(lin, name))) for name in LINEARIZE_FUNCS]
    pipeline = _call_order(_func(lin, "linearize_to_subroutines"))
    compress = _call_order(_func(lin, "_compress_in_place"))
    emit, end_kinds = _emit_skeleton(_func(cpp, "_generate_subroutine_body"))
    # does the emitted switch have `break`s? (the model relies on C++ fall-through)
    body_fn = _func(cpp, "generate_execute_body")
    has_break = "break;" in _strings(body_fn.body) or "break;" in _strings(_func(cpp, "_generate_subroutine_body").body)
    default_throws = "default:" in _strings(body_fn.body) and "throw" in _strings(body_fn.body)

    src = "aas_core_codegen/yielding/linear.py, aas_core_codegen/cpp/yielding.py"
    out = HEADER.format(src=src)
    out += "namespace AasVerif.Gen.Yielding\n"
    out += "/-- per `_linearize_*`: statement constructors called and `result.extend(x)`, in source order -/\n"
    out += "def linearizeShapes : List (String × List String) := [\n"
    out += ",\n".join(f"  ({_lean_str(n)}, {_lean_strs(s)})" for n, s in shapes) + "]\n"
    out += f"def pipelineCalls : List String := {_lean_strs(pipeline)}\n"
    out += f"def compressCalls : List String := {_lean_strs(compress)}\n"
    out += "/-- per statement class of `_generate_subroutine_body`: control transfers in the emitted block -/\n"
    out += "def emitTransfers : List (String × List String) := [\n"
    out += ",\n".join(f"  ({_lean_str(n)}, {_lean_strs(s)})" for n, s in emit) + "]\n"
    out += f"def endOfRoutineAfter : List String := {_lean_strs(end_kinds)}\n"
    out += f"def caseBlocksBreak : Bool := {'true' if has_break else 'false'}\n"
    out += f"def defaultThrows : Bool := {'true' if default_throws else 'false'}\n"
    out += "end AasVerif.Gen.Yielding\n"
    return out


if __name__ == "__main__":
    import sys

    print(gen_Yielding(pathlib.Path(sys.argv[1])))
