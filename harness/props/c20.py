"""C20 — generated source files are syntactically well-formed.

Wrapper level: the description/comment wrappers of the six SDK targets against Model.Descr
(correspondence), and against real parsers / spec lexers (direct oracle).
Whole-file level: harness/props/c20_files.py (all 8 targets generated for nasty descriptions).
"""
from __future__ import annotations

import ast
import io
import itertools
import json
import pathlib
import subprocess
import time
import tokenize
import warnings
import xml.etree.ElementTree as ET
from typing import Any, Callable, Dict, Iterator, List, Optional, Sequence, Tuple

from harness.core import Ctx, corpus, crash_name, dec_list, dec_text, enc_list, enc_text
from harness.props.c20_gen import gen_Descr  # noqa: F401  (used by the runner through GEN)

ID = "C20"
GEN = ["Descr"]

QUICK_NASTY = {
    "ends-dquote", "ends-two-dquotes", "ends-triple-dquote", "ends-literal-backslash-dquote", "star-slash-middle",
    "star-slash-literal-end", "backslash-end", "backslash-end-of-middle-line-literal", "windows-path-users",
    "backslash-u-star-slash-literal", "xml-specials", "xml-cdata-end", "ctrl-0001", "ctrl-2028", "lone-cr",
    "multi-paragraph-quotes", "constraint-field", "rejected-lone-star", "backtick-in-literal", "ends-vt",
}

WRAPPERS = ["docstring", "pycomment", "go", "cpp", "java", "ts", "cs", "csesc"]

# one representative per code-point class
CLASSES = [
    "a", " ", '"', "'", "\\", "*", "/", "\n", "\r", "\x0b", "\x1c", "\x85", "\u2028", "\t", "\x1f", "\x01",
    "\x00", "&", "<", ">", "u", "#", "\U0001F600", "\ud800", "\ufffe", "\x7f", "\xa0",
]
# the classes which matter for some wrapper (used for the length-3 enumeration of the quick tier)
CORE = ["a", " ", '"', "\\", "*", "/", "\n", "\r", "\x0b", "\u2028", "u", "&", "<", "\x01"]
WORDS = [
    "say", '"hi"', '"', '""', '"""', "'''", "*/", "/*", "/**", "\\", "\\\\", "\\u", "\\u002a", "\\u002f", "\\u002a/", "C:\\users",
    "&", "&amp;", "<", ">", "-->", "<!--", "]]>", "<summary>", "\x01", "\x1f", "\x7f", "\x85", "\u2028", "\u2029", "\r", "\r\n",
    "\n", "\n\n", "\x0b", "\x0c", "\x1c", "\t", " ", "  ", "\\ ", "\\\t", "x" * 70, "\U0001F600", "\ufffe", "\uffff", "#", "${x}",
    "{@code x}", "&#47;", "&#92;", "u", "uuuu", "\\uuuu0041", "\xa0", "\u3000", "a", "the", "é",
    # runs of 3, 4 and 5 backslashes before a `u` (Java decides by the parity of the run whether a unicode escape starts)
    "\\\\\\u", "\\\\\\users", "x\\\\\\u002a/", "\\\\\\\\u002a/", "\\\\\\\\\\u0041", "\\\\\\\\\\u002a/",
]


# --------------------------------------------------------------------------- real implementation


def _impls() -> Dict[str, Callable[[str], str]]:
    from aas_core_codegen.python import description as pyd
    from aas_core_codegen.golang import description as god
    from aas_core_codegen.cpp import description as cppd
    from aas_core_codegen.java import description as jd
    from aas_core_codegen.typescript import description as tsd
    from aas_core_codegen.csharp import description as csd

    def cs(t: str) -> str:
        # the call-site code of `_generate_summary_remarks` on the text that `_to_text` returns
        saved = (csd._render_summary_remarks, csd._compress_node_in_place, csd._to_text)
        try:
            csd._render_summary_remarks = lambda description: (object(), None)  # type: ignore
            csd._compress_node_in_place = lambda node: None  # type: ignore
            csd._to_text = lambda node: t  # type: ignore
            res, errors = csd._generate_summary_remarks(None)  # type: ignore
            assert errors is None and res is not None
            return res
        finally:
            csd._render_summary_remarks, csd._compress_node_in_place, csd._to_text = saved  # type: ignore

    def csesc(t: str) -> str:
        v = csd._ToTextDirectivesVisitor()
        v.visit_text(csd._Text(t))
        assert len(v.directives) == 1
        return "".join(v.directives[0].parts)  # type: ignore

    return {
        "docstring": pyd.docstring,
        "pycomment": pyd.documentation_comment,
        "go": god.documentation_comment,
        "cpp": cppd.documentation_comment,
        "java": jd.documentation_comment,
        "ts": tsd.documentation_comment,
        "cs": cs,
        "csesc": csesc,
    }


def impl(fns: Dict[str, Callable[[str], str]], name: str, t: str) -> str:
    """'ok:<wire>' or 'crash:<Type>'"""
    try:
        return "ok:" + enc_text(fns[name](t))
    except BaseException as e:  # noqa
        return crash_name(e)


def canon_model(ans: str) -> str:
    # every crash site of the model is an icontract precondition
    return "crash:ViolationError" if ans.startswith("crash:") else ans


# --------------------------------------------------------------------------- inputs


def texts(ctx: Ctx) -> Iterator[Tuple[str, str]]:
    for c in corpus(ID):
        if "text" in c:
            yield c["text"], "corpus"
    yield "", "enumerated"
    for k in (1, 2):
        for cs in itertools.product(CLASSES, repeat=k):
            yield "".join(cs), "enumerated"
    for cs in itertools.product(CLASSES if ctx.tier == "thorough" else CORE, repeat=3):
        yield "".join(cs), "enumerated"
    for w in WORDS:
        yield w, "words"
        yield "say " + w, "words"
        yield w + " x", "words"
        yield "a\n" + w + "\nb", "words"
    for n in (62, 63, 64, 65, 66):  # around the 70 columns of the docstring
        yield "x" * n, "words"
        yield "x" * (n - 1) + '"', "words"
        yield "x" * (n - 1) + "\\", "words"
    for _ in range(ctx.n(1500, 60000)):
        k = ctx.rng.randint(1, 9)
        parts = [ctx.rng.choice(WORDS if ctx.rng.random() < 0.6 else CLASSES) for _ in range(k)]
        sep = ctx.rng.choice(["", " ", " ", "\n"])
        yield sep.join(parts), "random"


# --------------------------------------------------------------------------- spec lexers (Python side, from the language specs)

LANG_NLS = {
    "java": "\n\r",
    "js": "\n\r\u2028\u2029",
    "cpp": "\n\r",
    "go": "\n",
    "cs": "\n\r\x85\u2028\u2029",
}
CPP_SPLICE_WS = " \t\x0b\x0c\x00\r"
# Line terminators which may not stand in a string literal: ECMAScript admits U+2028 / U+2029 there since ES2019
# (the edition TypeScript literals are read with, see design.d/C20.md).
LANG_STR_NLS = dict(LANG_NLS, js="\n\r")


def java_unescape(s: str) -> Optional[str]:
    """JLS 3.3; None for an illegal escape."""
    out: List[str] = []
    i, n, run = 0, len(s), 0  # run = number of contiguous raw backslashes before position i
    while i < n:
        c = s[i]
        if c == "\\" and run % 2 == 0 and i + 1 < n and s[i + 1] == "u":
            j = i + 1
            while j < n and s[j] == "u":
                j += 1
            h = s[j : j + 4]
            if len(h) != 4 or any(x not in "0123456789abcdefABCDEF" for x in h):
                return None
            out.append(chr(int(h, 16)))
            i, run = j + 4, 0
        elif c == "\\":
            out.append(c)
            run += 1
            i += 1
        else:
            out.append(c)
            run = 0
            i += 1
    return "".join(out)


def lex_c(s: str, lang: str) -> List[str]:
    """Token stream in the canonical form of Drive.C20.showLex."""
    nls = LANG_NLS[lang]
    toks: List[str] = []
    code: List[str] = []

    def flush() -> None:
        if code:
            toks.append("k:" + enc_text("".join(code)))
            code.clear()

    i, n = 0, len(s)
    while i < n:
        c = s[i]
        if s.startswith("//", i):
            flush()
            j = i + 2
            while True:
                while j < n and s[j] not in nls:
                    j += 1
                if j < n and lang == "cpp" and s[i + 2 : j].rstrip(CPP_SPLICE_WS).endswith("\\"):
                    j += 1
                    continue
                break
            toks.append("c:" + enc_text(s[i + 2 : j]))
            if j < n:
                toks.append("n")
                j += 1
            i = j
        elif s.startswith("/*", i):
            flush()
            j = s.find("*/", i + 2)
            if j < 0:
                toks.append("bad:unterminated-comment")
                return toks
            toks.append("c:" + enc_text(s[i + 2 : j]))
            i = j + 2
        elif c in "\"'":
            flush()
            j = i + 1
            while True:
                if j >= n:
                    toks.append("bad:unterminated-string")
                    return toks
                if s[j] == "\\":
                    j += 2
                    if j > n:
                        toks.append("bad:unterminated-string")
                        return toks
                    continue
                if s[j] == c:
                    toks.append("s:" + enc_text(s[i + 1 : j]))
                    i = j + 1
                    break
                if s[j] in LANG_STR_NLS[lang]:
                    toks.append("bad:newline-in-string")
                    i = j + 1
                    break
                j += 1
        elif c in nls:
            flush()
            toks.append("n")
            i += 1
        else:
            code.append(c)
            i += 1
    flush()
    return toks


def lex_lang(s: str, lang: str) -> str:
    if lang == "java":
        u = java_unescape(s)
        if u is None:
            return "illegal-unicode-escape"
        toks = lex_c(u, "java")
    else:
        toks = lex_c(s, lang)
    return " ".join(toks) if toks else "[]"


def only_comments(lexed: str) -> bool:
    return all(t == "n" or t.startswith("c:") for t in lexed.split(" ")) if lexed != "[]" else True


def n_comments(lexed: str) -> int:
    return sum(1 for t in lexed.split(" ") if t.startswith("c:"))


# --------------------------------------------------------------------------- direct oracles (one wrapper output)


def encodable(s: str) -> bool:
    try:
        s.encode("utf-8")
        return True
    except UnicodeEncodeError:
        return False


def py_newlines(s: str) -> str:
    return s.replace("\r\n", "\n").replace("\r", "\n")


def judge_docstring(t: str, out: str) -> List[Tuple[str, str]]:
    """`out` placed as a module docstring followed by a statement must be one string statement denoting t."""
    if "\x00" in t or not encodable(t):
        return []  # a Python source file cannot hold NUL or a lone surrogate at all (assumption, see design.d)
    src = out + "\nx = 1\n"
    try:
        mod = ast.parse(src)
    except (SyntaxError, ValueError) as e:
        return [("C20:docstring:syntax", f"docstring {out!r} does not parse: {e}")]
    if len(mod.body) != 2 or not (
        isinstance(mod.body[0], ast.Expr) and isinstance(mod.body[0].value, ast.Constant) and isinstance(mod.body[0].value.value, str)
    ):
        return [("C20:docstring:tokens", f"docstring {out!r} is not a single string statement")]
    toks = [tk for tk in tokenize.generate_tokens(io.StringIO(py_newlines(src)).readline) if tk.type == tokenize.STRING]
    if len(toks) != 1:
        return [("C20:docstring:tokens", f"docstring {out!r} lexes as {len(toks)} string tokens")]
    v = mod.body[0].value.value
    want = py_newlines(t)
    if v != want and v != py_newlines("\n" + t + "\n"):
        return [("C20:docstring:value", f"docstring {out!r} denotes {v!r}, not {want!r}")]
    return []


def judge_pycomment(t: str, out: str) -> List[Tuple[str, str]]:
    if "\x00" in t or not encodable(t):
        return []
    src = out + "\nx = 1\n"
    try:
        mod = ast.parse(src)
        toks = list(tokenize.generate_tokens(io.StringIO(py_newlines(src)).readline))
    except (SyntaxError, ValueError, tokenize.TokenError) as e:
        return [("C20:pycomment:syntax", f"comment {out!r} does not parse: {e}")]
    if len(mod.body) != 1 or ast.unparse(mod.body[0]) != "x = 1":
        return [("C20:pycomment:leak", f"comment {out!r} leaks code or swallows the next line")]
    nc = sum(1 for tk in toks if tk.type == tokenize.COMMENT)
    want = len(out.split("\n")) if out != "" else 0
    if nc != want:
        return [("C20:pycomment:lines", f"comment {out!r}: {nc} comment tokens for {want} lines")]
    return []


def judge_line_lang(lang: str, out: str) -> List[Tuple[str, str]]:
    """Spec lexer: every line of `out` is one comment token, and the line after it is not swallowed."""
    probe = out + "\nx"
    lexed = lex_lang(probe, "js" if lang == "ts" else lang)
    want = len(out.split("\n")) if out != "" else 0
    toks = lexed.split(" ")
    ok = (
        toks[-1] == "k:" + enc_text("x")
        and only_comments(" ".join(toks[:-1]) if len(toks) > 1 else "[]")
        and n_comments(lexed) == want
    )
    if not ok:
        return [(f"C20:{lang}:line-comment", f"{lang} comment {out!r} does not lex as {want} line comments followed by the next line")]
    return []


def judge_block_lang(lang: str, out: str) -> List[Tuple[str, str]]:
    lexed = lex_lang(out, "js" if lang == "ts" else lang)
    if lexed == "illegal-unicode-escape":
        return [(f"C20:{lang}:unicode-escape", f"{lang} comment {out!r} contains an illegal unicode escape")]
    toks = lexed.split(" ")
    if not (len(toks) == 1 and toks[0].startswith("c:")):
        return [(f"C20:{lang}:block-comment", f"{lang} comment {out!r} does not lex as exactly one comment")]
    return []


def xml_content_expected(t: str, ranges_ok: Callable[[str], bool]) -> str:
    return "".join(c if ranges_ok(c) else "\ufffd" for c in t)


def is_xml_char(c: str) -> bool:
    o = ord(c)
    return o in (9, 10, 13) or 0x20 <= o <= 0xD7FF or 0xE000 <= o <= 0xFFFD or 0x10000 <= o <= 0x10FFFF


def judge_cs(t: str, escaped: str, fns: Dict[str, Callable[[str], str]]) -> List[Tuple[str, str]]:
    """visit_text(t) inside <summary> through the /// wrapping must be well-formed XML whose text is t."""
    doc = "<summary>\n" + escaped + "\n</summary>"
    try:
        com = fns["cs"](doc)
    except BaseException as e:  # noqa
        return []  # a crash of the wrapper is C02's business; correspondence sees it
    bad = judge_line_lang("cs", com)
    lines = com.split("\n")
    body = []
    for ln in lines:
        if not ln.startswith("///"):
            return bad + [("C20:cs:prefix", f"line {ln!r} of the C# comment does not start with ///")]
        rest = ln[3:]
        body.append(rest[1:] if rest.startswith(" ") else rest)
    xml_text = "<root>" + "\n".join(body) + "</root>"
    if not encodable(xml_text):
        return bad
    try:
        root = ET.fromstring(xml_text.encode("utf-8"))
    except ET.ParseError as e:
        return bad + [("C20:cs:doc-xml", f"C# doc comment of {t!r} is not well-formed XML: {e}")]
    got = "".join(root.itertext())
    want = "\n".join(("<\n" + xml_content_expected(t, is_xml_char) + "\n>").splitlines())[1:-1]
    if py_newlines(got) != py_newlines(want):
        return bad + [("C20:cs:doc-text", f"C# doc comment of {t!r} denotes {got!r}, not {want!r}")]
    return bad


# --------------------------------------------------------------------------- compilers (batched)


def run_javac(work: pathlib.Path, items: Sequence[Tuple[int, str]]) -> Dict[int, str]:
    """One class file per comment, one javac call. Returns {index: first error line} for files with errors."""
    src = work / "java"
    src.mkdir(parents=True, exist_ok=True)
    paths = []
    for idx, com in items:
        p = src / f"T{idx}.java"
        p.write_text(f"public class T{idx} {{\n{com}\nint x;\nint f() {{ return 0\n{com}\n; }}\n}}\n", encoding="utf-8")
        paths.append(str(p))
    (work / "files.txt").write_text("\n".join(paths) + "\n")
    (work / "cls").mkdir(exist_ok=True)
    r = subprocess.run(
        ["javac", "-proc:none", "-Xlint:none", "-Xmaxerrs", "100000", "-encoding", "UTF-8", "-d", str(work / "cls"), "@" + str(work / "files.txt")],
        capture_output=True, text=True, timeout=900,
    )
    bad: Dict[int, str] = {}
    for line in r.stderr.splitlines():
        if ".java:" in line and ": error:" in line:
            name = pathlib.Path(line.split(".java:")[0]).name
            idx = int(name[1:])
            bad.setdefault(idx, line.split(": error:", 1)[1].strip())
    if r.returncode != 0 and not bad:
        raise RuntimeError("javac failed without a located error: " + r.stderr[:400])
    return bad


def run_gpp(work: pathlib.Path, items: Sequence[Tuple[int, str]]) -> Dict[int, str]:
    """All comments in one translation unit; a comment swallowing its next line leaves x<i> undeclared."""
    lines: List[str] = []
    owner: Dict[int, int] = {}
    for idx, com in items:
        start = len(lines) + 1
        chunk = f"{com}\nint x{idx} = 1;\nint y{idx} = x{idx};\n".split("\n")[:-1]
        for k in range(len(chunk)):
            owner[start + k] = idx
        lines += chunk
    p = work / "all.cpp"
    p.write_text("\n".join(lines) + "\n", encoding="utf-8")
    r = subprocess.run(
        ["g++", "-fsyntax-only", "-x", "c++", "-std=c++17", "-w", "-fmax-errors=0", str(p)], capture_output=True, text=True, timeout=900
    )
    bad: Dict[int, str] = {}
    for line in r.stderr.splitlines():
        parts = line.split(":")
        if len(parts) >= 5 and parts[0].endswith("all.cpp") and parts[1].isdigit() and " error" in parts[3]:
            idx = owner.get(int(parts[1]))
            if idx is not None:
                bad.setdefault(idx, ":".join(parts[4:]).strip())
    if r.returncode != 0 and not bad:
        raise RuntimeError("g++ failed without a located error: " + r.stderr[:400])
    return bad


NODE_SCRIPT = r"""
const vm = require('vm'); const fs = require('fs');
const items = JSON.parse(fs.readFileSync(process.argv[2], 'utf8'));
const bad = {};
for (const [idx, com] of items) {
  try { new vm.Script(com + "\nlet x = 1;\nlet y = (0\n" + com + "\n);\n"); } catch (e) { bad[idx] = String(e.message); }
}
process.stdout.write(JSON.stringify(bad));
"""


def run_node(work: pathlib.Path, items: Sequence[Tuple[int, str]]) -> Dict[int, str]:
    (work / "chk.js").write_text(NODE_SCRIPT)
    (work / "items.json").write_text(json.dumps([[i, c] for i, c in items]), encoding="utf-8")
    r = subprocess.run(["node", str(work / "chk.js"), str(work / "items.json")], capture_output=True, text=True, timeout=900)
    if r.returncode != 0:
        raise RuntimeError("node failed: " + r.stderr[:400])
    return {int(k): v for k, v in json.loads(r.stdout).items()}


INDENTIONS = ["  ", "\t", ""]


def _indent_helper(ctx: Ctx, ts: Sequence[str], with_model: bool) -> None:
    """``common.indent_but_first_line`` (all rendered code passes through it when it is nested in a template).

    Oracle (from the property text: a text cannot end a literal early): the code is cut only at LF, i.e. the LF-separated
    lines of the result correspond one to one to the LF-separated lines of the code (a last empty one dropped) and every
    line of the code is still there, entire, at the end of its line.  Correspondence: model ``indent`` = implementation.
    """
    from aas_core_codegen.common import indent_but_first_line

    # the texts as "code": also between two lines and inside a literal
    codes: List[str] = []
    for t in ts:
        codes.append(t)
        if len(t) <= 2:
            codes.append('x = [\n"' + t + '",\n"b",\n]')
    items = [(c["indent"], c["code"]) for c in corpus(ID) if "code" in c and "indent" in c]
    items += [(ind, code) for code in codes for ind in INDENTIONS]
    outs: List[str] = []
    for ind, code in items:
        try:
            outs.append("ok:" + enc_text(indent_but_first_line(code, ind)))
        except BaseException as e:  # noqa
            outs.append(crash_name(e))
    mouts: List[str] = []
    if with_model:
        mouts = ["ok:" + a for a in ctx.model([f"indent {enc_text(ind)} {enc_text(code)}" for ind, code in items])]
    for k, ((ind, code), got) in enumerate(zip(items, outs)):
        ctx.count(("indent", ind, code), nontrivial=len(code) > 0, stream="indent_but_first_line")
        if with_model:
            ctx.traces_validated += 1
            if got != mouts[k]:
                ctx.disagree("indent_but_first_line", {"indent": ind, "code": code}, got, mouts[k])
        if not got.startswith("ok:"):
            ctx.fail({"indent": ind, "code": code}, f"indent_but_first_line({code!r}, {ind!r}) raised {got}", "C20:indent:crash")
            continue
        out = dec_text(got[3:])
        want = code.split("\n")
        if want[-1] == "":
            want.pop()
        have = out.split("\n") if want else []
        ok = len(have) == len(want) and all(h.endswith(w) for h, w in zip(have, want)) and (want or out == "")
        ctx.hit("indent:" + ("kept" if ok else "cut") + (":other-boundary" if any(len(w.splitlines()) > 1 for w in want) else ""))
        if not ok:
            ctx.fail(
                {"indent": ind, "code": code},
                f"indent_but_first_line({code!r}, {ind!r}) = {out!r}: the lines of the code are not kept entire (a string literal holding such a character is cut in two)",
                "C20:indent:cuts-line",
            )


NODE_LITERAL_SCRIPT = r"""
const vm = require('vm'); const fs = require('fs');
const items = JSON.parse(fs.readFileSync(process.argv[2], 'utf8'));
const bad = {};
for (const [idx, src] of items) {
  try { new vm.Script("(" + src + ")"); } catch (e) { bad[idx] = String(e.message); }
}
process.stdout.write(JSON.stringify(bad));
"""


def _node_string_literals(ctx: Ctx, ts: Sequence[str]) -> None:
    """Validate the string-literal rule of the JavaScript spec lexer (ES2019: U+2028 / U+2029 admitted) against node.

    ``"`` + t + ``"`` for the texts without a backslash (the spec lexer does not judge the escapes): the spec lexer says
    "exactly one string token" iff node compiles ``("…")``.
    """
    items = [(k, '"' + t + '"') for k, t in enumerate(ts) if "\\" not in t and encodable(t)]
    if not items:
        return
    work = ctx.scratch()
    (work / "lit.js").write_text(NODE_LITERAL_SCRIPT)
    (work / "lits.json").write_text(json.dumps([[i, c] for i, c in items]), encoding="utf-8")
    r = subprocess.run(["node", str(work / "lit.js"), str(work / "lits.json")], capture_output=True, text=True, timeout=900)
    if r.returncode != 0:
        raise RuntimeError("node failed: " + r.stderr[:400])
    bad = {int(k): v for k, v in json.loads(r.stdout).items()}
    for k, src in items:
        toks = lex_c(src, "js")
        spec_ok = len(toks) == 1 and toks[0].startswith("s:")
        ctx.count(("node-literal", src), stream="lexer-validation:node-string-literal")
        ctx.traces_validated += 1
        if "\u2028" in src or "\u2029" in src:
            ctx.hit("node-literal:ls-ps-in-string:" + ("accepted" if k not in bad else "rejected"))
        if spec_ok != (k not in bad):
            ctx.disagree("lexer-validation:node-string-literal", {"lang": "js", "source": src}, "node:" + bad.get(k, "ok"), "spec-lexer:" + " ".join(toks))


# --------------------------------------------------------------------------- the run


def _check_one(ctx: Ctx, fns: Dict[str, Callable[[str], str]], name: str, t: str, got: str) -> None:
    """Direct oracle on one wrapper output (no compilers)."""
    if not got.startswith("ok:"):
        ctx.hit(f"{name}:wrapper-crash")
        return
    out = dec_text(got[3:])
    if name == "docstring":
        bad = judge_docstring(t, out)
        ctx.hit("docstring:short" if "\n" not in out[:4] else "docstring:long")
    elif name == "pycomment":
        bad = judge_pycomment(t, out)
    elif name in ("go", "cpp"):
        bad = judge_line_lang(name, out)
        if name == "cpp" and "&#92;" in out and "&#92;" not in t:
            ctx.hit("cpp:backslash-fixed")
    elif name in ("java", "ts"):
        bad = judge_block_lang(name, out)
        if "&#47;" in out and "&#47;" not in t:
            ctx.hit(f"{name}:star-slash-escaped")
        if name == "java" and "&#92;u" in out and "&#92;u" not in t:
            ctx.hit("java:backslash-u-escaped")
    elif name == "cs":
        bad = judge_line_lang("cs", out)
    elif name == "csesc":
        bad = judge_cs(t, out, fns)
        if "\ufffd" in out and "\ufffd" not in t:
            ctx.hit("cs:non-xml-replaced")
    else:
        bad = []
    for sig, what in bad:
        ctx.fail({"wrapper": name, "text": t}, what, sig)


def _run(ctx: Ctx, with_model: bool) -> None:
    warnings.simplefilter("ignore", SyntaxWarning)
    t_start = time.time()
    fns = _impls()
    batch = list(texts(ctx))
    compile_items: Dict[str, List[Tuple[int, str, str]]] = {"java": [], "cpp": [], "ts": []}
    for name in WRAPPERS:
        outs = [impl(fns, name, t) for t, _ in batch]
        mouts: List[str] = []
        if with_model:
            mouts = [canon_model(a) for a in ctx.model([f"w {name} {enc_text(t)}" for t, _ in batch])]
        for k, ((t, stream), got) in enumerate(zip(batch, outs)):
            ctx.count((name, t), nontrivial=len(t) > 0, stream=f"{name}:{stream}")
            if k % 1499 == 0:
                ctx.sample({"wrapper": name, "text": t, "out": got})
            if with_model:
                ctx.traces_validated += 1
                if got != mouts[k]:
                    ctx.disagree(f"wrapper:{name}", {"wrapper": name, "text": t}, got, mouts[k])
            _check_one(ctx, fns, name, t, got)
            if name in compile_items and got.startswith("ok:") and encodable(t) and stream != "random":
                compile_items[name].append((len(compile_items[name]), t, dec_text(got[3:])))
    ctx.note(f"wrappers: {time.time() - t_start:.1f}s")
    # lexer validation: Lean lexers against the Python spec lexers on wrapper outputs and raw candidates
    if with_model:
        cand: List[Tuple[str, str]] = []
        for t, stream in batch:
            if stream == "random" and ctx.rng.random() < 0.7:
                continue
            for lang, raw in (("java", f"/**\n * {t}\n */"), ("js", f"/**\n * {t}\n */"), ("cpp", f"/// {t}\nx"), ("go", f"// {t}\nx"), ("cs", f"/// {t}\nx")):
                cand.append((lang, raw))
            if len(t) <= 2 and stream != "random":
                # string literals: which line terminators break a literal (JavaScript: not U+2028 / U+2029 since ES2019)
                for lang in ("java", "js", "cpp", "go", "cs"):
                    cand.append((lang, f'x = "{t}";\ny'))
        answers = ctx.model([f"lex {lang} {enc_text(raw)}" for lang, raw in cand])
        for (lang, raw), a in zip(cand, answers):
            ctx.count(("lex", lang, raw), stream=f"lex:{lang}")
            ctx.traces_validated += 1
            mine = lex_lang(raw, lang)
            if a != mine:
                ctx.disagree(f"lex:{lang}", {"lang": lang, "source": raw}, mine, a)
        # Python: Lean lexer against ast/tokenize on `"""` + t + `"""` (no escaping) and on the real docstrings
        pc: List[Tuple[str, str]] = []
        for t, stream in batch:
            if stream == "random" or "\x00" in t or not encodable(t):
                continue
            pc.append((t, '"""' + t + '"""'))
            d = impl(fns, "docstring", t)
            if d.startswith("ok:"):
                pc.append((t, dec_text(d[3:])))
        answers = ctx.model([f"lex python {enc_text(src)}" for _, src in pc])
        for (t, src), a in zip(pc, answers):
            ctx.count(("lex", "python", src), stream="lex:python")
            ctx.traces_validated += 1
            real = _python_verdict(src)
            if a.startswith("bad:escape-outside-model") or " bad:escape-outside-model" in a:
                ctx.hit("lex:python:escape-outside-model")
                continue
            mine = a if (a.startswith("s:") and " " not in a) else "not-one-string"
            if mine != real:
                ctx.disagree("lex:python", {"source": src}, real, a)
    _indent_helper(ctx, [t for t, stream in batch if stream != "random" and len(t) <= 3], with_model)
    ctx.note(f"wrappers+lexers: {time.time() - t_start:.1f}s")
    _node_string_literals(ctx, [t for t, stream in batch if len(t) <= 2 and stream != "random"])
    _compilers(ctx, compile_items)
    ctx.note(f"wrappers+lexers+compilers: {time.time() - t_start:.1f}s")


def _python_verdict(src: str) -> str:
    """'s:<wire value>' if `src` is exactly one string token, else 'not-one-string'."""
    try:
        toks = [tk for tk in tokenize.generate_tokens(io.StringIO(py_newlines(src) + "\n").readline)]
        mod = ast.parse(src + "\n")
    except (SyntaxError, ValueError, tokenize.TokenError):
        return "not-one-string"
    strs = [tk for tk in toks if tk.type == tokenize.STRING]
    others = [tk for tk in toks if tk.type not in (tokenize.STRING, tokenize.NEWLINE, tokenize.NL, tokenize.ENDMARKER)]
    if len(strs) != 1 or others or len(mod.body) != 1:
        return "not-one-string"
    v = mod.body[0].value.value  # type: ignore
    return "s:" + enc_text(v)


def _compilers(ctx: Ctx, compile_items: Dict[str, List[Tuple[int, str, str]]]) -> None:
    work = ctx.scratch() / "wrappers"
    work.mkdir(parents=True, exist_ok=True)
    cap = ctx.n(2500, 25000)
    runners = {"java": run_javac, "cpp": run_gpp, "ts": run_node}
    for lang, items in compile_items.items():
        items = items[:cap]
        if not items:
            continue
        bad = runners[lang](work, [(i, out) for i, _, out in items])
        ctx.hit(f"{lang}:compiled", len(items))
        for i, t, out in items:
            if i in bad:
                ctx.fail({"wrapper": lang, "text": t}, f"{lang} comment {out!r} breaks the compiler front end: {bad[i]}", f"C20:{lang}:compiler")


def correspond(ctx: Ctx) -> None:
    ctx.extra_cov["rule"] = (
        "texts = corpus + all strings of length <=2 over 27 code-point classes + length 3 over 14 (quick) / 27 (thorough) classes + "
        "word combinations around the nasty sequences + seeded random joins; each text x 8 wrappers; distinct by (wrapper, text); "
        "the empty text is trivial; lexer streams compare the Lean lexers with the Python spec lexers / CPython on wrapper outputs and unescaped candidates"
    )
    ctx.assumptions += [
        "Go and C#: no tool-chain here; their comment grammars are the spec lexers of harness/props/c20.py and Model/Lex.lean (modelled, not verified)",
        "a text with NUL or a lone surrogate never reaches a written source file (docutils drops NUL; writing a surrogate as UTF-8 is reported as an error by the generators)",
        "javac 17, g++ 12 (-fsyntax-only), node 20 (vm.Script) and CPython 3.12 (ast, tokenize) judge the Java, C++, TypeScript(JS) and Python comments",
    ]
    _run(ctx, True)
    _whole_files(ctx)


def _whole_files(ctx: Ctx) -> None:
    try:
        from harness.props import c20_files
    except ImportError:
        ctx.note("whole-file oracle module c20_files is missing")
        return
    if not hasattr(c20_files, "NASTY") or not hasattr(c20_files, "run"):
        ctx.note("whole-file oracle module c20_files is incomplete")
        return
    descs = list(c20_files.NASTY)
    if ctx.tier == "quick" and not ctx.searching:
        # the descriptions that reach a defect fixed so far (one or two per root cause) + a few of the other classes
        descs = [d for d in descs if d[0] in QUICK_NASTY]
    # complete small meta-models whose structure (not a description) selects the branches of the code emitters
    descs = [(name, {"model": text}) for name, text in c20_files.SHAPE_MODELS] + descs
    for c in corpus(ID):
        if "desc" in c:
            descs.insert(0, ("corpus", c["desc"]))
        elif "model" in c:
            descs.insert(0, ("corpus-" + c.get("name", "model"), {"model": c["model"]}))
    if ctx.tier == "thorough" or ctx.searching:
        for i in range(ctx.n(0, 40)):
            k = ctx.rng.randint(1, 4)
            parts = [ctx.rng.choice(c20_files.NASTY)[1] for _ in range(k)]
            descs.append((f"random{i}", "\n\n".join(parts)))
    c20_files.run(ctx, descs, use_compilers=True)
    _joined_strings(ctx)


def _joined_strings(ctx: Ctx) -> None:
    """The literals written for formatted strings (patterns and invariants): harness/props/c20_joined.py."""
    from harness.props import c20_joined

    t_start = time.time()
    ctx.assumptions.append(
        "formatted strings: the literals of Go and C# are judged by the scanners of harness/props/c20_joined.py only (written from the language "
        "specifications, in agreement with node and javac+java on the TypeScript and Java literals of every run, and lexing all recorded outputs)"
    )
    c20_joined.run(ctx, c20_joined.specs_for(ctx))
    ctx.note(f"joined strings: {time.time() - t_start:.1f}s")


def oracle(ctx: Ctx) -> None:
    if not ctx.driver_ok or ctx.searching:
        _run(ctx, False)
        if not ctx.driver_ok:
            _whole_files(ctx)


def replay(ctx: Ctx, data: Dict[str, Any]) -> Any:
    inp = data["failure"]["input"] if "failure" in data else data
    if "joined" in inp:
        from harness.props import c20_joined

        before = len(ctx.failures)
        c20_joined.run(ctx, [("replay", inp["joined"])])
        return {"joined-string failures": ctx.failures[before:]}
    if "desc" in inp or "model" in inp:
        from harness.props import c20_files

        before = len(ctx.failures)
        item = inp["desc"] if "desc" in inp else {"model": inp["model"]}
        c20_files.run(ctx, [(inp.get("name", "replay"), item)], use_compilers=True)
        return {"whole-file failures": ctx.failures[before:]}
    if "code" in inp and "indent" in inp:
        from aas_core_codegen.common import indent_but_first_line

        before = len(ctx.failures)
        r2: Dict[str, Any] = {}
        try:
            r2["impl"] = indent_but_first_line(inp["code"], inp["indent"])
        except BaseException as e:  # noqa
            r2["impl"] = crash_name(e)
        if ctx.driver_ok:
            r2["model"] = dec_text(ctx.model([f"indent {enc_text(inp['indent'])} {enc_text(inp['code'])}"])[0])
        want = inp["code"].split("\n")
        if want[-1] == "":
            want.pop()
        have = r2["impl"].split("\n") if want else []
        if not (len(have) == len(want) and all(h.endswith(w) for h, w in zip(have, want))):
            ctx.fail({"indent": inp["indent"], "code": inp["code"]}, f"indent_but_first_line cuts the code: {r2['impl']!r}", "C20:indent:cuts-line")
        r2["oracle"] = ctx.failures[before:]
        return r2
    t = inp["text"].encode("utf-8").decode("unicode_escape") if False else inp["text"]
    fns = _impls()
    names = [inp["wrapper"]] if inp.get("wrapper") in WRAPPERS else WRAPPERS
    res: Dict[str, Any] = {}
    for name in names:
        got = impl(fns, name, t)
        before = len(ctx.failures)
        _check_one(ctx, fns, name, t, got)
        r = {"impl": got if not got.startswith("ok:") else dec_text(got[3:]), "oracle": ctx.failures[before:]}
        if ctx.driver_ok:
            m = ctx.model([f"w {name} {enc_text(t)}"])[0]
            r["model"] = m if not m.startswith("ok:") else dec_text(m[3:])
        items = {"java": [], "cpp": [], "ts": []}  # type: Dict[str, List[Tuple[int, str, str]]]
        if name in items and got.startswith("ok:") and encodable(t):
            items[name].append((0, t, dec_text(got[3:])))
            before = len(ctx.failures)
            _compilers(ctx, items)
            r["compiler"] = ctx.failures[before:]
        res[name] = r
    return res
