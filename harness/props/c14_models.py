"""Enumerated (seed-independent) boundary models of C13 / C14 with *designed* constraints and instances.

The random stage of ``c13.model_stage`` draws models and instances and — for C14 — derives the mutants
from what ``infer_for_schema`` inferred.  That misses (a) bounds whose decimal spelling matters
(2..10, 9..100), (b) the bound 0, (c) two or three patterns on one value, (d) constraints the
inference loses.  Here the constraints are *designed*: every value of every class below carries a
``Spec`` saying which window of lengths / sizes and which patterns the meta-model text puts on it
(written down when the invariants are built, never read back from the project), and the instances
are built deterministically through the constructors of the generated SDK:

* valid instances with every constrained value at its minimum, strictly between, at its maximum;
* single-violation instances: one value at minimum - 1, at maximum + 1, or matching all patterns but one.

Every instance is judged by the independent invariant oracle of ``harness.mm`` (``check_invariants``)
before it is used: a valid one must satisfy all invariants, a violating one must falsify some.

Families (``enumerated()``):

* ``lists``    list-size bounds over {0, 1, 2, 9, 10, 11, 99, 100} in all min/max combinations
               (only-min, only-max, both incl. equal) x {required, optional (guarded invariant)} with item
               kinds str / class / abstract class and concrete class with a descendant (choice groups) / constrained
               primitive, all spellings of
               the comparison (``>= > <= < ==``, constant on either side) rotating, plus every spelling
               for the maximum 0;
* ``strings``  the same windows as string lengths: class invariant on a required / optional ``str``,
               constrained primitive used required / optional / as list item, byte arrays;
* ``patterns`` values with 2-3 patterns from every combination of sources (invariant of the class that
               specifies the property, of an ancestor that specifies it, of the constrained primitive, of the
               ancestors of the constrained primitive; two in one source as two invariants or as ``f(x) and g(x)``)
               x {required, optional, list item}; the chains of constrained primitives have three
               levels with length bounds on the upper two and are DECLARED DESCENDANT-FIRST.
"""
from __future__ import annotations

import re
from dataclasses import dataclass, field
from typing import Any, Dict, Iterator, List, Optional, Sequence, Tuple

BOUNDS = (0, 1, 2, 9, 10, 11, 99, 100)

Window = Tuple[Optional[int], Optional[int]]


def windows() -> List[Window]:
    """All windows over BOUNDS: only a minimum, only a maximum, both (minimum <= maximum, equal included)."""
    out: List[Window] = [(lo, None) for lo in BOUNDS] + [(None, hi) for hi in BOUNDS]
    out += [(lo, hi) for lo in BOUNDS for hi in BOUNDS if lo <= hi]
    return out


@dataclass
class Spec:
    """The designed constraints of one value: ``cls.prop`` (``position`` item: every item of that list)."""

    cls: str
    prop: str
    position: str  # required | optional | item
    kind: str  # list | str | bytes
    lo: Optional[int] = None
    hi: Optional[int] = None
    patterns: Tuple[str, ...] = ()
    item_kind: str = ""  # lists: str | cls | abs | cp
    sources: str = ""  # where the constraints are declared (coverage label)

    @property
    def label(self) -> str:
        return f"{self.kind}/{self.position}" + (f"/{self.sources}" if self.sources else "")

    def window(self) -> str:
        return f"{'-' if self.lo is None else self.lo}..{'-' if self.hi is None else self.hi}"


@dataclass
class Family:
    name: str
    mm: Any
    specs: List[Spec]
    #: per concrete class: property -> plan of a valid default value
    defaults: Dict[str, Dict[str, Any]] = field(default_factory=dict)


# --------------------------------------------------------------------------- invariants


def _len_bodies(mm: Any, subject: Any, lo: Optional[int], hi: Optional[int], k: int, guard: Optional[Any]) -> List[Any]:
    """Invariant bodies saying ``lo <= len(subject) <= hi`` in the k-th spelling; guarded (``x is None or …``) if ``guard``."""
    ln = mm.length(subject)
    C = mm.Constant
    lo_forms = []
    hi_forms = []
    if lo is not None:
        lo_forms = [mm.Comparison(ln, ">=", C(lo)), mm.Comparison(C(lo), "<=", ln)]
        if lo >= 1:
            lo_forms += [mm.Comparison(ln, ">", C(lo - 1)), mm.Comparison(C(lo - 1), "<", ln)]
    if hi is not None:
        hi_forms = [mm.Comparison(ln, "<=", C(hi)), mm.Comparison(ln, "<", C(hi + 1)), mm.Comparison(C(hi), ">=", ln), mm.Comparison(C(hi + 1), ">", ln)]
    bodies: List[Any] = []
    if lo is not None and hi is not None and lo == hi and k % 3 != 2:
        bodies.append([mm.Comparison(ln, "==", C(lo)), mm.Comparison(C(lo), "==", ln)][k % 2])
    else:
        if lo_forms:
            bodies.append(lo_forms[k % len(lo_forms)])
        if hi_forms:
            bodies.append(hi_forms[(k // 2) % len(hi_forms)])
    return [_guarded(mm, b, guard, k + i) for i, b in enumerate(bodies)]


def _guarded(mm: Any, body: Any, guard: Optional[Any], k: int) -> Any:
    if guard is None:
        return body
    return mm.Or((mm.IsNone(guard), body)) if k % 2 == 0 else mm.Implication(mm.IsNotNone(guard), body)


def _invs(mm: Any, subject: Any, lo: Optional[int], hi: Optional[int], k: int, guard: Optional[Any], what: str) -> List[Any]:
    bodies = _len_bodies(mm, subject, lo, hi, k, guard)
    return [mm.Invariant(f"{what} is bounded ({i}).", b) for i, b in enumerate(bodies)]


def _hi_spellings(mm: Any, subject: Any, hi: int) -> List[Any]:
    ln = mm.length(subject)
    C = mm.Constant
    return [
        mm.Comparison(ln, "==", C(hi)), mm.Comparison(ln, "<=", C(hi)), mm.Comparison(ln, "<", C(hi + 1)),
        mm.Comparison(C(hi), "==", ln), mm.Comparison(C(hi), ">=", ln), mm.Comparison(C(hi + 1), ">", ln),
    ]


# --------------------------------------------------------------------------- plans (values before the SDK exists)


def cls_plan(name: str, **kwargs: Any) -> Tuple[str, Dict[str, Any]]:
    return (name, kwargs)


def realize(sdk: Any, v: Any) -> Any:
    """A plan -> SDK value: ``(class name, {property: plan})`` becomes an instance, lists are mapped."""
    from harness.mm_inst import _py_property_name

    if isinstance(v, tuple) and len(v) == 2 and isinstance(v[0], str) and isinstance(v[1], dict):
        return sdk.class_of(v[0])(**{_py_property_name(k): realize(sdk, x) for k, x in v[1].items()})
    if isinstance(v, list):
        return [realize(sdk, x) for x in v]
    if isinstance(v, bytes):
        return bytearray(v)
    return v


_ITEM_PLANS = {
    "str": lambda i: "v",
    "cls": lambda i: cls_plan("Item", word="w"),
    "abs": lambda i: cls_plan("Item_a" if i % 2 == 0 else "Item_b", word="w"),
    "sub": lambda i: cls_plan("Parent_item" if i % 2 == 0 else "Child_item", word="w"),
    "cp": lambda i: "ab",
}


def sized(spec: Spec, n: int) -> Any:
    """A value of the spec's kind with length / size ``n`` (patterns are not considered here)."""
    if spec.kind == "list":
        return [_ITEM_PLANS[spec.item_kind](i) for i in range(n)]
    if spec.kind == "bytes":
        return b"\x01" * n
    return "a" * n


def valid_sizes(spec: Spec) -> List[Tuple[str, int]]:
    """(where, size): at the minimum, strictly between, at the maximum (what exists of them)."""
    lo = 0 if spec.lo is None else spec.lo
    hi = spec.hi
    out = [("min", lo)]
    if hi is None:
        out += [("between", lo + 1), ("max", lo + 3)]
    else:
        if hi - lo >= 2:
            out.append(("between", lo + 1 if hi - lo == 2 else (lo + hi + 1) // 2))
        if hi > lo:
            out.append(("max", hi))
    return out


def invalid_sizes(spec: Spec) -> List[Tuple[str, int]]:
    out = []
    if spec.lo is not None and spec.lo > 0:
        out.append(("below-min", spec.lo - 1))
    if spec.hi is not None:
        out.append(("above-max", spec.hi + 1))
    return out


# --------------------------------------------------------------------------- family: lists


def _item_types(mm: Any) -> Tuple[List[Any], List[Any], List[Any]]:
    fn = mm.PatternFn(name="matches_word", parts=("^[a-c]+$",), style="plain")
    word = mm.ConstrainedPrimitive(
        name="Word", base="str", bases=[],
        invariants=[mm.Invariant("It is a word.", mm.FunctionCall("matches_word", (mm.SELF,))), mm.Invariant("It is short.", mm.Comparison(mm.length(mm.SELF), "<=", mm.Constant(4)))],
    )
    item = mm.Class(name="Item", props=[mm.Prop("word", mm.Prim("str"))])
    abstract = mm.Class(name="Abstract_item", abstract=True, props=[mm.Prop("word", mm.Prim("str"))], with_model_type=True)
    item_a = mm.Class(name="Item_a", bases=["Abstract_item"])
    item_b = mm.Class(name="Item_b", bases=["Abstract_item"])
    parent = mm.Class(name="Parent_item", props=[mm.Prop("word", mm.Prim("str"))], with_model_type=True)
    child = mm.Class(name="Child_item", bases=["Parent_item"])
    return [item, abstract, item_a, item_b, parent, child], [word], [fn]


_ITEM_TYPE = {"str": ("Prim", "str"), "cls": ("Ref", "Item"), "abs": ("Ref", "Abstract_item"), "cp": ("Ref", "Word"), "sub": ("Ref", "Parent_item")}


def _item_type(mm: Any, kind: str) -> Any:
    a, b = _ITEM_TYPE[kind]
    return mm.Prim(b) if a == "Prim" else mm.Ref(b)


def lists_family(part: int, parts: int) -> Family:
    from harness import mm

    classes, cps, fns = _item_types(mm)
    specs: List[Spec] = []
    holders: Dict[str, Any] = {}
    kinds = ["str", "cls", "abs", "cp", "sub"]
    per_class = 7

    def holder(i: int) -> Any:
        name = f"Lists_{i:02d}"
        if name not in holders:
            holders[name] = mm.Class(name=name, props=[], invariants=[])
        return holders[name]

    todo: List[Tuple[Window, str, str, Optional[Any]]] = []
    ws = windows()
    for k, w in enumerate(ws):
        for position in ("required", "optional"):
            todo.append((w, position, "sweep", None))
    # every spelling of a maximum (C14: the bound 0 must not be read as "no bound"), also for the other small maxima
    for hi in (0, 1, 10):
        for s in range(6):
            for position in ("required", "optional"):
                todo.append(((None, hi), position, f"spelling{s}", s))
    todo = [t for i, t in enumerate(todo) if i % parts == part]
    # spread the long lists: classes are filled round-robin
    n_classes = max(1, (len(todo) + per_class - 1) // per_class)
    for k, (w, position, what, spelling) in enumerate(todo):
        c = holder(k % n_classes)
        lo, hi = w
        pname = f"xs_{len(c.props):02d}"
        kind = kinds[k % len(kinds)]
        t = mm.ListOf(_item_type(mm, kind))
        subject = mm.prop(pname)
        guard = subject if position == "optional" else None
        c.props.append(mm.Prop(pname, mm.OptionalOf(t) if position == "optional" else t))
        if spelling is None:
            c.invariants += _invs(mm, subject, lo, hi, k, guard, pname)
        else:
            body = _hi_spellings(mm, subject, hi)[spelling]
            if spelling in (0, 3):
                lo = hi
            c.invariants.append(mm.Invariant(f"{pname} is bounded.", _guarded(mm, body, guard, k)))
        specs.append(Spec(c.name, pname, position, "list", lo, hi, (), kind, what))
    m = mm.MM(classes=classes + list(holders.values()), constrained_primitives=cps, verification_functions=fns, xml_namespace=f"https://example.com/c14/lists/{part}")
    return Family(f"lists-{part}", m, specs)


# --------------------------------------------------------------------------- family: strings


def strings_family(part: int, parts: int) -> Family:
    from harness import mm

    specs: List[Spec] = []
    classes: Dict[str, Any] = {}
    cps: List[Any] = []
    per_class = 10

    ws = [w for i, w in enumerate(windows()) if i % parts == part]
    todo: List[Tuple[int, Window, str]] = []
    for k, w in enumerate(ws):
        for how in ("own-required", "own-optional", "cp-required", "cp-optional", "cp-item", "own+cp"):
            todo.append((k, w, how))
    # byte arrays (base64Binary: the length counts octets)
    for k, w in enumerate([(1, 3), (None, 0), (2, None), (0, 10), (9, 11), (10, 10)]):
        if k % parts == part:
            todo.append((100 + k, w, "bytes-cp-optional"))
            todo.append((100 + k, w, "bytes-own-required"))
    n_classes = max(1, (len(todo) + per_class - 1) // per_class)
    made_cp: Dict[Tuple[int, str], str] = {}

    def cp_for(k: int, w: Window, base: str) -> str:
        key = (k, base)
        if key not in made_cp:
            name = f"{'Text' if base == 'str' else 'Blob'}_{k:03d}"
            cps.append(mm.ConstrainedPrimitive(name=name, base=base, bases=[], invariants=_invs(mm, mm.SELF, w[0], w[1], k, None, name)))
            made_cp[key] = name
        return made_cp[key]

    for j, (k, w, how) in enumerate(todo):
        cname = f"Strings_{j % n_classes:02d}"
        c = classes.setdefault(cname, mm.Class(name=cname, props=[], invariants=[]))
        lo, hi = w
        pname = f"s_{len(c.props):02d}"
        subject = mm.prop(pname)
        if how in ("own-required", "own-optional", "bytes-own-required"):
            base = "bytes" if how.startswith("bytes") else "str"
            optional = how.endswith("optional")
            c.props.append(mm.Prop(pname, mm.OptionalOf(mm.Prim(base)) if optional else mm.Prim(base)))
            c.invariants += _invs(mm, subject, lo, hi, j, subject if optional else None, pname)
            specs.append(Spec(cname, pname, "optional" if optional else "required", "bytes" if base == "bytes" else "str", lo, hi, (), "", "own"))
        elif how in ("cp-required", "cp-optional", "bytes-cp-optional"):
            base = "bytes" if how.startswith("bytes") else "str"
            optional = how.endswith("optional")
            t = mm.Ref(cp_for(k, w, base))
            c.props.append(mm.Prop(pname, mm.OptionalOf(t) if optional else t))
            specs.append(Spec(cname, pname, "optional" if optional else "required", "bytes" if base == "bytes" else "str", lo, hi, (), "", "cp"))
        elif how == "cp-item":
            c.props.append(mm.Prop(pname, mm.ListOf(mm.Ref(cp_for(k, w, "str")))))
            specs.append(Spec(cname, pname, "item", "str", lo, hi, (), "", "cp"))
        else:  # own+cp: the constrained primitive gives one side (or a wider window), the class invariant the other
            if lo is not None and hi is not None and lo < hi:
                cp_w, own_w = (lo, None), (None, hi)
            elif lo is not None and hi is None:
                cp_w, own_w = (max(0, lo - 1), None), (lo, None)
            elif lo is None and hi is not None:
                cp_w, own_w = (None, hi + 1), (None, hi)
            else:
                cp_w, own_w = (None, hi), (lo, None)
            name = f"Wide_{k:03d}"
            if not any(x.name == name for x in cps):
                cps.append(mm.ConstrainedPrimitive(name=name, base="str", bases=[], invariants=_invs(mm, mm.SELF, cp_w[0], cp_w[1], j, None, name)))
            c.props.append(mm.Prop(pname, mm.Ref(name)))
            c.invariants += _invs(mm, subject, own_w[0], own_w[1], j + 1, None, pname)
            specs.append(Spec(cname, pname, "required", "str", lo, hi, (), "", "own+cp"))
    m = mm.MM(classes=list(classes.values()), constrained_primitives=cps, verification_functions=[], xml_namespace=f"https://example.com/c14/strings/{part}")
    return Family(f"strings-{part}", m, specs)


# --------------------------------------------------------------------------- family: patterns

#: independent features of lower-case words: any subset is satisfiable, and for every member of a subset
#: there is a word that misses only it (starts with a / second letter m / third letter x / no q / 3..6 letters).
#: Prefix features only: greenery's intersection of suffix features ("ends with z") costs ~0.5 s each.
FEATURES = ("^a[a-z]*$", "^[a-z]m[a-z]*$", "^[a-z]{2}x[a-z]*$", "^[a-pr-z]*$", "^[a-z]{3,6}$")


def _pool() -> List[str]:
    import itertools

    short = ["".join(t) for n in range(0, 5) for t in itertools.product("ambxq", repeat=n)]
    short.sort(key=lambda w: (len(w), w))
    longer = [w + "b" * (k - len(w)) for k in (7, 9) for w in short if 3 <= len(w) <= 4]
    return ["amx"] + short + longer


_POOL = _pool()

#: (patterns of the class level, own patterns of the constrained primitive, patterns of its ancestors)
TRIPLES = [(2, 0, 0), (0, 2, 0), (0, 0, 2), (1, 1, 0), (1, 0, 1), (0, 1, 1), (1, 1, 1), (2, 1, 0), (2, 0, 1), (1, 2, 0), (0, 2, 1), (1, 0, 2), (0, 1, 2)]

CHAIN_TOP_MAX = 8
CHAIN_MID_MIN = 2


_FEATURE_ORDER = (0, 3, 1, 4, 2)


def _feature(k: int) -> int:
    """The k-th feature in an order whose neighbours are independent of the length (so that length mutants exist)."""
    return _FEATURE_ORDER[k % len(_FEATURE_ORDER)]


def _pattern_call(mm: Any, idx: int, subject: Any) -> Any:
    return mm.FunctionCall(f"matches_f{idx}", (subject,))


def _pattern_invs(mm: Any, idxs: Sequence[int], subject: Any, guard: Optional[Any], and_form: bool, what: str) -> List[Any]:
    if not idxs:
        return []
    if and_form and len(idxs) >= 2:
        body = mm.And(tuple(_pattern_call(mm, i, subject) for i in idxs))
        return [mm.Invariant(f"{what} matches all.", _guarded(mm, body, guard, 0))]
    return [mm.Invariant(f"{what} matches {i}.", _guarded(mm, _pattern_call(mm, i, subject), guard, n)) for n, i in enumerate(idxs)]


def patterns_family(descendant_first: bool = True) -> Family:
    from harness import mm

    fns = [mm.PatternFn(name=f"matches_f{i}", parts=(p,), style="plain") for i, p in enumerate(FEATURES)]
    cps: List[Any] = []
    chains: Dict[Tuple[int, int, int], Tuple[str, Tuple[int, ...], Tuple[int, ...], bool]] = {}
    order: List[str] = []

    def chain(p: int, q: int, r: int) -> Tuple[str, Tuple[int, ...], Tuple[int, ...], bool]:
        """The constrained primitive with p own patterns and q inherited ones (rotation r): name, own, inherited, has length bounds."""
        key = (p, q, r)
        if key in chains:
            return chains[key]
        own = tuple(_feature(r + i) for i in range(p))
        inh = tuple(_feature(r + p + i) for i in range(q))
        stem = f"P{p}{q}{r}"
        and_form = (p + q + r) % 2 == 1
        if q == 0:
            name = stem + "_only"
            cps.append(mm.ConstrainedPrimitive(name=name, base="str", bases=[], invariants=_pattern_invs(mm, own, mm.SELF, None, and_form, name)))
            order.append(name)
            chains[key] = (name, own, inh, False)
            return chains[key]
        leaf, mid, top = stem + "_leaf", stem + "_mid", stem + "_top"
        top_idx = inh[-1:]
        mid_idx = inh[:-1]
        cp_leaf = mm.ConstrainedPrimitive(name=leaf, base="str", bases=[mid], invariants=_pattern_invs(mm, own, mm.SELF, None, and_form, leaf))
        cp_mid = mm.ConstrainedPrimitive(
            name=mid, base="str", bases=[top],
            invariants=_pattern_invs(mm, mid_idx, mm.SELF, None, False, mid) + [mm.Invariant(f"{mid} is not too short.", mm.Comparison(mm.length(mm.SELF), ">=", mm.Constant(CHAIN_MID_MIN)))],
        )
        cp_top = mm.ConstrainedPrimitive(
            name=top, base="str", bases=[],
            invariants=_pattern_invs(mm, top_idx, mm.SELF, None, False, top) + [mm.Invariant(f"{top} is not too long.", mm.Comparison(mm.length(mm.SELF), "<=", mm.Constant(CHAIN_TOP_MAX)))],
        )
        seq = [cp_leaf, cp_mid, cp_top] if descendant_first else [cp_top, cp_mid, cp_leaf]
        cps.extend(seq)
        order.extend(x.name for x in seq)
        chains[key] = (leaf, own, inh, True)
        return chains[key]

    specs: List[Spec] = []
    classes: List[Any] = []
    n = 0
    for (c, p, q) in TRIPLES:
        positions = ["required", "optional"] + (["item"] if c == 0 else [])
        class_kinds = ["own", "ancestor"] if c > 0 else ["-"]
        for class_kind in class_kinds:
            for position in positions:
                r = n % 3
                n += 1
                if p + q > 0:
                    cp_name, own, inh, bounded = chain(p, q, r)
                    vt: Any = mm.Ref(cp_name)
                else:
                    cp_name, own, inh, bounded = "", (), (), False
                    vt = mm.Prim("str")
                cls_idx = tuple(_feature(r + p + q + i) for i in range(c))
                pname = "value" if position != "item" else "values"
                t = mm.ListOf(vt) if position == "item" else (mm.OptionalOf(vt) if position == "optional" else vt)
                subject = mm.prop(pname)
                invs = _pattern_invs(mm, cls_idx, subject, subject if position == "optional" else None, n % 3 == 0, pname)
                stem = f"Pat_{n:02d}"
                if class_kind == "ancestor":
                    base = mm.Class(name=stem + "_base", abstract=(n % 4 != 0), props=[mm.Prop(pname, t)], invariants=invs)
                    leaf_cls = mm.Class(name=stem, bases=[base.name], props=[mm.Prop("extra", mm.OptionalOf(mm.Prim("str")))])
                    classes += [base, leaf_cls]
                else:
                    classes.append(mm.Class(name=stem, props=[mm.Prop(pname, t)], invariants=invs))
                sources = "+".join(([f"{class_kind}*{c}"] if c else []) + ([f"cp*{p}"] if p else []) + ([f"cp-ancestor*{q}"] if q else []))
                all_idx = cls_idx + own + inh
                specs.append(Spec(
                    stem, pname, position, "str", CHAIN_MID_MIN if bounded else None, CHAIN_TOP_MAX if bounded else None,
                    tuple(FEATURES[i] for i in all_idx), "", sources,
                ))
    m = mm.MM(
        classes=classes, constrained_primitives=cps, verification_functions=fns,
        xml_namespace="https://example.com/c14/patterns/" + ("df" if descendant_first else "af"),
        order=order + [c.name for c in classes],
    )
    return Family("patterns-" + ("descendant-first" if descendant_first else "ancestor-first"), m, specs)


#: two patterns on one value, one of which spells a character of the regular-expression syntax as ``\\xHH`` / ``\\uHHHH``
#: (the only way to write some of them in the meta-model language), and two controls without such a character
ESCAPED_PAIRS = [
    ("^a\\x2ab$", "^[a-z*]+$"), ("^a\\u002ab$", "^[a-b*+]+$"), ("^\\x28a\\x29$", "^[()a]+$"), ("^a\\x7b2\\x7d$", "^[a{}2]+$"),
    ("^a\\x3fb?$", "^[?ab]+$"), ("^a\\x2bb$", "^[a+b]+$"), ("^[\\x5ea]+$", "^[a-z]+$"),
    ("^a\\x41b$", "^[a-zA-Z]+$"), ("^a\\.b$", "^[a-z.]+$"),
    # the characters ^ and $ accepted somewhere in a pattern (a set, a dot, a complemented set): the anchors were handed to the
    # intersection as ordinary characters and got mixed up with them (second repair of the XSD pattern pipeline)
    ("^a[$]b$", "^[ -~]+$"), ("^.*a$", "^[a\\^]+$"), ("^.*$", "^[^x]*$"), ("^a\\x24$", "^[a$]+$"),
]

_ESCAPE_POOL = ["a$b", "^a", "a^a", "a$", "$", "x", "a*b", "ab", "aab", "b", "(a)", "a", "a{2}", "aa", "a?b", "a?", "a+b", "a^", "^", "q", "aAb", "a.b", "axb", "aXb", "a*", "a(", "a2", "a?bb", "a+", "A"]

_META = set("\\[]|().?*+{}^$-")
_ESCAPE_RE = re.compile(r"\\\\|\\x([0-9a-fA-F]{2})|\\u([0-9a-fA-F]{4})|\\U([0-9a-fA-F]{8})")


def escaped_metacharacter_intersected(patterns: Sequence[str]) -> bool:
    """
    Two or more patterns constrain the value and one of them writes a character of the regular-expression syntax
    as ``\\xHH``, ``\\uHHHH`` or ``\\UHHHHHHHH`` — the input shape of finding C13-F1 / C14-F1.
    """
    if len(patterns) < 2:
        return False
    for p in patterns:
        for m in _ESCAPE_RE.finditer(p):
            digits = m.group(1) or m.group(2) or m.group(3)
            if digits is not None and chr(int(digits, 16)) in _META:
                return True
    return False


def escapes_family(corpus_entries: Sequence[Dict[str, Any]] = ()) -> Family:
    """``corpus_entries``: ``{"model_patterns": [...], "valid": text, "mutant": text}`` (witnesses of the findings) come first."""
    from harness import mm

    fns: List[Any] = []
    cps: List[Any] = []
    classes: List[Any] = []
    specs: List[Spec] = []
    pairs: List[Tuple[str, ...]] = []
    for e in corpus_entries:
        pairs.append(tuple(e["model_patterns"]))
        for text in (e.get("valid"), e.get("mutant")):
            if isinstance(text, str) and text not in _ESCAPE_POOL:
                _ESCAPE_POOL.insert(0, text)
    pairs += [p for p in ESCAPED_PAIRS if p not in pairs]
    for k, pair in enumerate(pairs):
        names = []
        for j, p in enumerate(pair):
            names.append(f"matches_e{k}_{j}")
            fns.append(mm.PatternFn(name=names[-1], parts=(p,), style="plain"))
        cp = mm.ConstrainedPrimitive(
            name=f"Escaped_{k}", base="str", bases=[],
            invariants=[mm.Invariant(f"It matches {j}.", mm.FunctionCall(n, (mm.SELF,))) for j, n in enumerate(names)],
        )
        cps.append(cp)
        position = ("required", "optional", "item")[k % 3]
        pname = "values" if position == "item" else "value"
        vt: Any = mm.Ref(cp.name)
        t = mm.ListOf(vt) if position == "item" else (mm.OptionalOf(vt) if position == "optional" else vt)
        classes.append(mm.Class(name=f"Esc_{k}", props=[mm.Prop(pname, t)]))
        specs.append(Spec(f"Esc_{k}", pname, position, "str", None, None, tuple(pair), "", "cp*2" + ("/escaped-metacharacter" if escaped_metacharacter_intersected(pair) else "/control")))
    m = mm.MM(classes=classes, constrained_primitives=cps, verification_functions=fns, xml_namespace="https://example.com/c14/escapes")
    return Family("escapes", m, specs)


def _ok_text(spec: Spec, s: str, skip: Optional[int] = None) -> List[int]:
    """Indices of the constraints of ``spec`` that ``s`` breaks: 0.. patterns, then len(patterns) = minimum, +1 = maximum."""
    broken = []
    for i, p in enumerate(spec.patterns):
        if re.match(p, s) is None:
            broken.append(i)
    n = len(spec.patterns)
    if spec.lo is not None and len(s) < spec.lo:
        broken.append(n)
    if spec.hi is not None and len(s) > spec.hi:
        broken.append(n + 1)
    return broken


def pattern_texts(spec: Spec) -> Tuple[Optional[str], List[Tuple[str, str]]]:
    """(a text meeting all designed constraints, [(kind, text breaking exactly one of them)]); several texts per pattern for the escape pairs."""
    escapes = "/escaped-metacharacter" in spec.sources or "/control" in spec.sources
    pool = _ESCAPE_POOL + _POOL if escapes else _POOL
    per = 4 if escapes else 1
    good = next((s for s in pool if not _ok_text(spec, s)), None)
    bad: List[Tuple[str, str]] = []
    n = len(spec.patterns)
    for i in range(n + 2):
        ws = [s for s in pool if _ok_text(spec, s) == [i]][:per]
        for w in ws:
            bad.append((f"pattern-{i + 1}-of-{n}" if i < n else ("length-below-min" if i == n else "length-above-max"), w))
    return good, bad


# --------------------------------------------------------------------------- instances


def default_value(spec: Spec) -> Any:
    """The smallest valid value of the constrained property."""
    if spec.patterns:
        good, _ = pattern_texts(spec)
        v: Any = good
    else:
        v = sized(spec, valid_sizes(spec)[0][1])
    if spec.position == "item":
        return [v, v]
    return v


def with_value(spec: Spec, v: Any) -> Any:
    """The value of the property when the constrained value is ``v`` (item position: the second of two items)."""
    if spec.position == "item":
        return [default_value(spec)[0], v]
    return v


def base_plan(fam: Family, cname: str) -> Dict[str, Any]:
    from harness import mm

    plan: Dict[str, Any] = {}
    by_prop = {s.prop: s for s in fam.specs if s.cls == cname}
    for p, _ in mm.all_props(fam.mm, cname):
        if p.name in by_prop:
            plan[p.name] = default_value(by_prop[p.name])
        elif isinstance(p.type, mm.OptionalOf):
            plan[p.name] = None
        elif p.type == mm.Prim("str"):
            plan[p.name] = "w"
        else:
            raise AssertionError(f"no default for {cname}.{p.name}")
    return plan


@dataclass
class Variant:
    cls: str
    spec: Optional[Spec]  # None: a combined valid document
    valid: bool
    kind: str  # valid: min | between | max ; invalid: list-above-max, length-below-min, pattern-i-of-n, …
    plan: Dict[str, Any]


def combined_valid(fam: Family, cname: str) -> Iterator[Variant]:
    """Three valid documents per class: every constrained value at its minimum / between / at its maximum."""
    specs = [s for s in fam.specs if s.cls == cname]
    for where in ("min", "between", "max"):
        plan = base_plan(fam, cname)
        for s in specs:
            if s.patterns:
                continue
            sizes = dict(valid_sizes(s))
            if where in sizes:
                plan[s.prop] = with_value(s, sized(s, sizes[where]))
        yield Variant(cname, None, True, where, plan)


def single_valid(fam: Family, spec: Spec) -> Iterator[Variant]:
    """One valid document per (value, min / between / max): everything else at its default."""
    if spec.patterns:
        yield Variant(spec.cls, spec, True, "min", base_plan(fam, spec.cls))
        return
    for where, n in valid_sizes(spec):
        plan = base_plan(fam, spec.cls)
        plan[spec.prop] = with_value(spec, sized(spec, n))
        yield Variant(spec.cls, spec, True, where, plan)


def violations(fam: Family, spec: Spec) -> Iterator[Variant]:
    """Documents of instances that break exactly one designed constraint of one value."""
    prefix = "list" if spec.kind == "list" else "length"
    if spec.patterns:
        _, bad = pattern_texts(spec)
        for kind, text in bad:
            plan = base_plan(fam, spec.cls)
            plan[spec.prop] = with_value(spec, text)
            yield Variant(spec.cls, spec, False, ("item-" if spec.position == "item" else "") + kind, plan)
        return
    for where, n in invalid_sizes(spec):
        plan = base_plan(fam, spec.cls)
        plan[spec.prop] = with_value(spec, sized(spec, n))
        yield Variant(spec.cls, spec, False, ("item-" if spec.position == "item" else "") + f"{prefix}-{where}", plan)


def reduced(fam: Family, cname: str) -> Family:
    """The family cut down to one concrete class and what it needs (ancestors, item classes, constrained primitives with their ancestors, pattern functions), declaration order kept."""
    import copy

    from harness import mm

    m = fam.mm
    keep_cls: List[str] = []
    keep_cp: List[str] = []

    def need_type(t: Any) -> None:
        t = mm.beneath_optional(t)
        if isinstance(t, mm.ListOf):
            need_type(t.item)
        elif isinstance(t, mm.Ref):
            target = m.find(t.name)
            if isinstance(target, mm.ConstrainedPrimitive):
                need_cp(t.name)
            elif isinstance(target, mm.Class):
                need_cls(t.name)
                for d in mm.descendants(m, t.name):
                    need_cls(d)

    def need_cp(name: str) -> None:
        if name in keep_cp:
            return
        keep_cp.append(name)
        for b in m.find(name).bases:
            need_cp(b)

    def need_cls(name: str) -> None:
        if name in keep_cls:
            return
        keep_cls.append(name)
        c = m.cls(name)
        for b in c.bases:
            need_cls(b)
        for p in c.props:
            need_type(p.type)

    need_cls(cname)
    classes = [copy.deepcopy(c) for c in m.classes if c.name in keep_cls]
    cps = [copy.deepcopy(c) for c in m.constrained_primitives if c.name in keep_cp]
    used = {node.name for x in classes + cps for inv in x.invariants for node in mm.walk_expr(inv.expr) if isinstance(node, mm.FunctionCall)}
    fns = [copy.deepcopy(f) for f in m.verification_functions if f.name in used]
    order = None if m.order is None else [n for n in m.order if n in keep_cls or n in keep_cp]
    small = mm.MM(classes=classes, constrained_primitives=cps, verification_functions=fns, xml_namespace=m.xml_namespace, order=order)
    return Family(fam.name + "/" + cname, small, [s for s in fam.specs if s.cls == cname])


def enumerated(tier: str = "quick", corpus_entries: Sequence[Dict[str, Any]] = ()) -> Iterator[Family]:
    yield patterns_family(True)
    yield escapes_family(corpus_entries)
    for part in range(2):
        yield lists_family(part, 2)
    for part in range(2):
        yield strings_family(part, 2)
    if tier != "quick":
        yield patterns_family(False)
