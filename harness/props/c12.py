"""
C12 — JSON Schema enforces every inferred constraint.

Shares the pipeline, the model and the correspondence with C11 (``harness/props/c11.py``); this module
holds the direct oracle of C12: from a document the SDK produced for an invariant-satisfying instance
it derives *single-value* mutants, each breaking one thing the statement names

  * a length / pattern / list-size constraint that the REAL ``infer_constraints_by_class`` inferred for
    the value — from the instance's own class, an ancestor or the constrained primitive of the value
    (``minLength``, ``maxLength``, ``pattern``, ``minItems``, ``maxItems``, ``bytes-min``, ``bytes-max``),
  * ``modelType`` wrong / missing, a required property missing, a mistyped value,

and demands that the independent ``jsonschema`` library REJECTS the mutant.  The two exclusions of the
statement are honoured: for the items of an *inherited* list only the constraints of the class that
declares the property are demanded; for byte arrays only lengths whose base64 text length leaves the
window of the bound are produced.

Whenever possible the mutated value breaks *exactly one* inferred constraint (so that a dropped
``maxLength`` is not masked by a ``pattern`` that happens to fail as well); the oracle evaluates the
inferred constraints itself (``len``, ``re.match`` on the original pattern) to choose such a value.
"""
from __future__ import annotations

import base64
import copy
import random
import re
from typing import Any, Dict, Iterator, List, Optional, Tuple

from harness.core import Ctx
from harness.props import c11
from harness.props.c11 import GEN, gen_JsonSchema, gen_Retree, gen_Fix16  # noqa: F401

ID = "C12"
LEAN_PROPS = ["AasVerif.Props.C12"]


class Mut:
    def __init__(self, doc: Any, kind: str, label: str, shape: str, sdk_decides: bool = False) -> None:
        self.doc, self.kind, self.label, self.shape = doc, kind, label, shape
        #: the rejection is demanded only where the generated SDK's ``from_jsonable`` refuses the document as well
        self.sdk_decides = sdk_decides


# --------------------------------------------------------------------------- walking a document along the symbol table


class Site:
    """One value of the document together with what the meta-model says about it."""

    def __init__(self, path: Tuple[Any, ...], value: Any, ta: Any, cons: Any, shape: str, optional: bool, cls: Any,
                 prop_name: str = "", depth: int = 0, owner: Any = None) -> None:
        self.path, self.value, self.ta, self.cons, self.shape, self.optional, self.cls = path, value, ta, cons, shape, optional, cls
        self.prop_name, self.depth = prop_name, depth
        self.owner = owner if owner is not None else cls   # the class which declares the property


def _runtime_class(b: c11.Bundle, declared: Any, doc: Any) -> Any:
    if isinstance(doc, dict) and isinstance(doc.get("modelType"), str):
        for c in [declared] + list(declared.concrete_descendants):
            if c11.model_type(c.name) == doc["modelType"]:
                return c
    return declared


def sites(b: c11.Bundle, cls: Any, doc: Any, path: Tuple[Any, ...] = ()) -> Iterator[Site]:
    from aas_core_codegen import intermediate, naming

    if not isinstance(doc, dict):
        return
    cbv = b.cbc[cls]
    for prop in cls.properties:
        jname = str(naming.json_property(prop.name))
        if jname not in doc:
            continue
        ta = intermediate.beneath_optional(prop.type_annotation)
        optional = isinstance(prop.type_annotation, intermediate.OptionalTypeAnnotation)
        yield from _value_sites(b, cls, prop, doc[jname], ta, cbv, path + (jname,), 0, optional)


def _value_sites(b: c11.Bundle, cls: Any, prop: Any, v: Any, ta: Any, cbv: Any, path: Tuple[Any, ...], depth: int,
                 optional: bool) -> Iterator[Site]:
    from aas_core_codegen import intermediate

    inherited = prop.specified_for is not cls
    if inherited and depth > 0:
        # exclusion 1: for the items of an inherited list only the declaring class's constraints are demanded
        cons = b.cbc[prop.specified_for].get(ta, None)
        shape = "inherited-items"
    else:
        cons = cbv.get(ta, None)
        shape = ("inherited" if inherited else "own") + ("-items" if depth > 0 else "")
    if isinstance(ta, intermediate.OurTypeAnnotation) and isinstance(ta.our_type, intermediate.ConstrainedPrimitive):
        shape += "-constrained"
    yield Site(path, v, ta, cons, shape, optional and depth == 0, cls, str(prop.name), depth, prop.specified_for)
    if isinstance(ta, intermediate.ListTypeAnnotation) and isinstance(v, list):
        for i, x in enumerate(v):
            yield from _value_sites(b, cls, prop, x, ta.items, cbv, path + (i,), depth + 1, False)
    elif isinstance(ta, intermediate.OurTypeAnnotation) and isinstance(
            ta.our_type, (intermediate.AbstractClass, intermediate.ConcreteClass)):
        yield from sites(b, _runtime_class(b, ta.our_type, v), v, path)


def _set(doc: Any, path: Tuple[Any, ...], value: Any, delete: bool = False) -> Any:
    out = copy.deepcopy(doc)
    node = out
    for p in path[:-1]:
        node = node[p]
    if delete:
        del node[path[-1]]
    else:
        node[path[-1]] = value
    return out


def _get(doc: Any, path: Tuple[Any, ...]) -> Any:
    for p in path:
        doc = doc[p]
    return doc


# --------------------------------------------------------------------------- the oracle's own reading of the constraints


def _prim_kind(ta: Any) -> Optional[str]:
    from aas_core_codegen import intermediate

    pt = intermediate.try_primitive_type(ta)
    return None if pt is None else pt.name


MAX_CANDIDATE = 80   # longer strings are not tried (Python's re backtracks exponentially on some patterns)


def _quick_match(pattern: str, value: str) -> Optional[bool]:
    """``re.match`` guarded against catastrophic backtracking: None = not decided."""
    if len(value) > MAX_CANDIDATE:
        return None
    key = (pattern, value)
    if key in _MATCH_CACHE:
        return _MATCH_CACHE[key]
    try:
        with c11.time_limit(0.5):
            res: Optional[bool] = re.match(pattern, value) is not None
    except (re.error, c11.TimeLimit):
        res = None
    _MATCH_CACHE[key] = res
    return res


_MATCH_CACHE: Dict[Tuple[str, str], Optional[bool]] = {}


def broken(kindp: Optional[str], is_list: bool, cons: Any, value: Any) -> List[str]:
    """Names of the inferred constraints (length / pattern / size) that ``value`` breaks
    (``pattern?<i>``: could not be decided quickly)."""
    out: List[str] = []
    if cons is None:
        return out
    lc = cons.len_constraint
    if lc is not None:
        if kindp == "STR" and isinstance(value, str):
            n = len(value)
            if lc.min_value is not None and n < lc.min_value:
                out.append("minLength")
            if lc.max_value is not None and n > lc.max_value:
                out.append("maxLength")
        if is_list and isinstance(value, list):
            n = len(value)
            if lc.min_value is not None and n < lc.min_value:
                out.append("minItems")
            if lc.max_value is not None and n > lc.max_value:
                out.append("maxItems")
    if kindp == "STR" and isinstance(value, str) and cons.patterns:
        for i, p in enumerate(cons.patterns):
            verdict = _quick_match(p.pattern, value)
            if verdict is False:
                out.append(f"pattern{i}")
            elif verdict is None:
                out.append(f"pattern?{i}")
    return out


def b64len(n: int) -> int:
    return 4 * ((n + 2) // 3)


FILL = "az09 -_A~é\U0001F600"


def _string_candidates(v: str, cons: Any, rng: random.Random) -> List[str]:
    from harness import mm

    lo = cons.len_constraint.min_value if cons.len_constraint is not None else None
    hi = cons.len_constraint.max_value if cons.len_constraint is not None else None
    cands: List[str] = []
    seeds = [v]
    for p in (cons.patterns or []):
        for _ in range(6):
            s = mm.sample_match(p.pattern, rng, max_repeat=rng.choice([1, 3, 6, 12]))
            if s is not None:
                seeds.append(s)
    for s in seeds:
        if hi is not None and hi < MAX_CANDIDATE:
            if s:
                for ch in {s[-1], s[0], s[len(s) // 2]}:
                    k = hi + 1 - len(s)
                    if k > 0:
                        cands += [s + ch * k, ch * k + s, s[: len(s) // 2] + ch * k + s[len(s) // 2:]]
            cands.append("a" * (hi + 1))
        if lo is not None and 1 <= lo <= MAX_CANDIDATE:
            cands += [s[: lo - 1], s[len(s) - (lo - 1):] if lo > 1 else "", "a" * (lo - 1)]
        for _ in range(4):
            if s:
                k = rng.randrange(len(s))
                c = rng.choice(FILL)
                cands += [s[:k] + c + s[k + 1:], s[:k] + c + s[k:]]
        cands += [s + "~", "~" + s, s + "\U0001F600", " " + s]
    # the neighbours of every escaped code point of the patterns (end points of astral ranges): just outside / inside
    for p in (cons.patterns or []):
        for mt in re.finditer(r"\\U([0-9A-Fa-f]{8})|\\u([0-9A-Fa-f]{4})", p.pattern):
            cp = int(mt.group(1) or mt.group(2), 16)
            for c in (cp - 1, cp + 1, cp):
                if 0 < c <= 0x10FFFF and not 0xD800 <= c <= 0xDFFF:
                    for s in seeds[:3]:
                        if s:
                            cands += [chr(c) + s[1:], s[:-1] + chr(c)]
                        cands.append(chr(c))
    return cands


def bound_tag(bound: Any) -> str:
    """Boundary class of a bound, part of the mutant's shape: the bounds 0 and 1 are representatives of their own."""
    return f"@{bound}" if bound in (0, 1) else ""


def constraint_mutants(site: Site, rng: random.Random, cons: Any = None, item: Any = None) -> Iterator[Tuple[Any, str, str]]:
    """(new value, kind, label) — each breaking one constraint of the site (the inferred ones, or ``cons``).
    ``kind`` carries the boundary class of the bound after ``@`` (split off by ``mutants``).  ``item()`` supplies a
    valid item when an EMPTY list has to grow beyond an upper bound (``maxItems`` of 0)."""
    from aas_core_codegen import intermediate

    cons, v = (site.cons if cons is None else cons), site.value
    if cons is None:
        return
    kindp = _prim_kind(site.ta)
    is_list = isinstance(site.ta, intermediate.ListTypeAnnotation)
    lc = cons.len_constraint
    if kindp == "STR" and isinstance(v, str):
        targets = []
        if lc is not None and lc.min_value is not None and lc.min_value >= 1:
            targets.append("minLength")
        if lc is not None and lc.max_value is not None:
            targets.append("maxLength")
        targets += [f"pattern{i}" for i in range(len(cons.patterns or []))]
        if not targets:
            return
        cands = [c for c in dict.fromkeys(_string_candidates(v, cons, rng)) if len(c) <= MAX_CANDIDATE]
        verdicts = {c: broken(kindp, False, cons, c) for c in cands}
        cands = [c for c in cands if not any(x.startswith("pattern?") for x in verdicts[c])]
        for t in targets:
            exact = [c for c in cands if verdicts[c] == [t]]
            loose = [c for c in cands if t in verdicts[c]]
            pick = exact[0] if exact else (loose[0] if loose else None)
            if pick is None:
                continue
            what = verdicts[pick]
            bound = lc.min_value if t == "minLength" else lc.max_value if t == "maxLength" else cons.patterns[int(t[7:])].pattern
            kind = "pattern" if t.startswith("pattern") else t + bound_tag(bound)
            yield pick, kind, f"{t} ({bound!r}) of {'/'.join(map(str, site.path))} with {pick!r}" + ("" if what == [t] else f" (also breaks {what})")
    elif kindp == "BYTEARRAY" and isinstance(v, str) and lc is not None:
        # exclusion 2: only lengths whose base64 text leaves the window of the bound
        if lc.min_value is not None and b64len(lc.min_value) >= 4 and lc.min_value < 4000:
            n = 3 * (b64len(lc.min_value) // 4 - 1)
            yield base64.b64encode(bytes(range(n))).decode("ascii"), "bytes-min" + bound_tag(lc.min_value), \
                f"len >= {lc.min_value} of {'/'.join(map(str, site.path))} with {n} bytes"
        if lc.max_value is not None and lc.max_value < 4000:
            n = 3 * (b64len(lc.max_value) // 4) + 1
            yield base64.b64encode(bytes(k % 251 for k in range(n))).decode("ascii"), "bytes-max" + bound_tag(lc.max_value), \
                f"len <= {lc.max_value} of {'/'.join(map(str, site.path))} with {n} bytes"
    elif is_list and isinstance(v, list) and lc is not None:
        if lc.min_value is not None and lc.min_value >= 1 and len(v) >= lc.min_value:
            yield v[: lc.min_value - 1], "minItems" + bound_tag(lc.min_value), f"len >= {lc.min_value} of {'/'.join(map(str, site.path))}"
        if lc.max_value is not None and lc.max_value < 200:
            filler: Any = v[-1] if len(v) >= 1 else _NO_ITEM
            if filler is _NO_ITEM and item is not None:
                # an empty list under an upper bound (of 0, or the instance simply is empty): a valid item is synthesised
                filler = item()
            if filler is not _NO_ITEM:
                yield v + [copy.deepcopy(filler) for _ in range(lc.max_value + 1 - len(v))], "maxItems" + bound_tag(lc.max_value), \
                    f"len <= {lc.max_value} of {'/'.join(map(str, site.path))}"


_NO_ITEM: Any = object()


def value_pool(b: c11.Bundle, docs: List[Tuple[Any, Any]]) -> Dict[str, List[Any]]:
    """``str(type annotation)`` -> values seen at such a site in the given (class, document) pairs."""
    pool: Dict[str, List[Any]] = {}
    for cls, doc in docs:
        for site in sites(b, cls, doc):
            vals = pool.setdefault(str(site.ta), [])
            if len(vals) < 8 and site.value not in vals:
                vals.append(site.value)
    return pool


def synth_item(b: c11.Bundle, site: Site, pool: Dict[str, List[Any]], rng: random.Random) -> Any:
    """A value which is a VALID item of the list at ``site`` (``_NO_ITEM``: none found): from the pool of values of the same
    type seen in the documents of this model, else synthesised from the type (primitives, constrained primitives,
    enumerations).  The constraints on the item are evaluated by the oracle itself (``broken``)."""
    from aas_core_codegen import intermediate

    ita = site.ta.items
    if site.owner is not site.cls:
        icons = b.cbc[site.owner].get(ita, None)      # exclusion 1
    else:
        icons = b.cbc[site.cls].get(ita, None)
    kindp = _prim_kind(ita)

    def fits(x: Any) -> bool:
        if kindp == "STR":
            return isinstance(x, str) and broken(kindp, False, icons, x) == []
        if kindp == "BYTEARRAY":
            if not isinstance(x, str):
                return False
            lc = icons.len_constraint if icons is not None else None
            try:
                n = len(base64.b64decode(x))
            except Exception:  # noqa: B902
                return False
            return lc is None or ((lc.min_value is None or n >= lc.min_value) and (lc.max_value is None or n <= lc.max_value))
        if isinstance(ita, intermediate.ListTypeAnnotation):
            return isinstance(x, list) and broken(None, True, icons, x) == []
        return True

    for x in pool.get(str(ita), []):
        if fits(x):
            return x
    if kindp == "BOOL":
        return True
    if kindp == "INT":
        return 1
    if kindp == "FLOAT":
        return 1.5
    if kindp == "STR":
        cands = ["a", "", "ab", "abc", "A", "AB", "ABC", "1", "12", "abcd", "ABCD"]
        if icons is not None:
            cands += [c for c in _string_candidates("a", _ConsView(icons), rng) if len(c) <= MAX_CANDIDATE]
        return next((c for c in cands if fits(c)), _NO_ITEM)
    if kindp == "BYTEARRAY":
        lc = icons.len_constraint if icons is not None else None
        n = (lc.min_value or 0) if lc is not None else 0
        x = base64.b64encode(bytes(range(n % 200))).decode("ascii") if n < 200 else None
        return x if x is not None and fits(x) else _NO_ITEM
    if isinstance(ita, intermediate.OurTypeAnnotation) and isinstance(ita.our_type, intermediate.Enumeration) and ita.our_type.literals:
        return ita.our_type.literals[0].value
    if isinstance(ita, intermediate.ListTypeAnnotation) and fits([]):
        return []
    return _NO_ITEM


class _ConsView:
    """The shape ``_string_candidates`` reads (never None for the length constraint's holder)."""

    def __init__(self, cons: Any) -> None:
        self.len_constraint, self.patterns = cons.len_constraint, cons.patterns


def mistyped_values(site: Site) -> List[Tuple[Any, str]]:
    """Values of another JSON type than the annotation demands (never a value that is a legal instance)."""
    from aas_core_codegen import intermediate

    kindp = _prim_kind(site.ta)
    ta = site.ta
    if kindp == "BOOL":
        return [(1, "integer"), ("true", "string"), (None, "null")]
    if kindp == "INT":
        return [(1.5, "fraction"), ("1", "string"), (True, "boolean"), ([1], "array")]
    if kindp == "FLOAT":
        return [("1.5", "string"), (False, "boolean"), (None, "null")]
    if kindp in ("STR", "BYTEARRAY"):
        return [(7, "integer"), (["a"], "array"), ({"x": 1}, "object"), (None, "null")]
    if isinstance(ta, intermediate.ListTypeAnnotation):
        return [("text", "string"), ({"0": 1}, "object"), (None, "null")]
    if isinstance(ta, intermediate.OurTypeAnnotation) and isinstance(ta.our_type, intermediate.Enumeration):
        lits = {lit.value for lit in ta.our_type.literals}
        bad = next(s for s in ("no such literal", "NO_SUCH_LITERAL", "??") if s not in lits)
        return [(bad, "not-a-literal"), (3, "integer"), (None, "null")]
    return [("text", "string"), ([], "array"), (12, "integer"), (None, "null")]


class _Len:
    def __init__(self, lo: Optional[int], hi: Optional[int]) -> None:
        self.min_value, self.max_value = lo, hi


class _Pat:
    def __init__(self, pattern: str) -> None:
        self.pattern = pattern


class ExpectedCons:
    """The oracle's OWN reading of the meta-model text (``mm.hints_for_class`` / ``hints_for_type``: the tightest of all
    length bounds and every pattern that the invariants of the class, of all its ancestors and of the value's
    constrained primitive and all ITS ancestors state in a schema-representable form), shaped like the real thing."""

    def __init__(self, lo: int, hi: int, patterns: List[str]) -> None:
        lo_ = lo if lo > 0 else None
        hi_ = hi if hi < 10**6 else None
        self.len_constraint = _Len(lo_, hi_) if (lo_ is not None or hi_ is not None) else None
        self.patterns = [_Pat(p) for p in dict.fromkeys(patterns)] or None

    def key(self) -> Tuple[Any, Any, Any]:
        lc = self.len_constraint
        return (lc.min_value if lc else None, lc.max_value if lc else None, frozenset(p.pattern for p in self.patterns or []))


def _real_key(cons: Any) -> Tuple[Any, Any, Any]:
    if cons is None:
        return (None, None, frozenset())
    lc = cons.len_constraint
    lo = lc.min_value if lc is not None else None
    return (lo if lo else None, lc.max_value if lc is not None else None, frozenset(p.pattern for p in (cons.patterns or [])))


_HINTS: Dict[Tuple[int, str], Any] = {}


def expected_constraints(m: Any, site: Site) -> Optional[ExpectedCons]:
    """None: the oracle has no own opinion about this site (not a string / list, crossing bounds, unknown class)."""
    from aas_core_codegen import intermediate
    from harness import mm

    if m is None or not hasattr(m, "classes"):
        return None
    kindp = _prim_kind(site.ta)
    is_list = isinstance(site.ta, intermediate.ListTypeAnnotation)
    if kindp != "STR" and not is_list:
        return None
    cname = str(site.cls.name)
    key = (id(m), cname)
    if key not in _HINTS:
        try:
            _HINTS[key] = (m, mm.hints_for_class(m, cname), {p.name: p.type for p, _ in mm.all_props(m, cname)})
        except KeyError:
            _HINTS[key] = (m, None, None)
    _, hints, types = _HINTS[key]
    if hints is None or site.prop_name not in hints:
        return None
    if site.depth == 0:
        h = hints[site.prop_name]
    else:
        t = mm.beneath_optional(types[site.prop_name])
        for _ in range(site.depth):
            if not isinstance(t, mm.ListOf):
                return None
            t = mm.beneath_optional(t.item)
        h = mm.hints_for_type(m, t)
    if h.lo > h.hi:
        return None
    return ExpectedCons(h.lo, h.hi, h.patterns)


def model_type_shape(c: Any) -> str:
    """Where the ``modelType`` of class ``c`` comes from: ``lonely`` (no parents, no descendants), else parents
    (``p0`` none, ``pW`` at least one serialized with model type, ``pN`` parents but none with model type) and ``+desc``
    for concrete descendants."""
    if not c.inheritances and not c.concrete_descendants:
        return "lonely"
    par = "p0" if not c.inheritances else "pW" if any(i.serialization.with_model_type for i in c.inheritances) else "pN"
    return "hier-" + par + ("+desc" if c.concrete_descendants else "")


def sdk_rejects(b: c11.Bundle, cname: str, doc: Any) -> Tuple[Optional[bool], str]:
    """Does ``<class>_from_jsonable`` of the generated Python SDK refuse ``doc``, and is the refusal about the model type?
    (None, ...): no SDK / another exception.  ("model-type": the message names ``modelType`` / the model type; "other":
    e.g. a property the dispatched class does not know.)"""
    if b.sdk is None:
        return None, "no-sdk"
    try:
        b.sdk.from_jsonable(cname)(doc)
        return False, ""
    except BaseException as e:  # noqa: B902
        if isinstance(e, (KeyboardInterrupt, c11.TimeLimit)):
            raise
        if type(e).__name__ != "DeserializationException":
            return None, type(e).__name__
        msg = str(getattr(e, "cause", "")) + " " + str(e)
        return True, ("model-type" if ("modelType" in msg or "model type" in msg) else "other")


def mutants(b: c11.Bundle, cls: Any, doc: Any, rng: random.Random, cap: int = 14, m: Any = None, ctx: Any = None,
            pool: Optional[Dict[str, List[Any]]] = None) -> List[Mut]:
    """Single-value mutants of ``doc`` (a document of exactly class ``cls``): one per (kind, shape) class, then filled up
    to ``cap`` of each family."""
    from aas_core_codegen import intermediate, naming

    cons_muts: List[Mut] = []
    struct: List[Mut] = []
    expected_muts: List[Mut] = []
    all_sites = list(sites(b, cls, doc))
    if pool is None:
        pool = value_pool(b, [(cls, doc)])

    def split(kind: str) -> Tuple[str, str]:
        k, _, tag = kind.partition("@")
        return k, ("@" + tag if tag else "")

    for site in all_sites:
        item = (lambda _s=site: synth_item(b, _s, pool, rng)) if isinstance(site.ta, intermediate.ListTypeAnnotation) else None
        for value, kind, label in constraint_mutants(site, rng, item=item):
            kind, tag = split(kind)
            cons_muts.append(Mut(_set(doc, site.path, value), kind, label, site.shape + tag))
        # the constraints as the oracle reads them from the meta-model text; only where they differ from the inferred ones
        exp = expected_constraints(m, site)
        if exp is not None:
            if exp.key() == _real_key(site.cons):
                if ctx is not None:
                    ctx.hit("expected-constraints:as-inferred")
            else:
                if ctx is not None:
                    ctx.hit("expected-constraints:DIFFER")
                for value, kind, label in constraint_mutants(site, rng, cons=exp, item=item):
                    kind, tag = split(kind)
                    expected_muts.append(Mut(_set(doc, site.path, value), kind, label + " [constraint read from the meta-model text, not inferred]",
                                             "expected-" + site.shape + tag))
    # structure: every object of the document
    objs: List[Tuple[Tuple[Any, ...], Any, Any]] = [((), cls, doc)]
    for site in all_sites:
        if isinstance(site.ta, intermediate.OurTypeAnnotation) and isinstance(
                site.ta.our_type, (intermediate.AbstractClass, intermediate.ConcreteClass)) and isinstance(site.value, dict):
            objs.append((site.path, _runtime_class(b, site.ta.our_type, site.value), site.value))
    # model types of OTHER classes: the parents, a sibling / descendant, an unrelated class (the SDK decides)
    concrete = [x for x in b.st.classes if isinstance(x, intermediate.ConcreteClass)]
    for path, c, obj in objs:
        where = "/".join(map(str, path)) or "<root>"
        nested = "nested" if path else "root"
        mts = model_type_shape(c)
        if "modelType" in obj:
            struct.append(Mut(_set(doc, path + ("modelType",), "NoSuchModelType"), "modelType-wrong",
                              f"modelType of {where} set to an unknown name", f"{nested}-{mts}"))
            struct.append(Mut(_set(doc, path + ("modelType",), 12), "modelType-wrong",
                              f"modelType of {where} set to a number", f"{nested}-{mts}-number"))
            struct.append(Mut(_set(doc, path + ("modelType",), None, delete=True), "modelType-missing",
                              f"modelType of {where} removed", f"{nested}-{mts}"))
            others: List[Tuple[str, Any]] = [("parent", x) for x in c.inheritances]
            others += [("relative", x) for x in concrete if x is not c and (set(map(id, x.inheritances)) & set(map(id, c.inheritances)) or c in x.inheritances)][:2]
            others += [("unrelated", x) for x in concrete if x is not c and not x.inheritances and not c.inheritances][:1]
            for rel, x in others:
                struct.append(Mut(_set(doc, path + ("modelType",), c11.model_type(x.name)), "modelType-other",
                                  f"modelType of {where} set to the one of the {rel} class {x.name}", f"{nested}-{mts}-{rel}",
                                  sdk_decides=True))
        for prop in c.properties:
            jname = str(naming.json_property(prop.name))
            if jname in obj and not isinstance(prop.type_annotation, intermediate.OptionalTypeAnnotation):
                own = "own" if prop.specified_for is c else "inherited"
                struct.append(Mut(_set(doc, path + (jname,), None, delete=True), "required-missing",
                                  f"required property {jname} of {where} removed", f"{nested}-{own}"))
    for site in all_sites:
        vals = mistyped_values(site)
        value, tname = vals[rng.randrange(len(vals))]
        kp = _prim_kind(site.ta) or type(site.ta).__name__.replace("TypeAnnotation", "")
        struct.append(Mut(_set(doc, site.path, value), "mistyped", f"{'/'.join(map(str, site.path))} ({kp}) set to {value!r}",
                          f"{kp}-as-{tname}-{site.shape}"))
    rng.shuffle(struct)
    rng.shuffle(cons_muts)
    # one representative per (kind, shape) first, then fill up
    out: List[Mut] = list(expected_muts)
    for fam in (cons_muts, struct):
        seen: Dict[Tuple[str, str], int] = {}
        first = [x for x in fam if seen.setdefault((x.kind, x.shape), id(x)) == id(x)]
        rest = [x for x in fam if seen[(x.kind, x.shape)] != id(x)]
        # every (kind, shape) class keeps its representative (boundary classes @0 / @1, the model-type shapes)
        out += first[:4 * cap] + rest[:max(0, cap - len(first))]
    return out


def value_kind_at(b: c11.Bundle, cls: Any, doc: Any, msg: str) -> str:
    """Shape of the value a rejection message points at (for the ``sig`` of a C11 failure)."""
    where = msg.rsplit(" @ ", 1)[-1] if " @ " in msg else ""
    for site in sites(b, cls, doc):
        if "/".join(map(str, site.path)) == where:
            return f"{_prim_kind(site.ta) or type(site.ta).__name__.replace('TypeAnnotation', '')}-{site.shape}"
    return "object" if where == "" else "?"


# --------------------------------------------------------------------------- framework entry points


def correspond(ctx: Ctx) -> None:
    c11.correspond(ctx)


def oracle(ctx: Ctx) -> None:
    c11.oracle(ctx)


def search(ctx: Ctx) -> None:
    c11.search(ctx)


def replay(ctx: Ctx, data: Dict[str, Any]) -> Any:
    return c11.replay(ctx, data)
