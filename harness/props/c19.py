"""C19 — emitted literals denote exactly the original values.

Streams
  enc/<variant>      real encoder vs `Lit.enc_*` (Lean) on corpus + class-enumerated + random strings
  needs/<lang>       real `needs_escaping` vs `Lit.needs_*`
  bytes/<lang>       real `bytes_literal` vs `Lit.bytes_*`
  dec/<reader>       the trusted Lean decoders vs the real tool-chain (python, node, javac+java, g++) or,
                     for C#/Go, vs the independent Python spec readers (harness/c19_spec.py), on the
                     emitted literals and on random literal-like texts
Oracle (independent of the Lean model): every emitted literal is read back by the tool-chain / spec
reader and compared with the original value; an error is accepted only where the language cannot
represent the value; `needs_escaping(s)` is compared with `literal != quote + s + quote`.
"""
from __future__ import annotations

import ast
import itertools
import re
import pathlib
from typing import Any, Callable, Dict, Iterator, List, Optional, Sequence, Tuple

from harness import c19_spec as spec
from harness import c19_tc as tc
from harness.core import Ctx, corpus, crash_name, dec_text, enc_text
from harness.extract import ExtractError, HEADER, _func, _parse, lean_text

ID = "C19"
GEN = ["Lit"]

# --------------------------------------------------------------------------- Gen (translator)

_PY_TABLES = [
    "_BASE_ESCAPING_IN_PYTHON",
    "_ESCAPING_IN_PYTHON_INCLUDING_DOUBLE_QUOTES",
    "_ESCAPING_IN_PYTHON_INCLUDING_DOUBLE_QUOTES_AND_DUPLICATE_CURLY_BRACKETS",
    "_ESCAPING_IN_PYTHON_INCLUDING_SINGLE_QUOTES",
    "_ESCAPING_IN_PYTHON_INCLUDING_SINGLE_QUOTES_AND_DUPLICATE_CURLY_BRACKETS",
]


def _dict_tables(mod: ast.Module, rel: str) -> Dict[str, Dict[str, str]]:
    """Module-level `NAME = {str: str, **OTHER, **{...}}` assignments, resolved in order."""
    tables: Dict[str, Dict[str, str]] = {}

    def ev(node: ast.AST) -> Dict[str, str]:
        if isinstance(node, ast.Name):
            if node.id not in tables:
                raise ExtractError(f"{rel}: table {node.id} used before its definition")
            return dict(tables[node.id])
        if not isinstance(node, ast.Dict):
            raise ExtractError(f"{rel}: escaping table is not a dict display")
        d: Dict[str, str] = {}
        for k, v in zip(node.keys, node.values):
            if k is None:
                d.update(ev(v))
            elif (
                isinstance(k, ast.Constant) and isinstance(k.value, str) and len(k.value) == 1
                and isinstance(v, ast.Constant) and isinstance(v.value, str)
            ):
                d[k.value] = v.value
            else:
                raise ExtractError(f"{rel}: escaping table entry is not a 1-char str -> str constant")
        return d

    for st in mod.body:
        if isinstance(st, ast.Assign) and len(st.targets) == 1 and isinstance(st.targets[0], ast.Name):
            name = st.targets[0].id
            if "ESCAPING" in name:
                tables[name] = ev(st.value)
    return tables


def _lean_table(d: Dict[str, str]) -> str:
    return "[" + ", ".join(f"({ord(k)}, {lean_text(v)})" for k, v in d.items()) + "]"


def gen_Lit(repo: pathlib.Path) -> str:
    rel_py = "aas_core_codegen/python/common.py"
    rel_ts = "aas_core_codegen/typescript/common.py"
    py = _dict_tables(_parse(repo, rel_py), rel_py)
    ts = _dict_tables(_parse(repo, rel_ts), rel_ts)
    for name in _PY_TABLES:
        if name not in py:
            raise ExtractError(f"{rel_py}: table {name} not found")
    if "_BASE_ESCAPING_IN_TYPESCRIPT" not in ts:
        raise ExtractError(f"{rel_ts}: table _BASE_ESCAPING_IN_TYPESCRIPT not found")
    # the tables must still be what string_literal consults
    fn = _func(_parse(repo, rel_py), "string_literal")
    used = {n.id for n in ast.walk(fn) if isinstance(n, ast.Name)}
    for name in _PY_TABLES[1:]:
        if name not in used:
            raise ExtractError(f"{rel_py}: string_literal no longer uses {name}")
    fn = _func(_parse(repo, rel_ts), "string_literal")
    if "_BASE_ESCAPING_IN_TYPESCRIPT" not in {n.id for n in ast.walk(fn) if isinstance(n, ast.Name)}:
        raise ExtractError(f"{rel_ts}: string_literal no longer uses _BASE_ESCAPING_IN_TYPESCRIPT")
    out = "import AasVerif.Model.Text\n" + HEADER.format(src=f"{rel_py}, {rel_ts}")
    out += "namespace AasVerif.Gen.Lit\n"
    short = {
        _PY_TABLES[0]: "pyBase",
        _PY_TABLES[1]: "pyDouble",
        _PY_TABLES[2]: "pyDoubleCurly",
        _PY_TABLES[3]: "pySingle",
        _PY_TABLES[4]: "pySingleCurly",
    }
    for name in _PY_TABLES:
        out += f"/-- `{name}` -/\ndef {short[name]} : List (Nat × Text) := {_lean_table(py[name])}\n"
    out += f"/-- `_BASE_ESCAPING_IN_TYPESCRIPT` -/\ndef tsBase : List (Nat × Text) := {_lean_table(ts['_BASE_ESCAPING_IN_TYPESCRIPT'])}\n"
    out += "end AasVerif.Gen.Lit\n"
    return out


# --------------------------------------------------------------------------- values


def cps(s: str) -> Tuple[int, ...]:
    return tuple(ord(c) for c in s)


def utf16(s: str) -> Tuple[int, ...]:
    out: List[int] = []
    for c in s:
        o = ord(c)
        if o >= 0x10000:
            o -= 0x10000
            out += [0xD800 + (o >> 10), 0xDC00 + (o & 0x3FF)]
        else:
            out.append(o)
    return tuple(out)


def has_surrogate(s: str) -> bool:
    return any(0xD800 <= ord(c) <= 0xDFFF for c in s)


def utf8(s: str) -> Optional[Tuple[int, ...]]:
    if has_surrogate(s):
        return None
    return tuple(s.encode("utf-8"))


def units_wire(u: Optional[Sequence[int]]) -> str:
    if u is None:
        return "none"
    return "some " + ("-" if len(u) == 0 else ".".join(format(x, "x") for x in u))


# --------------------------------------------------------------------------- variants

# name -> (encoder thunk, value the literal must denote (None: not representable, an error is due),
#          reader name, quote text for the needs_escaping comparison)


def _py():
    from aas_core_codegen.python import common as m

    return m


def _cpp():
    from aas_core_codegen.cpp import common as m

    return m


def _cs():
    from aas_core_codegen.csharp import common as m

    return m


def _java():
    from aas_core_codegen.java import common as m

    return m


def _ts():
    from aas_core_codegen.typescript import common as m

    return m


def _go():
    from aas_core_codegen.golang import common as m

    return m


def _pyq(q: str):
    m = _py()
    return {"n": None, "s": m.StringQuoting.SINGLE_QUOTES, "d": m.StringQuoting.DOUBLE_QUOTES}[q]


class Variant:
    def __init__(self, name: str, enc: Callable[[str], str], want: Callable[[str], Optional[Tuple[int, ...]]], reader: str, single_char: bool = False):
        self.name = name
        self.enc = enc
        self.want = want
        self.reader = reader
        self.single_char = single_char


def _reindented(how: str, lit: str) -> str:
    """The literal after the generator's own re-indentation of the code that holds it (what reaches the generated
    file): ``textwrap.indent`` / ``common.indent_but_first_line`` split the text with ``str.splitlines``."""
    import textwrap

    if how == "textwrap":
        out = textwrap.indent(lit, "    ")
        return out[4:] if out.startswith("    ") else out
    from aas_core_codegen import common as cc

    out = cc.indent_but_first_line("X\n" + lit, "    ")
    rest = out.split("\n", 1)[1] if "\n" in out else ""
    return rest[4:] if rest.startswith("    ") else rest


#: variants without a Lean model of their own: the modelled encoder followed by the re-indentation of the generator
UNMODELLED_VARIANTS = {"py:reindent:textwrap", "py:reindent:common"}

VARIANTS: List[Variant] = [
    Variant("py:n:0:0", lambda s: _py().string_literal(s), cps, "py"),
    Variant("py:reindent:textwrap", lambda s: _reindented("textwrap", _py().string_literal(s)), cps, "py"),
    Variant("py:reindent:common", lambda s: _reindented("common", _py().string_literal(s)), cps, "py"),
    Variant("py:s:0:0", lambda s: _py().string_literal(s, _pyq("s")), cps, "py"),
    Variant("py:d:0:0", lambda s: _py().string_literal(s, _pyq("d")), cps, "py"),
    Variant("py:n:0:1", lambda s: _py().string_literal(s, duplicate_curly_brackets=True), cps, "pyf"),
    Variant("py:d:0:1", lambda s: _py().string_literal(s, _pyq("d"), duplicate_curly_brackets=True), cps, "pyf"),
    Variant("cppw", lambda s: _cpp().wstring_literal(s), cps, "cppw"),
    # narrow literals denote UTF-8 bytes (since the repair of C02-F2 for every scalar value; a surrogate must raise)
    Variant("cppn", lambda s: _cpp().string_literal(s), utf8, "cppn"),
    Variant("cppc", lambda s: _cpp().wchar_literal(s), cps, "cppc", single_char=True),
    Variant("cs", lambda s: _cs().string_literal(s), utf16, "cs"),
    Variant("java", lambda s: _java().string_literal(s), utf16, "java"),
    Variant("ts:0:0", lambda s: _ts().string_literal(s), utf16, "tsq"),
    Variant("ts:0:1", lambda s: _ts().string_literal(s, in_backticks=True), utf16, "tst"),
    Variant("go", lambda s: _go().string_literal(s), utf8, "go"),
]
# encoders that are modelled and compared but whose output is not a complete literal (no reader)
EXTRA_ENC: List[Tuple[str, Callable[[str], str]]] = [
    ("py:n:1:0", lambda s: _py().string_literal(s, without_enclosing=True)),
    ("py:s:1:1", lambda s: _py().string_literal(s, _pyq("s"), without_enclosing=True, duplicate_curly_brackets=True)),
    ("py:s:0:1", lambda s: _py().string_literal(s, _pyq("s"), duplicate_curly_brackets=True)),
    ("ts:1:0", lambda s: _ts().string_literal(s, without_enclosing=True)),
    ("ts:1:1", lambda s: _ts().string_literal(s, without_enclosing=True, in_backticks=True)),
]
VAR = {v.name: v for v in VARIANTS}
# the triples over the lookahead alphabet are for the encoders/readers with context (quick tier)
TRIPLES_FOR = {"ts:0:1", "py:n:0:0"}

# needs_escaping: (name, predicate, variant whose literal it talks about, quote)
NEEDS: List[Tuple[str, Callable[[str], bool], Callable[[str], str], str]] = [
    ("py:0", lambda s: _py().needs_escaping(s), lambda s: _py().string_literal(s, _pyq("d")), '"'),
    ("py:1", lambda s: _py().needs_escaping(s, True), lambda s: _py().string_literal(s, _pyq("d"), duplicate_curly_brackets=True), '"'),
    ("cpp", lambda s: _cpp().needs_escaping(s), lambda s: _cpp().wstring_literal(s)[1:], '"'),
    ("cs", lambda s: _cs().needs_escaping(s), lambda s: _cs().string_literal(s), '"'),
    ("java", lambda s: _java().needs_escaping(s), lambda s: _java().string_literal(s), '"'),
    ("ts:0", lambda s: _ts().needs_escaping(s), lambda s: _ts().string_literal(s), '"'),
    ("ts:1", lambda s: _ts().needs_escaping(s, True), lambda s: _ts().string_literal(s, in_backticks=True), "`"),
    ("go", lambda s: _go().needs_escaping(s), lambda s: _go().string_literal(s), '"'),
]

BYTES: List[Tuple[str, Callable[[bytes], Tuple[str, bool]]]] = [
    ("py", lambda b: _py().bytes_literal(b)),
    ("cpp", lambda b: _cpp().bytes_literal(b)),
    ("ts", lambda b: _ts().bytes_literal(b)),
    ("go", lambda b: _go().bytes_literal(b)),
]


def call(f: Callable[..., Any], *a: Any) -> Tuple[str, Any]:
    try:
        return "ok", f(*a)
    except BaseException as e:  # noqa
        return "err", type(e).__name__


# --------------------------------------------------------------------------- generators

REPS: List[str] = list(
    dict.fromkeys(
        ["g", "a", "F", "0", "7", "9", " ", "\t"]
        + [chr(i) for i in range(32)]
        + ["\x7f", "'", '"', "`", "\\", "$", "{", "}", "*", "/"]
        + ["\x80", "\x85", "\xa0", "\xe9", "\xfe", "\xff", "\u0100", "\u2028", "\u2029", "\ufeff", "\uffff", "\u4e2d", "\ud7ff"]
        + ["\ud800", "\udbff", "\udc00", "\udfff", "\ue000", "\U00010000", "\U0001f600", "\U0010ffff"]
        + ["u", "x", "n", "U", "N"]
    )
)
SMALL = ["$", "{", "}", "\\", "`", '"', "'", "a", "1", "\x01", "\ud83d", "\ude00", " "]


def cls(c: str) -> str:
    o = ord(c)
    if o == 0:
        return "nul"
    if c in "\a\b\f\n\r\t\v":
        return "esc" + format(o, "x")
    if o < 32:
        return "c0"
    if c in "0123456789":
        return "digit"
    if c in "abcdefABCDEF":
        return "hexletter"
    if o == 127:
        return "del"
    if c in "'\"`\\${}*/ ":
        return "p" + format(o, "x")
    if o < 127:
        return "ascii"
    if o in (0x85, 0x2028, 0x2029):
        return "nl" + format(o, "x")
    if o < 255:
        return "latin1"
    if o == 255:
        return "ff"
    if 0xD800 <= o <= 0xDBFF:
        return "hisur"
    if 0xDC00 <= o <= 0xDFFF:
        return "losur"
    if o < 0x10000:
        return "bmp"
    return "astral"


def shape(s: str) -> str:
    if len(s) <= 3:
        return "+".join(cls(c) for c in s) or "empty"
    return "long:" + ",".join(sorted({cls(c) for c in s} - {"ascii", "digit", "hexletter", "p20"}))


def rand_text(ctx: Ctx) -> str:
    k = ctx.rng.randint(3, 12)
    out = []
    for _ in range(k):
        r = ctx.rng.random()
        if r < 0.7:
            out.append(ctx.rng.choice(REPS))
        elif r < 0.85:
            out.append(chr(ctx.rng.randint(0, 0x2FF)))
        else:
            out.append(chr(ctx.rng.choice([ctx.rng.randint(0, 0xFFFF), ctx.rng.randint(0x10000, 0x10FFFF)])))
    return "".join(out)


def texts(ctx: Ctx) -> Iterator[Tuple[str, str]]:
    for c in corpus(ID):
        if "text" in c:
            yield dec_text(c["text"]), "corpus"
    yield "", "enumerated"
    for a in REPS:
        yield a, "enumerated"
    for a in REPS:
        for b in REPS:
            yield a + b, "enumerated"
    for t in itertools.product(SMALL, repeat=3):
        yield "".join(t), "enumerated3"
    for _ in range(ctx.n(400, 20000)):
        yield rand_text(ctx), "random"


def byte_values(ctx: Ctx) -> Iterator[Tuple[bytes, str]]:
    for c in corpus(ID):
        if "bytes" in c:
            yield bytes.fromhex(c["bytes"]), "corpus"
    for n in range(0, 27):
        yield bytes(range(n)), "enumerated"
        yield bytes([255 - (i * 7) % 256 for i in range(n)]), "enumerated"
    for b in range(256):
        yield bytes([b]), "enumerated"
    for _ in range(ctx.n(200, 5000)):
        n = ctx.rng.choice([0, 1, 7, 8, 9, 15, 16, 17, 24, 25, ctx.rng.randint(0, 70)])
        yield bytes(ctx.rng.randint(0, 255) for _ in range(n)), "random"


LIT_ALPHA = ["\\", "\\", "\\", '"', "'", "`", "x", "u", "U", "0", "1", "7", "8", "a", "f", "g", "n", "N", "{", "}", "$", " ",
             "\t", "\x00", "\x01", "\x1a", "\x7f", "\x85", "\xe9", "\u2028", "\u2029", "\ud800", "\udc00", "\U0001f600", "\ufeff",
             "\n", "\r", "d", "8", "0", "D", "L", "3"]


def rand_literal(ctx: Ctx, reader: str) -> str:
    """A text that looks like a literal of the reader's language (valid or not)."""
    k = ctx.rng.randint(0, 7)
    body = []
    for _ in range(k):
        r = ctx.rng.random()
        if r < 0.35:
            e = ctx.rng.choice(["x", "u", "U", "0", "1", "3", "7", "n", "t", "a", "v", "'", '"', "\\", "`", "$", "e", "N", "8", "\n", "\r"])
            digs = "".join(ctx.rng.choice("0123456789abcdefABCDEF0011dD8") for _ in range(ctx.rng.choice([0, 1, 2, 3, 4, 4, 5, 8, 8, 9])))
            body.append("\\" + e + (digs if e in "xuU0137" else ""))
        else:
            body.append(ctx.rng.choice(LIT_ALPHA))
    b = "".join(body)
    if reader in ("cppw",):
        if ctx.rng.random() < 0.2:
            return 'L"' + b + '" L"' + ctx.rng.choice(["", "1", "a"]) + '"'
        return 'L"' + b + '"'
    if reader == "cppc":
        return ctx.rng.choice(["L'" + b + "'", f"static_cast<wchar_t>(0x{ctx.rng.randint(0, 0x10ffff):04x})"])
    if reader == "tst":
        return "`" + b + "`"
    if reader in ("py", "pyf"):
        q = ctx.rng.choice(["'", '"'])
        return q + b + q
    return '"' + b + '"'


# --------------------------------------------------------------------------- readers (tool-chains / spec)


def read_all(ctx: Ctx, reader: str, lits: List[str], tag: str = "") -> List[Optional[Tuple[int, ...]]]:
    if not lits:
        return []
    sc = ctx.scratch() / ("r-" + re.sub(r"[^A-Za-z0-9]", "_", tag or reader))
    sc.mkdir(exist_ok=True)
    if reader == "py":
        return tc.read_python(lits, "str")
    if reader == "pyf":
        return tc.read_python_fstring([(lit[1:-1], lit[0]) if len(lit) >= 2 and lit[0] == lit[-1] and lit[0] in "'\"" else ("{", "'") for lit in lits])
    if reader == "pyb":
        return tc.read_python(lits, "bytes")
    if reader == "tsq":
        return tc.read_js(lits, "quoted", sc)
    if reader == "tst":
        return tc.read_js(lits, "template", sc)
    if reader == "tsb":
        return tc.read_js(lits, "expr", sc)
    if reader == "java":
        return tc.read_java(lits, sc)
    if reader == "cppw":
        return tc.read_cpp(lits, "wide", sc)
    if reader == "cppn":
        return tc.read_cpp(lits, "narrow", sc)
    if reader == "cppc":
        return tc.read_cpp(lits, "wchar", sc)
    if reader == "cppb":
        return tc.read_cpp(lits, "bytes", sc)
    if reader == "cs":
        return [spec.read_csharp(lit) for lit in lits]
    if reader == "go":
        return [spec.read_go(lit) for lit in lits]
    if reader == "gob":
        return [spec.read_go_bytes(lit) for lit in lits]
    raise ValueError(reader)


# javac 17 (JDK-8269150 family) miscounts the backslashes that follow a Unicode escape: `\\uXXXX\\\\u` is read as
# `\\uXXXX`, `\\`, then an (illegal) Unicode escape. JLS 3.3 counts contiguous raw backslashes only.
JAVAC17_QUIRK = re.compile(r"\\u+[0-9a-fA-F]{4}(\\\\)+\\?u")

BYTES_READER = {"py": "pyb", "cpp": "cppb", "ts": "tsb", "go": "gob"}
# compiled readers are the expensive ones: the random stream is thinned for them in the quick tier
COMPILED = {"java", "cppw", "cppn", "cppc", "cppb"}


# --------------------------------------------------------------------------- the oracle (statement of C19)


def judge_one(v: Variant, s: str, outcome: Tuple[str, Any], val: Optional[Tuple[int, ...]]) -> Optional[Tuple[str, str]]:
    """Statement of C19 for one string and one target. Returns (sig, what) on failure."""
    want = v.want(s)
    if v.single_char and len(s) != 1:
        want = None
    kind, lit = outcome
    if kind == "err":
        if want is not None:
            return (f"C19:{v.name}:spurious-error:{shape(s)}", f"{v.name} raised {lit} for a representable value {s!r}")
        return None
    if want is None:
        return (f"C19:{v.name}:no-error:{shape(s)}", f"{v.name} emitted {lit!r} for the unrepresentable value {s!r} instead of an error")
    if val is None and v.reader == "java" and JAVAC17_QUIRK.search(lit):
        return ("C19:java:rejected:javac17-backslashes-after-unicode-escape", f"java emitted {lit!r} for {s!r}: valid by JLS 3.3 but rejected by javac 17 (backslash count after a Unicode escape)")
    if val is None:
        return (f"C19:{v.name}:rejected:{shape(s)}", f"{v.name} emitted {lit!r} for {s!r}: not a valid literal for the {v.reader} reader")
    if tuple(val) != tuple(want):
        return (f"C19:{v.name}:wrong-value:{shape(s)}", f"{v.name} emitted {lit!r} for {s!r}: it denotes {list(val)} instead of {list(want)}")
    return None


def _enc_line(name: str, s: str) -> str:
    return f"enc {name} {enc_text(s)}"


def _fmt_outcome(o: Tuple[str, Any]) -> str:
    return ("ok " + enc_text(o[1])) if o[0] == "ok" else ("err " + o[1])


def _thin(ctx: Ctx, reader: str, stream: str, k: int) -> bool:
    """Whether item k of a stream is sent to the reader (compiled readers see a part of the random stream)."""
    if stream != "random" or reader not in COMPILED or ctx.tier != "quick":
        return True
    return k % 3 == 0


def _parallel(jobs: List[Callable[[], Any]], workers: int = 6) -> List[Any]:
    """Tool-chain batches are subprocess-bound: run them side by side (results in job order)."""
    from concurrent.futures import ThreadPoolExecutor

    with ThreadPoolExecutor(max_workers=workers) as ex:
        futs = [ex.submit(j) for j in jobs]
        return [f.result() for f in futs]


def run_strings(ctx: Ctx, with_model: bool, items: Optional[List[Tuple[str, str]]] = None) -> None:
    items = list(texts(ctx)) if items is None else items
    ctx.scratch()
    plan = []
    for v in VARIANTS:
        sel = [(s, st) for (s, st) in items if (len(s) == 1 or st == "corpus" or s in ("", "ab")) or not v.single_char]
        if v.name not in TRIPLES_FOR and ctx.tier == "quick":
            sel = [(s, st) for (s, st) in sel if st != "enumerated3"]
        outs = [call(v.enc, s) for s, _ in sel]
        idx = [k for k, ((s, st), o) in enumerate(zip(sel, outs)) if o[0] == "ok" and _thin(ctx, v.reader, st, k)]
        if v.reader == "java" and ctx.tier == "quick":
            # literals hit by the javac-17 defect (known finding C19-F2) cost a second compiler round:
            # in the quick tier only the corpus witnesses are sent to javac
            idx = [k for k in idx if sel[k][1] == "corpus" or not JAVAC17_QUIRK.search(outs[k][1])]
        plan.append((v, sel, outs, idx))
    all_vals = _parallel([
        (lambda v=v, outs=outs, idx=idx: read_all(ctx, v.reader, [outs[k][1] for k in idx], tag=v.name))
        for (v, sel, outs, idx) in plan
    ])
    for (v, sel, outs, idx), vals in zip(plan, all_vals):
        # correspondence of the encoder
        if with_model and v.name not in UNMODELLED_VARIANTS:
            mouts = ctx.model([_enc_line(v.name, s) for s, _ in sel])
            for (s, st), o, m in zip(sel, outs, mouts):
                ctx.traces_validated += 1
                if _fmt_outcome(o) != m:
                    ctx.disagree("enc/" + v.name, {"variant": v.name, "text": enc_text(s)}, _fmt_outcome(o), m)
        # oracle: read back
        val_of = dict(zip(idx, vals))
        for k, ((s, st), o) in enumerate(zip(sel, outs)):
            ctx.count((v.name, s), nontrivial=len(s) > 0, stream=st)
            ctx.hit(f"{v.name}:{o[0]}")
            if o[0] == "ok" and k not in val_of:
                continue
            if o[0] == "ok" and o[1][1:-1] != s and not v.single_char:
                ctx.hit(f"{v.name}:escaped")
            bad = judge_one(v, s, o, val_of.get(k))
            if bad is not None:
                ctx.fail({"variant": v.name, "text": enc_text(s)}, bad[1], bad[0])
            if k % 1499 == 0:
                ctx.sample({"variant": v.name, "text": s, "literal": o[1], "read_back": val_of.get(k)})
        # decoder validation on the emitted literals (Lean decoder vs tool-chain)
        if with_model:
            lits = [outs[k][1] for k in idx]
            douts = ctx.model([f"dec {v.reader} {enc_text(l)}" for l in lits])
            for l, d, val in zip(lits, douts, vals):
                ctx.traces_validated += 1
                if d != units_wire(val):
                    if v.reader == "java" and val is None and JAVAC17_QUIRK.search(l):
                        ctx.hit("dec/java:javac17-quirk")
                        continue
                    ctx.disagree("dec/" + v.reader, {"reader": v.reader, "literal": enc_text(l)}, units_wire(val), d)
    if with_model:
        for name, f in EXTRA_ENC:
            sel = [s for s, st in items if st != "random" or len(s) < 8]
            outs = [call(f, s) for s in sel]
            mouts = ctx.model([_enc_line(name, s) for s in sel])
            for s, o, m in zip(sel, outs, mouts):
                ctx.traces_validated += 1
                ctx.hit(f"{name}:{o[0]}")
                if _fmt_outcome(o) != m:
                    ctx.disagree("enc/" + name, {"variant": name, "text": enc_text(s)}, _fmt_outcome(o), m)


def run_needs(ctx: Ctx, with_model: bool, items: Optional[List[Tuple[str, str]]] = None) -> None:
    items = list(texts(ctx)) if items is None else items
    for name, pred, lit_of, q in NEEDS:
        sel = [s for s, _ in items]
        outs = [call(pred, s) for s in sel]
        if with_model:
            mouts = ctx.model([f"needs {name} {enc_text(s)}" for s in sel])
        for k, (s, o) in enumerate(zip(sel, outs)):
            ctx.count(("needs", name, s), nontrivial=len(s) > 0, stream="needs")
            got = ("true" if o[1] else "false") if o[0] == "ok" else "err " + o[1]
            ctx.hit(f"needs/{name}:{got}")
            if with_model:
                ctx.traces_validated += 1
                if got != mouts[k]:
                    ctx.disagree("needs/" + name, {"needs": name, "text": enc_text(s)}, got, mouts[k])
            # oracle: needs_escaping(s) <=> the literal is not just the quoted text
            lo = call(lit_of, s)
            plain = lo[0] == "ok" and lo[1] == q + s + q
            if o[0] != "ok":
                ctx.fail({"needs": name, "text": enc_text(s)}, f"needs_escaping[{name}] raised {o[1]} on {s!r}", f"C19:needs/{name}:crash:{shape(s)}")
            elif bool(o[1]) == plain:
                ctx.fail(
                    {"needs": name, "text": enc_text(s)},
                    f"needs_escaping[{name}]({s!r}) = {o[1]} but the literal is {lo[1]!r}",
                    f"C19:needs/{name}:{'missed' if plain is False else 'spurious'}:{shape(s)}",
                )


def run_bytes(ctx: Ctx, with_model: bool, items: Optional[List[Tuple[bytes, str]]] = None) -> None:
    items = list(byte_values(ctx)) if items is None else items
    for name, f in BYTES:
        outs = [call(f, b) for b, _ in items]
        if with_model:
            mouts = ctx.model([f"bytes {name} {enc_text(b.decode('latin-1'))}" for b, _ in items])
        idx = [k for k, o in enumerate(outs) if o[0] == "ok" and _thin(ctx, BYTES_READER[name], items[k][1], k)]
        vals = read_all(ctx, BYTES_READER[name], [outs[k][1][0] for k in idx])
        val_of = dict(zip(idx, vals))
        if with_model:
            douts = ctx.model([f"decbytes {name} {enc_text(outs[k][1][0])}" for k in idx])
            for k, d in zip(idx, douts):
                ctx.traces_validated += 1
                if d != units_wire(val_of[k]):
                    ctx.disagree("dec/" + BYTES_READER[name], {"reader": BYTES_READER[name], "literal": enc_text(outs[k][1][0])}, units_wire(val_of[k]), d)
        for k, ((b, st), o) in enumerate(zip(items, outs)):
            ctx.count(("bytes", name, b), nontrivial=len(b) > 0, stream="bytes-" + st)
            got = f"ok {enc_text(o[1][0])} {1 if o[1][1] else 0}" if o[0] == "ok" else "err " + o[1]
            if with_model:
                ctx.traces_validated += 1
                if got != mouts[k]:
                    ctx.disagree("bytes/" + name, {"bytes_lang": name, "bytes": b.hex()}, got, mouts[k])
            inp = {"bytes_lang": name, "bytes": b.hex()}
            form = "multi" if len(b) > 8 else ("empty" if len(b) == 0 else "single")
            ctx.hit(f"bytes/{name}:{form}")
            if o[0] != "ok":
                ctx.fail(inp, f"bytes_literal[{name}] raised {o[1]}", f"C19:bytes/{name}:crash:{form}")
                continue
            if k not in val_of:
                continue
            if val_of[k] is None:
                ctx.fail(inp, f"bytes_literal[{name}] emitted {o[1][0]!r}: not valid for the {BYTES_READER[name]} reader", f"C19:bytes/{name}:rejected:{form}")
            elif tuple(val_of[k]) != tuple(b):
                ctx.fail(inp, f"bytes_literal[{name}] emitted {o[1][0]!r}: denotes {list(val_of[k])}", f"C19:bytes/{name}:wrong-value:{form}")
            if o[1][1] != ("\n" in o[1][0]):
                ctx.fail(inp, f"bytes_literal[{name}] multi-line flag {o[1][1]} for {o[1][0]!r}", f"C19:bytes/{name}:flag:{form}")


def run_decoders(ctx: Ctx) -> None:
    """The trusted Lean decoders against the real tool-chains / the independent spec readers on literal-like texts."""
    readers = ["py", "pyf", "cppw", "cppn", "cppc", "cs", "java", "tsq", "tst", "go"]
    ctx.scratch()
    batches = []
    for reader in readers:
        n = ctx.n(60, 1500) if reader in COMPILED else ctx.n(600, 10000)
        lits = [c["literal_text"] for c in corpus(ID) if c.get("reader") == reader]
        lits = [dec_text(x) for x in lits] + [rand_literal(ctx, reader) for _ in range(n)]
        batches.append((reader, lits))
    all_vals = _parallel([(lambda r=r, l=l: read_all(ctx, r, l, tag="dec-" + r)) for r, l in batches])
    for (reader, lits), vals in zip(batches, all_vals):
        douts = ctx.model([f"dec {reader} {enc_text(l)}" for l in lits])
        for l, val, d in zip(lits, vals, douts):
            ctx.traces_validated += 1
            ctx.count(("dec", reader, l), stream="dec-" + reader)
            ctx.hit(f"dec/{reader}:{'accept' if val is not None else 'reject'}")
            if d != units_wire(val):
                if reader in COMPILED and ("\n" in l or "\r" in l):
                    # the batch harness never sends texts with raw line ends to javac/g++ (one literal per line)
                    ctx.hit(f"dec/{reader}:raw-newline-not-sent")
                    continue
                if d == "none" and unmodelled(reader, l):
                    ctx.hit(f"dec/{reader}:unmodelled-accepted-by-toolchain")
                    continue
                ctx.disagree("dec/" + reader, {"reader": reader, "literal": enc_text(l)}, units_wire(val), d)


def unmodelled(reader: str, lit: str) -> bool:
    """Literal forms the real tool-chain accepts that the Lean decoders deliberately reject
    (they can only make `dec (enc s) = some s` harder, never wrongly true)."""
    if reader in ("py", "pyf"):
        # triple-quoted literals, \N{...} names, and CPython's acceptance of unknown escapes (SyntaxWarning)
        if lit[:3] in ("\'\'\'", '"""'):
            return True
        i = 0
        while i < len(lit) - 1:
            if lit[i] == "\\":
                if lit[i + 1] not in "\n\\'\"abfnrtvxuU01234567":
                    return True
                i += 2
            else:
                i += 1
        return False
    if reader == "cppw" and re.search(r'"[ \t]*"', lit[2:]):
        # a wide literal followed by an unprefixed literal (`L"a" "b"`) is legal C++; the reader only models `L"a" L"b"`
        return True
    if reader in ("cppw", "cppn", "cppc"):
        # raw non-ASCII in narrow literals (execution charset), multi-character constants, \e and other extensions,
        # universal-character-names below U+00A0 (allowed in literals since C++11) and \u{...}, \o{...}
        return any(ord(c) > 126 or ord(c) < 32 for c in lit) or "\\e" in lit or "\\E" in lit or "\\u" in lit or "\\U" in lit or reader == "cppc"
    if reader in ("tsq", "tst"):
        # legacy octal escapes and \8 \9 in sloppy-mode quoted strings
        return any(("\\" + d) in lit for d in "0123456789")
    if reader == "java":
        return bool(JAVAC17_QUIRK.search(lit)) or "\\s" in lit or any(("\\" + d) in lit for d in "01234567")
    return False


# --------------------------------------------------------------------------- entry points


def correspond(ctx: Ctx) -> None:
    ctx.extra_cov["rule"] = (
        "strings = corpus + '' + all 1- and 2-character strings over %d class representatives + all triples over %d "
        "lookahead characters + seeded random strings (3-12 chars) x %d encoder variants; bytes = lengths 0..26 x 2 patterns "
        "+ all single bytes + random x 4 languages; decoder validation = random literal-like texts per reader; "
        "non-trivial = non-empty; distinct by (variant, value)" % (len(REPS), len(SMALL), len(VARIANTS) + len(EXTRA_ENC))
    )
    ctx.assumptions += [
        "C19: the decoders Lit.dec_* are the trusted readers of each language's literal grammar; python/js/java/c++ decoders "
        "are validated on every run against CPython compile(), node 20, javac/java 17 and g++ 12 (wchar_t = 32 bit, "
        "UTF-8 source); there is NO C# or Go tool-chain in this sandbox: dec_cs and dec_go are derived from ECMA-334 "
        "§6.4.5.6 and the Go specification (string literals, source representation) and are only cross-checked against "
        "an independently written Python reader of the same specifications (harness/c19_spec.py)",
        "C19: source files are UTF-8: a literal containing a lone surrogate cannot be stored and counts as rejected; "
        "TypeScript literals are read with JavaScript (ES2019+) rules (U+2028/2029 allowed in strings)",
    ]
    items = list(texts(ctx))
    run_strings(ctx, True, items)
    run_needs(ctx, True, [(s, st) for s, st in items if st in ("corpus", "enumerated") or (st == "enumerated3" and ctx.tier != "quick") or (st == "random" and len(s) < 7)])
    run_bytes(ctx, True)
    run_decoders(ctx)


def oracle(ctx: Ctx) -> None:
    if not ctx.driver_ok or ctx.searching:
        items = list(texts(ctx))
        run_strings(ctx, False, items)
        run_needs(ctx, False, items)
        run_bytes(ctx, False)


def replay(ctx: Ctx, data: Dict[str, Any]) -> Any:
    inp = data["failure"]["input"] if "failure" in data else data
    res: Dict[str, Any] = {}
    if "variant" in inp:
        s = dec_text(inp["text"])
        name = inp["variant"]
        res["text"] = s
        if name in VAR:
            v = VAR[name]
            o = call(v.enc, s)
            val = read_all(ctx, v.reader, [o[1]])[0] if o[0] == "ok" else None
            res["impl"] = o
            res["read_back"] = val
            res["oracle"] = judge_one(v, s, o, val)
            if ctx.driver_ok:
                if name not in UNMODELLED_VARIANTS:
                    res["model"] = ctx.model([_enc_line(name, s)])[0]
                if o[0] == "ok":
                    res["model_decoder"] = ctx.model([f"dec {v.reader} {enc_text(o[1])}"])[0]
        else:
            f = dict(EXTRA_ENC)[name]
            res["impl"] = call(f, s)
            if ctx.driver_ok:
                res["model"] = ctx.model([_enc_line(name, s)])[0]
    elif "needs" in inp:
        s = dec_text(inp["text"])
        for name, pred, lit_of, q in NEEDS:
            if name == inp["needs"]:
                res = {"text": s, "impl": call(pred, s), "literal": call(lit_of, s)}
                if ctx.driver_ok:
                    res["model"] = ctx.model([f"needs {name} {enc_text(s)}"])[0]
    elif "bytes_lang" in inp:
        b = bytes.fromhex(inp["bytes"])
        name = inp["bytes_lang"]
        f = dict(BYTES)[name]
        o = call(f, b)
        res = {"impl": o}
        if o[0] == "ok":
            res["read_back"] = read_all(ctx, BYTES_READER[name], [o[1][0]])[0]
        if ctx.driver_ok:
            res["model"] = ctx.model([f"bytes {name} {enc_text(b.decode('latin-1'))}"])[0]
    elif "reader" in inp:
        lit = dec_text(inp["literal"])
        res = {"literal": lit, "toolchain": read_all(ctx, inp["reader"], [lit])[0]}
        if ctx.driver_ok:
            res["model_decoder"] = ctx.model([f"dec {inp['reader']} {enc_text(lit)}"])[0]
    return res
