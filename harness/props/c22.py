"""C22 — generation is deterministic.

Three parts:

* ``gen_SortSites``: ``ast`` extraction of the order-normalisation sites of the two schema
  generators and of every iteration over a set-typed expression in ``aas_core_codegen/**``
  (-> ``Gen/SortSites.lean``, pinned by ``decide`` theorems in ``Props/C22.lean``).
* ``correspond``: the real ``_sort_by_tags_and_names_in_place`` / ``_define_for_enumeration`` /
  ``jsonschema.generate`` against the Lean model ``Model/SortedEmit.lean`` on enumerated and
  random key lists (with ties, missing names, non-ASCII and surrogate code points).
* ``oracle`` (the main detection power, independent of Lean): subprocess runs of the real
  command line on the fixture models for all targets under varied hash seeds, output
  locations, pre-populated output directories, snippet listing orders, repeated in-process
  runs and cache histories; everything observable is compared with a reference run.

The same file is the *worker* for the in-process variants:
``python c22.py worker <spec.json> <result.json>``.
"""
from __future__ import annotations

import ast
import concurrent.futures
import hashlib
import io
import json
import os
import pathlib
import random
import re
import shutil
import subprocess
import sys
import tempfile
import time
import traceback
from typing import Any, Dict, Iterable, List, Optional, Sequence, Tuple

ID = "C22"
GEN = ["SortSites", "WriteSites", "StrSites"]
TARGETS = ["cpp", "csharp", "golang", "java", "jsonschema", "python", "typescript", "xsd"]
PY = "/venv/bin/python"
WORKERS = 6
RUN_TIMEOUT = 900

# =========================================================================== worker (in-process variants)


class _ScandirProxy:
    """Replays the entries of one ``os.scandir`` call in another order."""

    def __init__(self, real: Any, mode: str) -> None:
        entries = list(real)
        real.close()
        entries.sort(key=lambda e: e.name)
        if mode == "sorted":
            pass
        elif mode == "reversed":
            entries.reverse()
        elif mode.startswith("shuffle:"):
            random.Random(int(mode.split(":")[1])).shuffle(entries)
        else:
            raise ValueError(mode)
        self._it = iter(entries)

    def __iter__(self) -> Any:
        return self

    def __next__(self) -> Any:
        return next(self._it)

    def close(self) -> None:
        pass

    def __enter__(self) -> Any:
        return self

    def __exit__(self, *a: Any) -> None:
        pass


def _worker_step(step: Dict[str, Any]) -> Dict[str, Any]:
    """One run of the program inside this process: ``main.main`` with ``sys.argv`` set (so the
    argument parsing is the real one), stdout/stderr captured, directory listings reordered."""
    import contextlib
    import tempfile

    import aas_core_codegen.main as m  # the tree under test (PYTHONPATH)

    out, err = io.StringIO(), io.StringIO()
    mode = step.get("listing")
    real_scandir, real_listdir, real_walk = os.scandir, os.listdir, os.walk
    cache_dir = pathlib.Path(tempfile.gettempdir())
    cache_before = any(cache_dir.glob("aas-core-codegen-*/model-*.pickle"))
    if mode:
        def scandir(path: Any = ".") -> Any:
            return _ScandirProxy(real_scandir(path), mode)

        def listdir(path: Any = ".") -> Any:
            return [e.name for e in _ScandirProxy(real_scandir(path), mode)]

        def walk(top: Any, topdown: bool = True, onerror: Any = None, followlinks: bool = False) -> Any:
            # ``os.walk`` of CPython 3.12 looks ``scandir`` up in the globals of ``os`` and is
            # therefore reordered already; this re-implementation (same contract: symbolic links to
            # directories are listed among the directories and only descended into with
            # ``followlinks``) keeps the reordering independent of that implementation detail.
            top = os.fspath(top)
            try:
                it = scandir(top)
            except OSError as error:
                if onerror is not None:
                    onerror(error)
                return
            dirs: List[str] = []
            nondirs: List[str] = []
            for entry in it:
                try:
                    is_dir = entry.is_dir()
                except OSError:
                    is_dir = False
                (dirs if is_dir else nondirs).append(entry.name)
            if topdown:
                yield top, dirs, nondirs
            for d in list(dirs):
                sub = os.path.join(top, d)
                if followlinks or not os.path.islink(sub):
                    yield from walk(sub, topdown, onerror, followlinks)
            if not topdown:
                yield top, dirs, nondirs

        os.scandir, os.listdir, os.walk = scandir, listdir, walk  # type: ignore
    # Interpreter-level "say it once" state is reset, as in a fresh interpreter: CPython prints a warning (e.g. the
    # ``FutureWarning: Possible nested set`` of ``re.compile`` for a pattern like ``[[:alpha:]]``) once per code location and
    # compiles a pattern once per process; a run of the program always starts with both empty.  (State of the *program* -
    # module-level caches, counters, the model cache - is deliberately kept: that is the history axis.)
    re.purge()
    for module in list(sys.modules.values()):
        registry = getattr(module, "__warningregistry__", None)
        if registry:
            registry.clear()
    saved_argv = sys.argv
    sys.argv = ["aas-core-codegen", "--model_path", step["model"], "--snippets_dir", step["snippets"], "--output_dir", step["out"], "--target", step["target"]]
    try:
        with contextlib.redirect_stdout(out), contextlib.redirect_stderr(err):
            try:
                rc: Any = m.main(prog="aas-core-codegen")
            except SystemExit as e:
                rc = e.code
            except BaseException as e:  # noqa
                # what the interpreter does with an uncaught exception: traceback, exit status 1
                rc = 1
                err.write("Traceback (most recent call last):\n" + "".join(traceback.format_exception_only(type(e), e)))
    finally:
        sys.argv = saved_argv
        os.scandir, os.listdir, os.walk = real_scandir, real_listdir, real_walk  # type: ignore
    return {"rc": rc, "stdout": out.getvalue(), "stderr": err.getvalue(), "cache_before": cache_before}


def _worker_main(spec_path: str, result_path: str) -> int:
    spec = json.loads(pathlib.Path(spec_path).read_text())
    results = [_worker_step(st) for st in spec["steps"]]
    pathlib.Path(result_path).write_text(json.dumps(results))
    return 0


if __name__ == "__main__":
    if len(sys.argv) == 4 and sys.argv[1] == "worker":
        sys.exit(_worker_main(sys.argv[2], sys.argv[3]))
    sys.exit("usage: c22.py worker <spec.json> <result.json>")

# =========================================================================== harness side

from harness.core import REPO, VERIF, Ctx, corpus, crash_name, dec_list, enc_list, enc_text  # noqa: E402
from harness.extract import HEADER, ExtractError, _func, _lean_str, _parse, lean_text  # noqa: E402

from harness.props import c22_inputs as inputs  # noqa: E402

CORPUS_DIR = VERIF / "corpus" / ID
SDK_TARGETS = ["cpp", "csharp", "golang", "java", "python", "typescript"]

# --------------------------------------------------------------------------- Gen/SortSites.lean


def _sorted_call_facts(node: ast.AST) -> Optional[Dict[str, Any]]:
    """Facts about ``sorted(<arg>, key=…, reverse=…)``; None if ``node`` is no such call."""
    if not (isinstance(node, ast.Call) and isinstance(node.func, ast.Name) and node.func.id == "sorted" and len(node.args) == 1):
        return None
    key, reverse = "", False
    for kw in node.keywords:
        if kw.arg == "key":
            key = ast.unparse(kw.value)
        elif kw.arg == "reverse":
            reverse = not (isinstance(kw.value, ast.Constant) and kw.value.value in (False, None, 0))
        else:
            raise ExtractError(f"unknown keyword of sorted(): {kw.arg}")
    return {"arg": node.args[0], "key": key, "reverse": reverse}


def _assign_to(fn: ast.FunctionDef, target_src: Sequence[str]) -> ast.Assign:
    hits = [
        n
        for n in ast.walk(fn)
        if isinstance(n, ast.Assign) and len(n.targets) == 1 and ast.unparse(n.targets[0]) in target_src
    ]
    if len(hits) != 1:
        raise ExtractError(f"{fn.name}: expected exactly one assignment to {target_src}, found {len(hits)}")
    return hits[0]


def _jsonschema_sites(repo: pathlib.Path) -> List[Tuple[str, bool, str, bool, str]]:
    """[(role, wrapped in sorted(), key, reverse, shape)] for the three emission sites."""
    mod = _parse(repo, "aas_core_codegen/jsonschema/main.py")
    sites = []
    # 1. enum values
    a = _assign_to(_func(mod, "_define_for_enumeration"), ["definition['enum']"])
    f = _sorted_call_facts(a.value)
    shape = ""
    if f is not None and isinstance(f["arg"], (ast.GeneratorExp, ast.ListComp)):
        g = f["arg"]
        if (
            len(g.generators) == 1
            and not g.generators[0].ifs
            and isinstance(g.elt, ast.Attribute)
            and isinstance(g.elt.value, ast.Name)
            and isinstance(g.generators[0].target, ast.Name)
            and g.elt.value.id == g.generators[0].target.id
        ):
            shape = f"x.{g.elt.attr} for x in {ast.unparse(g.generators[0].iter).split('.')[-1]}"
    sites.append(("enum-values", f is not None, f["key"] if f else "", f["reverse"] if f else False, shape))
    # 2. model types
    gen = _func(mod, "generate")
    a = _assign_to(gen, ["model_types"])
    f = _sorted_call_facts(a.value)
    shape = ""
    if f is not None and isinstance(f["arg"], (ast.GeneratorExp, ast.ListComp)) and len(f["arg"].generators) == 1:
        g = f["arg"]
        shape = f"{ast.unparse(g.elt.func) if isinstance(g.elt, ast.Call) else '?'}(x.name) for x in {ast.unparse(g.generators[0].iter).split('.')[-1]} if {len(g.generators[0].ifs)}"
    sites.append(("model-types", f is not None, f["key"] if f else "", f["reverse"] if f else False, shape))
    # 3. definitions
    a = _assign_to(gen, ["schema['definitions']"])
    comps = [n for n in ast.walk(a.value) if isinstance(n, (ast.ListComp, ast.GeneratorExp, ast.DictComp))]
    if len(comps) != 1 or len(comps[0].generators) != 1:
        raise ExtractError("schema['definitions'] is not built by exactly one comprehension")
    comp = comps[0]
    g0 = comp.generators[0]
    f = _sorted_call_facts(g0.iter)
    src = f["arg"] if f is not None else g0.iter
    # the mapping whose keys are iterated
    mapping = None
    if isinstance(src, ast.Call) and isinstance(src.func, ast.Attribute) and src.func.attr == "keys" and not src.args:
        mapping = ast.unparse(src.func.value)
    elif isinstance(src, ast.Name):
        mapping = src.id
    shape = "?"
    if mapping is not None and isinstance(g0.target, ast.Name) and not g0.ifs:
        k = g0.target.id
        if isinstance(comp, ast.DictComp):
            kv = (comp.key, comp.value)
        elif isinstance(comp.elt, ast.Tuple) and len(comp.elt.elts) == 2:
            kv = (comp.elt.elts[0], comp.elt.elts[1])
        else:
            kv = None
        if kv and ast.unparse(kv[0]) == k and ast.unparse(kv[1]) == f"{mapping}[{k}]":
            shape = "(k, m[k]) for k in keys(m)"
    sites.append(("definitions", f is not None, f["key"] if f else "", f["reverse"] if f else False, shape))
    return sites


def _xsd_skeleton(repo: pathlib.Path) -> Dict[str, Any]:
    """The bucket sort of ``_sort_by_tags_and_names_in_place``.  The buckets are lists initialised empty — each under its own
    name, or as the values of one dict literal keyed by the tags — and are numbered in the order in which they are
    concatenated into the new children (a numbering that does not depend on how the buckets are declared)."""
    mod = _parse(repo, "aas_core_codegen/xsd/main.py")
    fn = _func(mod, "_sort_by_tags_and_names_in_place")
    if len(fn.args.args) != 1:
        raise ExtractError("_sort_by_tags_and_names_in_place: expected one parameter")
    root = fn.args.args[0].arg
    written_back = [
        ast.unparse(s.value) for s in fn.body if isinstance(s, ast.Assign) and ast.unparse(s.targets[0]) == f"{root}[:]"
    ]
    # the buckets, in order of their initialisation: `x = []`, or the entries of `d = {"<tag>": [], …}`
    lists: List[str] = []  # a named list is its name, an entry of the dict is `<dict>[<tag>]`
    by_tag: Dict[str, List[Tuple[str, str]]] = {}  # dict name -> [(tag, bucket)]
    for st in fn.body:
        if not (isinstance(st, ast.Assign) and len(st.targets) == 1 and isinstance(st.targets[0], ast.Name)):
            continue
        name = st.targets[0].id
        if isinstance(st.value, ast.List) and not st.value.elts and name not in written_back:
            lists.append(name)
        elif isinstance(st.value, ast.Dict) and st.value.keys and all(
            isinstance(k, ast.Constant) and isinstance(k.value, str) and isinstance(v, ast.List) and not v.elts
            for k, v in zip(st.value.keys, st.value.values)
        ):
            tags = [k.value for k in st.value.keys]  # type: ignore[union-attr]
            if len(set(tags)) != len(tags):
                raise ExtractError("the dict of the bucket lists names a tag twice")
            by_tag[name] = [(t, f"{name}[{t!r}]") for t in tags]
            lists += [b for _, b in by_tag[name]]
    if not lists:
        raise ExtractError("no bucket lists found")
    loops = [st for st in fn.body if isinstance(st, ast.For)]
    if len(loops) != 2:
        raise ExtractError(f"expected the classification loop and the sorting loop, found {len(loops)} loops")
    cls_loop, sort_loop = loops
    if ast.unparse(cls_loop.iter) != root or not isinstance(cls_loop.target, ast.Name) or len(cls_loop.body) != 1:
        raise ExtractError("classification loop has an unexpected shape")
    child = cls_loop.target.id
    chain: List[Tuple[str, int]] = []
    else_bucket = -1

    def appended(body: List[ast.stmt]) -> int:
        if len(body) == 1 and isinstance(body[0], ast.Expr) and isinstance(body[0].value, ast.Call):
            c = body[0].value
            if isinstance(c.func, ast.Attribute) and c.func.attr == "append" and len(c.args) == 1 and ast.unparse(c.args[0]) == child:
                name = ast.unparse(c.func.value)
                if name in lists:
                    return lists.index(name)
        raise ExtractError("classification branch does not append the child to one of the lists")

    st: Any = cls_loop.body[0]
    lookup = st.value.func.value if (
        isinstance(st, ast.Expr)
        and isinstance(st.value, ast.Call)
        and isinstance(st.value.func, ast.Attribute)
        and st.value.func.attr == "append"
        and len(st.value.args) == 1
        and not st.value.keywords
        and ast.unparse(st.value.args[0]) == child
    ) else None
    if (
        isinstance(lookup, ast.Call)
        and isinstance(lookup.func, ast.Attribute)
        and lookup.func.attr == "get"
        and isinstance(lookup.func.value, ast.Name)
        and lookup.func.value.id in by_tag
        and len(lookup.args) == 2
        and not lookup.keywords
        and ast.unparse(lookup.args[0]) == f"{child}.tag"
        and ast.unparse(lookup.args[1]) in lists
    ):
        # `<dict>.get(child.tag, <else list>).append(child)`: the entry of the tag, or the else list
        chain = [(t, lists.index(b)) for t, b in by_tag[lookup.func.value.id]]
        else_bucket = lists.index(ast.unparse(lookup.args[1]))
        st = None
    while st is not None:
        if not isinstance(st, ast.If):
            raise ExtractError("classification loop is not an if/elif chain")
        t = st.test
        if not (
            isinstance(t, ast.Compare)
            and len(t.ops) == 1
            and isinstance(t.ops[0], ast.Eq)
            and ast.unparse(t.left) == f"{child}.tag"
            and isinstance(t.comparators[0], ast.Constant)
            and isinstance(t.comparators[0].value, str)
        ):
            raise ExtractError("classification test is not `child.tag == <literal>`")
        chain.append((t.comparators[0].value, appended(st.body)))
        if len(st.orelse) == 1 and isinstance(st.orelse[0], ast.If):
            st = st.orelse[0]
            continue
        else_bucket = appended(st.orelse)
        break
    if len({t for t, _ in chain}) != len(chain):
        raise ExtractError("a tag is tested twice in the classification")

    # sorting loop: over a sequence of the bucket lists
    def seq_of_lists(e: ast.AST) -> List[int]:
        if isinstance(e, (ast.List, ast.Tuple)):
            out = []
            for x in e.elts:
                if ast.unparse(x) not in lists:
                    raise ExtractError("sorting loop iterates over something that is not a bucket list")
                out.append(lists.index(ast.unparse(x)))
            return out
        if isinstance(e, ast.BinOp) and isinstance(e.op, ast.Add):
            return seq_of_lists(e.left) + seq_of_lists(e.right)
        if isinstance(e, ast.Call) and isinstance(e.func, ast.Name) and e.func.id == "list" and len(e.args) == 1 and not e.keywords:
            return seq_of_lists(e.args[0])
        if (
            isinstance(e, ast.Call)
            and isinstance(e.func, ast.Attribute)
            and e.func.attr == "values"
            and isinstance(e.func.value, ast.Name)
            and e.func.value.id in by_tag
            and not e.args
            and not e.keywords
        ):
            return [lists.index(b) for _, b in by_tag[e.func.value.id]]
        raise ExtractError("sorting loop iterates over something that is not a sequence of the bucket lists")

    if not (isinstance(sort_loop.target, ast.Name) and len(sort_loop.body) == 1):
        raise ExtractError("sorting loop has an unexpected shape")
    sorted_lists = seq_of_lists(sort_loop.iter)
    call = sort_loop.body[0].value if isinstance(sort_loop.body[0], ast.Expr) else None
    concat: List[int] = []
    concat_in_loop = False
    if (
        isinstance(call, ast.Call)
        and isinstance(call.func, ast.Attribute)
        and call.func.attr == "sort"
        and ast.unparse(call.func.value) == sort_loop.target.id
        and not call.args
    ):
        pass  # `<list>.sort(...)` in place; the lists are concatenated afterwards
    elif (
        isinstance(call, ast.Call)
        and isinstance(call.func, ast.Attribute)
        and call.func.attr == "extend"
        and ast.unparse(call.func.value) in written_back
        and len(call.args) == 1
        and not call.keywords
        and isinstance(call.args[0], ast.Call)
        and isinstance(call.args[0].func, ast.Name)
        and call.args[0].func.id == "sorted"
        and len(call.args[0].args) == 1
        and ast.unparse(call.args[0].args[0]) == sort_loop.target.id
    ):
        # `children.extend(sorted(<list>, ...))` onto the initially empty children: sorted and concatenated in one go
        target = ast.unparse(call.func.value)
        inits = [
            s for s in fn.body
            if isinstance(s, ast.Assign) and len(s.targets) == 1 and ast.unparse(s.targets[0]) == target
        ]
        if not (len(inits) == 1 and isinstance(inits[0].value, ast.List) and not inits[0].value.elts and fn.body.index(inits[0]) < fn.body.index(sort_loop)):
            raise ExtractError(f"{target} is not initialised once, as an empty list, before the sorting loop")
        call = call.args[0]
        concat = list(sorted_lists)
        concat_in_loop = True
    else:
        raise ExtractError("sorting loop body is not `<list>.sort(...)`")
    key, reverse = "", False
    for kw in call.keywords:
        if kw.arg == "key":
            lam = kw.value
            if not (isinstance(lam, ast.Lambda) and len(lam.args.args) == 1):
                raise ExtractError("sort key is not a one-argument lambda")
            p = lam.args.args[0].arg

            class Ren(ast.NodeTransformer):
                def visit_Name(self, n: ast.Name) -> ast.AST:
                    return ast.copy_location(ast.Name(id="e", ctx=n.ctx), n) if n.id == p else n

            key = ast.unparse(Ren().visit(lam.body))
        elif kw.arg == "reverse":
            reverse = not (isinstance(kw.value, ast.Constant) and kw.value.value in (False, None, 0))
        else:
            raise ExtractError(f"unknown argument {kw.arg} of the sort")
    # concatenation

    def flat(n: ast.AST) -> None:
        if isinstance(n, ast.BinOp) and isinstance(n.op, ast.Add):
            flat(n.left)
            flat(n.right)
        elif ast.unparse(n) in lists:
            concat.append(lists.index(ast.unparse(n)))
        else:
            raise ExtractError("children is not a concatenation of the bucket lists")

    if not concat_in_loop:
        flat(_assign_to(fn, ["children"]).value)
    if len(set(concat)) != len(concat):
        raise ExtractError("a bucket list is concatenated twice")
    # number the buckets in the order of the concatenation (the ones left out come last, in order of initialisation)
    order = concat + [i for i in range(len(lists)) if i not in concat]
    chain = [(t, order.index(i)) for t, i in chain]
    else_bucket = order.index(else_bucket)
    sorted_lists = sorted(order.index(i) for i in sorted_lists)
    concat = [order.index(i) for i in concat]
    asserts_len = any(
        isinstance(s, ast.Assert) and ast.unparse(s.test) in (f"len(children) == len({root})", f"len({root}) == len(children)")
        for s in fn.body
    )
    writes_back = any(
        isinstance(s, ast.Assign) and ast.unparse(s.targets[0]) == f"{root}[:]" and ast.unparse(s.value) == "children" for s in fn.body
    )
    # call site: after the last mutation of the children of root, before serialisation
    gen = _func(mod, "_generate")
    idx_sort = idx_ser = -1
    last_mut = -1
    for i, s in enumerate(gen.body):
        src = ast.unparse(s)
        if isinstance(s, ast.Expr) and src.startswith("_sort_by_tags_and_names_in_place("):
            idx_sort = i
        if "ET.tostring(root" in src and isinstance(s, ast.Assign) and idx_ser < 0 and idx_sort >= 0:
            idx_ser = i
        if re.search(r"\broot\.(append|extend|insert|remove)\(|\broot\[[^\]]*\]\s*=", src):
            last_mut = i
    return {
        "n_lists": len(lists),
        "chain": chain,
        "else": else_bucket,
        "sorted": sorted_lists,
        "key": key,
        "reverse": reverse,
        "concat": concat,
        "asserts_len": asserts_len,
        "writes_back": writes_back,
        "sorted_before_serialisation": 0 <= last_mut < idx_sort < idx_ser,
    }


_SET_TYPE_RE = re.compile(r"^(Final\[)?(Optional\[)?(typing\.)?(Set|FrozenSet|AbstractSet|MutableSet|set|frozenset)\b")
_SET_METHODS = {"union", "intersection", "difference", "symmetric_difference", "copy"}


def scan_set_iterations(repo: pathlib.Path) -> List[Tuple[str, str, str, str]]:
    """[(file, function, how, expression)]: places where the *iteration order of a set* can be
    observed: ``for``/comprehension over, or ``list/tuple/next/iter/min/max/enumerate/join/*``
    of, or ``.pop()`` on, a set-typed expression (set display/comprehension, ``set()``,
    ``frozenset()``, set operators/methods, names and attributes annotated as sets), and
    ``sorted(..., key=<uses id()>)``.  ``sorted(<set>)`` is not reported."""
    pkg = repo / "aas_core_codegen"
    if not pkg.is_dir():
        raise ExtractError("aas_core_codegen/ not found")
    files = []
    for p in sorted(pkg.rglob("*.py")):
        rel = p.relative_to(repo).as_posix()
        try:
            files.append((rel, ast.parse(p.read_text(encoding="utf-8"), type_comments=True)))
        except SyntaxError as e:
            raise ExtractError(f"{rel} does not parse: {e}")
    # attributes annotated as sets anywhere in the package
    set_attrs = set()
    for _, tree in files:
        for n in ast.walk(tree):
            if isinstance(n, ast.AnnAssign) and _SET_TYPE_RE.match(ast.unparse(n.annotation)):
                set_attrs.add(ast.unparse(n.target).split(".")[-1])
            if isinstance(n, ast.Assign) and n.type_comment and _SET_TYPE_RE.match(n.type_comment):
                t = ast.unparse(n.targets[0])
                if t.startswith("self."):
                    set_attrs.add(t.split(".")[-1])
    out: List[Tuple[str, str, str, str]] = []

    def is_set(node: ast.AST, names: set) -> bool:
        if isinstance(node, (ast.Set, ast.SetComp)):
            return True
        if isinstance(node, ast.Call):
            f = node.func
            if isinstance(f, ast.Name) and f.id in ("set", "frozenset"):
                return True
            if isinstance(f, ast.Attribute) and f.attr in _SET_METHODS and is_set(f.value, names):
                return True
        if isinstance(node, ast.BinOp) and isinstance(node.op, (ast.BitOr, ast.BitAnd, ast.Sub, ast.BitXor)):
            return is_set(node.left, names) or is_set(node.right, names)
        if isinstance(node, ast.Name):
            return node.id in names
        if isinstance(node, ast.Attribute):
            return ast.unparse(node) in names or node.attr in set_attrs
        return False

    for rel, tree in files:
        for fn in [n for n in ast.walk(tree) if isinstance(n, (ast.FunctionDef, ast.AsyncFunctionDef))]:
            names: set = set()
            for a in fn.args.args + fn.args.kwonlyargs:
                if a.annotation is not None and _SET_TYPE_RE.match(ast.unparse(a.annotation)):
                    names.add(a.arg)
            for _ in range(2):  # names defined from other set-typed names
                for n in ast.walk(fn):
                    if isinstance(n, ast.Assign) and (is_set(n.value, names) or (n.type_comment and _SET_TYPE_RE.match(n.type_comment))):
                        for t in n.targets:
                            names.add(ast.unparse(t))
                    if isinstance(n, ast.AnnAssign) and _SET_TYPE_RE.match(ast.unparse(n.annotation)):
                        names.add(ast.unparse(n.target))

            def check(node: ast.AST, how: str) -> None:
                if is_set(node, names):
                    out.append((rel, fn.name, how, ast.unparse(node)))

            for n in ast.walk(fn):
                if isinstance(n, (ast.For, ast.AsyncFor)):
                    check(n.iter, "for")
                elif isinstance(n, (ast.ListComp, ast.GeneratorExp, ast.DictComp, ast.SetComp)):
                    for g in n.generators:
                        check(g.iter, "comprehension")
                elif isinstance(n, ast.Starred):
                    check(n.value, "star")
                elif isinstance(n, ast.Call):
                    if isinstance(n.func, ast.Name) and n.func.id in ("list", "tuple", "next", "iter", "min", "max", "enumerate") and n.args:
                        check(n.args[0], n.func.id)
                    if isinstance(n.func, ast.Attribute) and n.func.attr == "join" and n.args:
                        check(n.args[0], "join")
                    if isinstance(n.func, ast.Attribute) and n.func.attr == "pop" and not n.args and is_set(n.func.value, names):
                        out.append((rel, fn.name, "pop", ast.unparse(n.func.value)))
                    if isinstance(n.func, ast.Name) and n.func.id == "sorted":
                        for kw in n.keywords:
                            if kw.arg == "key" and any(isinstance(x, ast.Name) and x.id == "id" for x in ast.walk(kw.value)):
                                out.append((rel, fn.name, "sorted-by-id", ast.unparse(n)))
    seen = set()
    uniq = []
    for o in out:
        if o not in seen:
            seen.add(o)
            uniq.append(o)
    return uniq


def gen_SortSites(repo: pathlib.Path) -> str:
    js = _jsonschema_sites(repo)
    x = _xsd_skeleton(repo)
    sets = scan_set_iterations(repo)
    b = lambda v: str(bool(v)).lower()  # noqa: E731
    lines = [
        "import AasVerif.Model.Text",
        HEADER.format(src="jsonschema/main.py (_define_for_enumeration, generate), xsd/main.py (_sort_by_tags_and_names_in_place, _generate) and a scan of aas_core_codegen/**").rstrip("\n"),
        "namespace AasVerif.Gen.SortSites",
        "",
        "/-- One emission site of the JSON-schema generator: what is emitted, whether the iterated",
        "collection is wrapped in `sorted(…)`, its `key=`/`reverse=` and the shape of the iteration. -/",
        "structure Site where\n  role : String\n  wrappedInSorted : Bool\n  key : String\n  reverse : Bool\n  shape : String\n  deriving DecidableEq, Repr",
        "",
        "def jsonschemaSites : List Site := [",
        ",\n".join(
            f"  {{ role := {_lean_str(r)}, wrappedInSorted := {b(w)}, key := {_lean_str(k)}, reverse := {b(rv)}, shape := {_lean_str(sh)} }}"
            for r, w, k, rv, sh in js
        )
        + "]",
        "",
        "/-- `_sort_by_tags_and_names_in_place`: the bucket lists are numbered in the order of their concatenation. -/",
        f"def xsdLists : Nat := {x['n_lists']}",
        "def xsdTagChain : List (Text × Nat) := [" + ", ".join(f"({lean_text(t)}, {i})" for t, i in x["chain"]) + "]",
        f"def xsdElseList : Nat := {x['else']}",
        f"def xsdSortedLists : List Nat := {x['sorted']}",
        f"def xsdSortKey : String := {_lean_str(x['key'])}",
        f"def xsdSortReverse : Bool := {b(x['reverse'])}",
        f"def xsdConcat : List Nat := {x['concat']}",
        f"def xsdAssertsLength : Bool := {b(x['asserts_len'])}",
        f"def xsdWritesBack : Bool := {b(x['writes_back'])}",
        f"def xsdSortedBeforeSerialisation : Bool := {b(x['sorted_before_serialisation'])}",
        "",
        "/-- Iterations whose order is the iteration order of a set: (file, function, how, expression). -/",
        "def setIterations : List (String × String × String × String) := [",
        ",\n".join(f"  ({_lean_str(a)}, {_lean_str(f)}, {_lean_str(h)}, {_lean_str(e)})" for a, f, h, e in sets) + "]",
        "",
        "end AasVerif.Gen.SortSites",
        "",
    ]
    return "\n".join(lines)


# --------------------------------------------------------------------------- Gen/WriteSites.lean

_FS_READS = {
    "exists", "is_file", "is_dir", "is_symlink", "stat", "lstat", "read_text", "read_bytes", "samefile", "iterdir", "glob", "rglob",
    "getmtime", "getsize", "getctime", "isfile", "isdir", "islink", "lexists", "cmp", "cmpfiles", "listdir", "scandir", "walk", "readlink", "access",
}
_FS_WRITES = {"write_text", "write_bytes", "open", "rename", "unlink", "rmdir", "touch", "symlink_to", "hardlink_to", "link_to", "truncate", "rmtree", "copy", "copy2", "copyfile", "copytree", "move", "remove"}


def scan_write_sites(repo: pathlib.Path) -> List[Dict[str, Any]]:
    """Every place of ``aas_core_codegen/<target>/main.py`` that changes a file, per target: the function, the
    call with the receiver and the text argument made anonymous, the file-system *queries* made anywhere in that
    function (a write that depends on what the output directory already holds needs one), and the functions which are
    handed the path.  Syntactic (not inter-procedural): the runs of the oracle on used output directories are the net
    underneath."""
    out: List[Dict[str, Any]] = []
    for t in TARGETS:
        mod = _parse(repo, f"aas_core_codegen/{t}/main.py")
        for fn in [n for n in ast.walk(mod) if isinstance(n, (ast.FunctionDef, ast.AsyncFunctionDef))]:
            calls = [n for n in ast.walk(fn) if isinstance(n, ast.Call)]
            writes = []
            for c in calls:
                f = c.func
                if isinstance(f, ast.Attribute) and f.attr in _FS_WRITES:
                    if f.attr in ("replace", "remove", "copy", "move") and not (isinstance(f.value, ast.Name) and f.value.id in ("os", "shutil")):
                        continue
                    if f.attr == "open" and c.args and isinstance(c.args[0], ast.Constant) and isinstance(c.args[0].value, str) and not set(c.args[0].value) & set("wax+"):
                        continue
                    writes.append(c)
                elif isinstance(f, ast.Name) and f.id == "open":
                    writes.append(c)
            if not writes:
                continue
            reads = sorted({c.func.attr for c in calls if isinstance(c.func, ast.Attribute) and c.func.attr in _FS_READS})
            for c in writes:
                f = c.func
                recv = f.value.id if isinstance(f, ast.Attribute) and isinstance(f.value, ast.Name) else None
                arg0 = c.args[0] if c.args else None

                class Anon(ast.NodeTransformer):
                    def visit_Call(self, n: ast.Call) -> ast.AST:
                        if n is c:
                            n = ast.Call(func=n.func, args=list(n.args), keywords=list(n.keywords))
                            if recv is not None:
                                n.func = ast.Attribute(value=ast.Name(id="_", ctx=ast.Load()), attr=f.attr, ctx=ast.Load())  # type: ignore
                            if arg0 is not None and isinstance(arg0, (ast.Name, ast.Attribute)):
                                n.args = [ast.Name(id="_", ctx=ast.Load())] + list(n.args[1:])
                        return n

                shape = ast.unparse(ast.fix_missing_locations(Anon().visit(c)))
                passed = sorted(
                    {
                        ast.unparse(o.func)
                        for o in calls
                        if o is not c
                        and recv is not None
                        and any(isinstance(x, ast.Name) and x.id == recv for a in list(o.args) + [k.value for k in o.keywords] for x in ast.walk(a))
                    }
                )
                out.append({"target": t, "function": fn.name, "call": shape, "fs_reads": reads, "path_passed_to": passed, "node": c, "recv": recv})
    return out


def gen_WriteSites(repo: pathlib.Path) -> str:
    sites = scan_write_sites(repo)
    if not sites:
        raise ExtractError("no place where a generator writes a file was found in aas_core_codegen/<target>/main.py")
    ls = lambda xs: "[" + ", ".join(_lean_str(x) for x in xs) + "]"  # noqa: E731
    lines = [
        HEADER.format(src="a scan of aas_core_codegen/<target>/main.py for file-changing calls").rstrip("\n"),
        "namespace AasVerif.Gen.WriteSites",
        "",
        "/-- One call that changes a file: where, the call (receiver and text argument anonymous), the file-system",
        "queries made in the same function, the functions that are handed the path. -/",
        "structure Site where\n  target : String\n  function : String\n  call : String\n  fsReads : List String\n  pathPassedTo : List String\n  deriving DecidableEq, Repr",
        "",
        "def writeSites : List Site := [",
        ",\n".join(
            f"  {{ target := {_lean_str(x['target'])}, function := {_lean_str(x['function'])}, call := {_lean_str(x['call'])}, fsReads := {ls(x['fs_reads'])}, pathPassedTo := {ls(x['path_passed_to'])} }}"
            for x in sites
        )
        + "]",
        "",
        "end AasVerif.Gen.WriteSites",
        "",
    ]
    return "\n".join(lines)


# --------------------------------------------------------------------------- Gen/StrSites.lean


def scan_str_sites(repo: pathlib.Path) -> List[Tuple[str, List[str]]]:
    """[(class, interpolated expressions)] for every concrete ``__str__`` of ``intermediate/type_inference.py``: the type
    annotations are what the type-inference errors of all generators print.  An expression is listed as written
    (``self.func.name``); a conversion is appended (``self.func!r``).  Abstract ones (only ``raise``) are skipped."""
    mod = _parse(repo, "aas_core_codegen/intermediate/type_inference.py")
    out: List[Tuple[str, List[str]]] = []
    for cls in [n for n in mod.body if isinstance(n, ast.ClassDef)]:
        for fn in [n for n in cls.body if isinstance(n, ast.FunctionDef) and n.name == "__str__"]:
            rets = [n for n in ast.walk(fn) if isinstance(n, ast.Return) and n.value is not None]
            if not rets:
                if any(isinstance(n, ast.Raise) for n in ast.walk(fn)):
                    continue
                raise ExtractError(f"{cls.name}.__str__ neither returns nor raises")
            exprs: List[str] = []

            def collect(v: ast.AST) -> None:
                if isinstance(v, ast.JoinedStr):
                    for part in v.values:
                        if isinstance(part, ast.FormattedValue):
                            conv = {-1: "", 115: "!s", 114: "!r", 97: "!a"}.get(part.conversion, "!?")
                            exprs.append(ast.unparse(part.value) + conv)
                            if part.format_spec is not None:
                                collect(part.format_spec)
                elif isinstance(v, ast.Constant) and isinstance(v.value, str):
                    pass
                elif isinstance(v, ast.Call) and isinstance(v.func, ast.Name) and v.func.id == "str" and len(v.args) == 1:
                    collect(v.args[0]) if isinstance(v.args[0], (ast.JoinedStr, ast.Constant)) else exprs.append(ast.unparse(v.args[0]))
                elif isinstance(v, ast.BinOp) and isinstance(v.op, (ast.Add, ast.Mod)):
                    collect(v.left)
                    collect(v.right)
                else:
                    exprs.append(ast.unparse(v))

            for r in rets:
                collect(r.value)
            out.append((cls.name, exprs))
    if not out:
        raise ExtractError("no __str__ of a type annotation found in intermediate/type_inference.py")
    return out


def gen_StrSites(repo: pathlib.Path) -> str:
    sites = scan_str_sites(repo)
    ls = lambda xs: "[" + ", ".join(_lean_str(x) for x in xs) + "]"  # noqa: E731
    lines = [
        HEADER.format(src="the __str__ methods of the type annotations in intermediate/type_inference.py").rstrip("\n"),
        "namespace AasVerif.Gen.StrSites",
        "",
        "/-- What every concrete `__str__` of a type annotation interpolates: (class, expressions).  These strings are what the",
        "type-inference errors print as \"the type\" of an expression. -/",
        "def typeStrSites : List (String × List String) := [",
        ",\n".join(f"  ({_lean_str(c)}, {ls(xs)})" for c, xs in sites) + "]",
        "",
        "end AasVerif.Gen.StrSites",
        "",
    ]
    return "\n".join(lines)


# --------------------------------------------------------------------------- cases


class Case:
    """One input of the program.  ``inline`` cases carry their files in the JSON itself
    (``{"model_text": str | None, "snippets": {rel: {"t": text} | {"hex": bytes} | {"link": target}}}``)
    and are materialised into the scratch directory, so that generated inputs (snippet trees with
    broken symbolic links, random models) are replayable."""

    def __init__(
        self, model: str, target: str, model_path: pathlib.Path, snippets: pathlib.Path, failing: bool = False, inline: Optional[Dict[str, Any]] = None
    ) -> None:
        self.model = model
        self.target = target
        self.model_path = model_path
        self.snippets = snippets
        self.failing = failing
        self.inline = inline

    @property
    def id(self) -> str:
        return f"{self.model}/{self.target}"

    def to_json(self) -> Dict[str, Any]:
        def rel(p: pathlib.Path) -> str:
            for base, tag in ((REPO, "$REPO"), (VERIF, "$VERIF")):
                try:
                    return tag + "/" + p.relative_to(base).as_posix()
                except ValueError:
                    pass
            return str(p)

        d = {"model": self.model, "target": self.target, "model_path": rel(self.model_path), "snippets": rel(self.snippets), "failing": self.failing}
        if self.inline is not None:
            d["inline"] = self.inline
            if self.inline.get("model_text") is not None:
                d["model_path"] = "<inline>"
            if self.inline.get("snippets") is not None:
                d["snippets"] = "<inline>"
        return d

    def materialize(self, ctx: Ctx) -> "Case":
        """Write the files of an inline case (idempotent)."""
        if self.inline is None:
            return self
        key = hashlib.sha256(json.dumps(self.inline, sort_keys=True).encode()).hexdigest()[:16]
        d = ctx.scratch() / "inline" / key
        if self.inline.get("model_text") is not None:
            self.model_path = d / "meta_model.py"
        if self.inline.get("snippets") is not None:
            self.snippets = d / "snippets"
        if d.exists():
            return self
        d.mkdir(parents=True)
        if self.inline.get("model_text") is not None:
            self.model_path.write_text(self.inline["model_text"], encoding="utf-8")
        if self.inline.get("snippets") is not None:
            write_tree(self.snippets, self.inline["snippets"], sorted(self.inline["snippets"]))
        return self


def write_tree(root: pathlib.Path, files: Dict[str, Dict[str, str]], order: Sequence[str]) -> None:
    """Create the entries of an inline tree in the given order (creation order = listing order
    on some file systems)."""
    root.mkdir(parents=True, exist_ok=True)
    for rel in order:
        spec = files[rel]
        p = root / rel
        p.parent.mkdir(parents=True, exist_ok=True)
        if "link" in spec:
            os.symlink(spec["link"], p)
        elif "hex" in spec:
            p.write_bytes(bytes.fromhex(spec["hex"]))
        else:
            p.write_bytes(spec["t"].encode("utf-8"))


def _unrel(s: str) -> pathlib.Path:
    if s.startswith("$REPO/"):
        return REPO / s[len("$REPO/") :]
    if s.startswith("$VERIF/"):
        return VERIF / s[len("$VERIF/") :]
    return pathlib.Path(s)


def case_from_json(d: Dict[str, Any]) -> Case:
    return Case(d["model"], d["target"], _unrel(d["model_path"]), _unrel(d["snippets"]), bool(d.get("failing")), d.get("inline"))


def _base_snippets(ctx: Ctx, target: str) -> pathlib.Path:
    """Minimal snippets of a target: those of the fixture case `enum` (java: package.txt of v3)."""
    p = REPO / "dev/test_data/main" / target / "expected/enum/input/snippets"
    if p.is_dir():
        return p
    d = ctx.scratch() / "base_snippets" / target
    if not d.exists():
        d.mkdir(parents=True)
        src = REPO / "dev/test_data/main/java/expected/aas_core_meta.v3/input/snippets/package.txt"
        if not src.exists():
            raise RuntimeError(f"no base snippets for {target}")
        shutil.copy(src, d / "package.txt")
    return d


def small_models() -> List[str]:
    return sorted(p.stem for p in (REPO / "dev/test_data/common_meta_models").glob("*.py") if p.stem != "aas_core_meta.v3")


def fixture_cases(ctx: Ctx, models: Optional[Sequence[str]] = None, with_v3: bool = False) -> List[Case]:
    out: List[Case] = []
    common = REPO / "dev/test_data/common_meta_models"
    names = list(models) if models is not None else small_models()
    for m in names:
        for t in TARGETS:
            sn = REPO / "dev/test_data/main" / t / "expected" / m / "input/snippets"
            out.append(Case(m, t, common / f"{m}.py", sn if sn.is_dir() else _base_snippets(ctx, t)))
    if models is None:
        # cases with their own meta_model.py (jsonschema / xsd only)
        for t in TARGETS:
            base = REPO / "dev/test_data/main" / t / "expected"
            if base.is_dir():
                for d in sorted(base.iterdir()):
                    if (d / "meta_model.py").exists() and (d / "input/snippets").is_dir():
                        out.append(Case(f"{d.name}", t, d / "meta_model.py", d / "input/snippets"))
    if with_v3:
        for t in TARGETS:
            sn = REPO / "dev/test_data/main" / t / "expected/aas_core_meta.v3/input/snippets"
            if sn.is_dir():
                out.append(Case("aas_core_meta.v3", t, common / "aas_core_meta.v3.py", sn))
    return out


def multi_cases() -> List[Case]:
    """The corpus model that needs several snippets per target (listing order matters)."""
    d = CORPUS_DIR / "models" / "multi"
    return [Case("multi", t, d / "meta_model.py", d / "snippets" / t) for t in TARGETS]


def failing_cases(ctx: Ctx) -> List[Case]:
    """Inputs with at least two independent errors."""
    d = CORPUS_DIR / "models"
    out = [
        Case("bad_keys", "python", d / "multi/meta_model.py", d / "bad_keys/snippets", True),
        Case("bad_keys", "xsd", d / "multi/meta_model.py", d / "bad_keys/snippets", True),
        Case("two_errors", "python", d / "two_errors/meta_model.py", d / "multi/snippets/python", True),
        Case("two_errors", "jsonschema", d / "two_errors/meta_model.py", d / "multi/snippets/jsonschema", True),
    ]
    for t in ["python", "cpp", "golang", "csharp", "java", "typescript"]:
        out.append(Case("missing_snippets", t, d / "multi/meta_model.py", _base_snippets(ctx, t), True))
    # every kind of front-end error message (catalogue shared with C03): messages that print a set or a dict
    # unsorted differ between hash seeds
    from harness.props import c03

    defects = dict(c03.PAIR_DEFECTS)
    defects["ctor_set_mismatch"] = (
        "class {N}:\n    first_item: int\n    second_item: int\n    third_item: int\n    fourth_item: int\n\n"
        "    def __init__(self, first_item: int, second_item: int, third_item: int, fourth_item: int, fifth_item: int) -> None:\n"
        "        self.first_item = first_item\n        self.second_item = second_item\n"
        "        self.third_item = third_item\n        self.fourth_item = fourth_item\n"
    )
    droot = ctx.scratch() / "defect_models"
    droot.mkdir(exist_ok=True)
    for name, body in sorted(defects.items()):
        mp = droot / f"{name}.py"
        mp.write_text(c03.PAIR_OK.format(N="First") + "\n\n" + body.format(N="Second") + c03.PAIR_TAIL)
        out.append(Case("defect_" + name, "jsonschema", mp, d / "multi/snippets/jsonschema", True))
    return out


def sets_cases(ctx: Ctx) -> List[Case]:
    """The corpus model with >= 2 (mostly 3-4) items of every kind over which a generator iterates: patterns
    added by descendants on inherited properties (parents with >= 1 pattern and with a length only), patterns on
    own properties and constrained primitives, three enumerations as property types, constant sets with subsets,
    classes sharing properties, a class with two bases."""
    mp = CORPUS_DIR / "models" / "sets" / "meta_model.py"
    return [Case("sets", t, mp, _base_snippets(ctx, t)) for t in TARGETS]


_BAD_UTF8 = "ff fe 62 61 64 20 c3 28".replace(" ", "")


def bad_tree_cases() -> List[Case]:
    """Failing inputs whose independent errors are spread over several snippet sub-directories (siblings, nested,
    top level), of every kind the reader reports: invalid key, not UTF-8, broken symbolic link.  The order of the
    report must not depend on the order in which the directories are listed."""
    ok = {"t": "something\n"}
    trees: Dict[str, Dict[str, Dict[str, str]]] = {
        # the minimal member of the class: two sub-directories with one error each
        "bad_tree_two": {
            "schema_base.json": {"t": "{}\n"},
            "qualified_module_name.txt": {"t": "dummy\n"},
            "Alpha/1st-snippet.txt": ok,
            "Alpha/fine.txt": ok,
            "Beta/2nd-snippet.txt": ok,
            "Gamma/fine.txt": ok,
        },
        # siblings, errors of all kinds, some directories without errors in between
        "bad_tree_siblings": {
            "schema_base.json": {"t": "{}\n"},
            "qualified_module_name.txt": {"t": "dummy\n"},
            "Aa/bad-1.txt": ok,
            "Aa/fine.txt": ok,
            "Bb/bad 2.txt": ok,
            "Bb/dangling.txt": {"link": "nowhere/at/all.txt"},
            "Cc/fine.txt": ok,
            "Dd/not_utf8.txt": {"hex": _BAD_UTF8},
            "Ee/zz-bad.txt": ok,
            "Ee/aa-bad.txt": ok,
            "Ee/bad-1.txt": ok,  # the same file name as in Aa/: a tie for every order that looks at the name only
            "Zz/9x.txt": ok,
            "aa/lower-bad.txt": ok,
        },
        # nested: errors at the top level, in a directory, beneath it and in a deep leaf
        "bad_tree_nested": {
            "root_element.xml": {"t": "<root/>\n"},
            "qualified_module_name.txt": {"t": "dummy\n"},
            "top bad.txt": ok,
            "Types/ok.txt": ok,
            "Types/Item/bad-key.py": ok,
            "Types/Item/deeper/also-bad.py": ok,
            "Types/Other/not_utf8.py": {"hex": _BAD_UTF8},
            "Types/Other/dangling.py": {"link": "../missing.py"},
            "Verification/1x.py": ok,
            "Verification/Item/bad-key.py": ok,  # the same directory and file name as beneath Types/
            "Verification/sub/sub/sub/x y.py": ok,
            "zz/last-bad.txt": ok,
        },
    }
    out = []
    dummy = CORPUS_DIR / "models" / "multi" / "meta_model.py"
    for name, files in trees.items():
        for t in (["jsonschema", "python"] if name != "bad_tree_nested" else ["xsd", "cpp"]):
            out.append(Case(name, t, dummy, pathlib.Path("<inline>"), True, {"model_text": None, "snippets": files}))
    return out


# patterns without ``.``, negated classes and digits: greenery (XSD intersects the patterns on one value) handles these
# quickly, and the XSD translator accepts what greenery prints for their intersections
_TIGHT_PATTERNS = [
    ("matches_lower", "^[a-z_]*$"),
    ("matches_leading_letter", "^[a-z][a-z_]*$"),
    ("matches_no_double_underscore", "^([a-z]|_[a-z])*_?$"),
    ("matches_trailing_x", "^[a-z_]*[x-z]$"),
    ("matches_no_q", "^[a-pr-z_]*$"),
    ("matches_no_w", "^[a-vx-z_]*$"),
    ("matches_short_words", "^[a-z]{0,4}(_[a-z]{0,4})*$"),
    ("matches_not_empty", "^[a-z_]+$"),
]


def tightening_model(rng: random.Random) -> str:
    """A random member of the class "descendants add several patterns / subsets on inherited properties":
    a tree of classes under an abstract root with 1-3 string properties carrying 0-2 patterns (and sometimes a
    length), every descendant adding 0-4 further patterns per inherited property, 2-4 enumerations used as
    property types, a chain of constant sets."""
    L: List[str] = ['"""A random meta-model whose descendants tighten inherited properties (C22)."""', "from enum import Enum", "from typing import List, Optional, Set", "", "from icontract import invariant", "", ""]
    for fn, pat in _TIGHT_PATTERNS:
        L += ["@verification", f"def {fn}(text: str) -> bool:", f'    """Check :paramref:`text` against a pattern."""', f'    pattern = "{pat}"', "    return match(pattern, text) is not None", "", ""]
    n_enums = rng.choice([2, 3, 4])
    enums = [f"Kind_{chr(97 + i)}" for i in range(n_enums)]
    for e in enums:
        L += [f"class {e}(Enum):", f'    """Represent {e}."""', ""]
        for j in range(rng.choice([2, 3, 5])):
            L += [f'    Literal_{j} = "{e.lower()}-{rng.choice("qwertz")}{j}"']
        L += ["", ""]
    pool = ["aa", "bb", "cc", "dd", "ee", "ff", "gg"]
    rng.shuffle(pool)
    L += ["Small_set: Set[str] = constant_set(", f"    values={json.dumps(pool[:2])},", '    description="Small set.",', ")", ""]
    L += ["Middle_set: Set[str] = constant_set(", f"    values={json.dumps(pool[:4])},", '    description="Middle set.",', "    superset_of=[Small_set],", ")", ""]
    L += ["Large_set: Set[str] = constant_set(", f"    values={json.dumps(pool)},", '    description="Large set.",', "    superset_of=[Middle_set],", ")", "", ""]
    props = ["first_text", "second_text", "third_text"][: rng.choice([1, 2, 3])]
    names = [fn for fn, _ in _TIGHT_PATTERNS]
    have: Dict[str, Dict[str, List[str]]] = {}
    set_level: Dict[str, int] = {}
    sets = ["Large_set", "Middle_set", "Small_set"]

    def inv(fn: str, p: str) -> List[str]:
        return ["@invariant(", f"    lambda self: {fn}(self.{p}),", f'    "Property {p} shall satisfy {fn}.",', ")"]

    # root
    have["Root"] = {}
    deco: List[str] = []
    for p in props:
        chosen = rng.sample(names, rng.choice([0, 1, 1, 2]))
        have["Root"][p] = chosen
        for fn in chosen:
            deco += inv(fn, p)
        if rng.random() < 0.5:
            deco += ["@invariant(", f"    lambda self: len(self.{p}) <= {rng.choice([20, 30])},", f'    "Property {p} shall be short.",', ")"]
    deco += ["@invariant(", "    lambda self: self.member in Large_set,", '    "Member shall be in the large set.",', ")"]
    set_level["Root"] = 0
    L += ["@abstract", "@serialization(with_model_type=True)"] + deco + ["class Root(DBC):", '    """Represent the root."""', ""]
    for p in props:
        L += [f"    {p}: str", f'    """Property {p}"""', ""]
    L += ["    member: str", '    """Member of a set"""', "", f'    kind: "{enums[0]}"', '    """Kind"""', ""]
    ctor_args = [f"{p}: str" for p in props] + ["member: str", f'kind: "{enums[0]}"']
    ctor_names = props + ["member", "kind"]
    L += ["    def __init__(self, " + ", ".join(ctor_args) + ") -> None:"] + [f"        self.{a} = {a}" for a in ctor_names] + ["", ""]
    # descendants
    classes = ["Root"]
    abstract = {"Root"}
    for i in range(rng.choice([2, 3, 4, 5])):
        parent = rng.choice([c for c in classes if c in abstract] or ["Root"]) if rng.random() < 0.7 else rng.choice(classes)
        if parent not in abstract:
            parent = "Root"
        name = f"Descendant_{chr(97 + i)}"
        is_abstract = rng.random() < 0.35
        deco = []
        have[name] = {}
        for p in props:
            already = have[parent].get(p, [])
            fresh = [n for n in names if n not in already]
            add = rng.sample(fresh, min(len(fresh), rng.choice([0, 2, 3, 3, 4])))
            have[name][p] = already + add
            for fn in add:
                deco += inv(fn, p)
        lvl = min(2, set_level[parent] + rng.choice([0, 1]))
        set_level[name] = lvl
        if lvl > set_level[parent]:
            deco += ["@invariant(", f"    lambda self: self.member in {sets[lvl]},", f'    "Member shall be in {sets[lvl]}.",', ")"]
        own_enum = enums[(i + 1) % n_enums]
        L += (["@abstract"] if is_abstract else []) + deco + [f"class {name}({parent}, DBC):", f'    """Represent {name}."""', ""]
        L += [f'    extra_{chr(97 + i)}: Optional["{own_enum}"]', '    """Extra"""', ""]
        # constructor: all inherited + own
        chain_extras: List[Tuple[str, str]] = []
        cur = parent
        lineage = [parent]
        while cur != "Root":
            cur = _PARENT[cur]
            lineage.append(cur)
        for anc in reversed(lineage):
            if anc != "Root":
                chain_extras.append(_EXTRA[anc])
        _PARENT[name] = parent
        _EXTRA[name] = (f"extra_{chr(97 + i)}", own_enum)
        inherited_args = ctor_args + [f'{n}: Optional["{e}"] = None' for n, e in chain_extras]
        inherited_names = ctor_names + [n for n, _ in chain_extras]
        L += ["    def __init__(self, " + ", ".join(inherited_args + [f'extra_{chr(97 + i)}: Optional["{own_enum}"] = None']) + ") -> None:"]
        L += [f"        {parent}.__init__(self, " + ", ".join(f"{a}={a}" for a in inherited_names) + ")", f"        self.extra_{chr(97 + i)} = extra_{chr(97 + i)}", "", ""]
        classes.append(name)
        if is_abstract:
            abstract.add(name)
    # every abstract class needs a concrete descendant (several generators assert otherwise)
    for k, a in enumerate([c for c in classes if c in abstract]):
        if any(_PARENT.get(c) == a and c not in abstract for c in classes):
            continue
        lineage = [a]
        while lineage[-1] != "Root":
            lineage.append(_PARENT[lineage[-1]])
        extras = [_EXTRA[x] for x in reversed(lineage) if x != "Root"]
        args = ctor_args + [f'{n}: Optional["{e}"] = None' for n, e in extras]
        argn = ctor_names + [n for n, _ in extras]
        L += [f"class Leaf_{chr(97 + k)}({a}, DBC):", '    """Represent a leaf."""', "", "    def __init__(self, " + ", ".join(args) + ") -> None:"]
        L += [f"        {a}.__init__(self, " + ", ".join(f"{x}={x}" for x in argn) + ")", "", ""]
    L += ["class Container(DBC):", '    """Contain the things."""', "", '    things: List["Root"]', '    """Things"""', ""]
    L += ['    def __init__(self, things: List["Root"]) -> None:', "        self.things = things", "", ""]
    L += ['__version__ = "dummy"', '__xml_namespace__ = "https://dummy.com"', ""]
    return "\n".join(L)


_PARENT: Dict[str, str] = {}
_EXTRA: Dict[str, Tuple[str, str]] = {}


def random_cases(ctx: Ctx, n: int) -> List[Case]:
    """Seeded random members of the tightening class, for the two schema targets (and python)."""
    out: List[Case] = []
    for i in range(n):
        _PARENT.clear()
        _EXTRA.clear()
        text = tightening_model(ctx.rng)
        for t in ["jsonschema", "xsd"] + (["python"] if i % 2 == 0 else []):
            out.append(Case(f"tighten_{i}", t, pathlib.Path("<inline>"), _base_snippets(ctx, t), False, {"model_text": text, "snippets": None}))
    return out


def multi_snippets(target: str) -> pathlib.Path:
    """Snippets which satisfy every target for the models of the new families (they live in the corpus, so a replay finds them)."""
    return CORPUS_DIR / "models" / "multi" / "snippets" / target


def _inline_case(name: str, target: str, text: str, failing: bool) -> Case:
    return Case(name, target, pathlib.Path("<inline>"), multi_snippets(target), failing, {"model_text": text, "snippets": None})


def degenerate_cases(thorough: bool) -> List[Case]:
    """Accepted-but-degenerate collections (repeated / many / twin / single / no members in every list-like construct of the
    language) for every target: three models in the quick tier, one per construct family in the thorough tier."""
    return [_inline_case(name, t, text, False) for name, text in inputs.degenerate_models(grouped=not thorough).items() for t in TARGETS]


def random_degenerate_cases(ctx: Ctx, n: int) -> Tuple[List[Case], List[Case]]:
    """Seeded random members of the degenerate class: (accepted x every target, refused x one target)."""
    ok: List[Case] = []
    refused: List[Case] = []
    for i in range(n):
        text = inputs.random_degenerate_model(ctx.rng)
        ok += [_inline_case(f"degrand_{i}", t, text, False) for t in TARGETS]
        refused.append(_inline_case(f"refusedrand_{i}", ctx.rng.choice(TARGETS), inputs.random_degenerate_refused(ctx.rng), True))
    return ok, refused


def ill_typed_cases(thorough: bool) -> List[Case]:
    """The ill-typed invariant matrix.  Quick: one model per context (a class per atom) on a rotating SDK target, and the
    pairs which the front end refuses one by one; thorough: every batch on every SDK target, the batches per atom and
    every pair on its own."""
    out: List[Case] = []
    batches = inputs.ill_typed_batches()
    for i, (name, pairs) in enumerate(batches):
        for t in SDK_TARGETS if thorough else [SDK_TARGETS[i % len(SDK_TARGETS)]]:
            out.append(_inline_case("illtyped_" + name, t, inputs.ill_typed_model(pairs, list_of_str=t != "java"), True))
    if thorough:
        for i, (name, pairs) in enumerate(inputs.ill_typed_atom_batches()):
            t = SDK_TARGETS[(i + 3) % len(SDK_TARGETS)]
            out.append(_inline_case("illtyped_" + name, t, inputs.ill_typed_model(pairs, list_of_str=t != "java"), True))
    for name, pairs in inputs.ill_typed_singles(full=thorough):
        out.append(_inline_case("illtyped_" + name, "python", inputs.ill_typed_model(pairs), True))
    return out


def refused_cases(ctx: Ctx, thorough: bool) -> List[Case]:
    """The statement on *refused* meta-models (stderr and exit status; the property quantifies over all meta-models):
    every ``unexpected`` fixture of the repository, the refused degenerate collections, one representative per shape of a
    report line of the front end (see ``c22_inputs.build_representatives``), the ill-typed invariant matrix.  Front-end
    refusals do not depend on the target, so those rotate over the eight targets."""
    out: List[Case] = []
    k = 0

    def rot() -> str:
        nonlocal k
        k += 1
        return TARGETS[k % len(TARGETS)]

    for p in sorted((REPO / "dev/test_data").glob("**/unexpected/**/meta_model.py")):
        t = rot()
        out.append(Case("unexpected:" + p.parent.relative_to(REPO / "dev/test_data").as_posix(), t, p, multi_snippets(t), True))
    for name, text in inputs.degenerate_refused().items():
        out.append(_inline_case("refused_" + name, rot(), text, True))
    for name, (targets, text) in inputs.generator_refused().items():
        for t in targets:
            out.append(_inline_case("genrefused_" + name, t, text, True))
    rep = VERIF / inputs.REPRESENTATIVES
    if rep.exists():
        for r in json.loads(rep.read_text()):
            out.append(_inline_case("rep_" + r["name"], rot(), r["text"], True))
    out += ill_typed_cases(thorough)
    return out


def random_refused_cases(ctx: Ctx, n: int) -> List[Case]:
    """Seeded random refused models: random members of the enumerated invalid models of C01 beyond the representatives,
    random role mutants of its rich base model, single-rule mutants of a random valid model of the shared platform."""
    from harness import ast_mutate, mm
    from harness.props import c01

    out: List[Case] = []

    def add(name: str, text: str) -> None:
        try:
            text.encode("utf-8")
        except UnicodeError:
            return
        if "\x00" not in text:
            out.append(_inline_case(name, ctx.rng.choice(TARGETS), text, True))

    try:
        pool = c01.enumerated_cases("quick")
        for i in range(n):
            kind, text, _ = pool[ctx.rng.randrange(len(pool))]
            add(f"c01rand_{i}_{kind}", text)
    except Exception as e:  # noqa  (the C01 harness is not ours; its absence must not break this check)
        ctx.note(f"C01 enumerated cases unavailable: {type(e).__name__}: {e}")
    for i in range(n // 3):
        try:
            m = ast_mutate.random_role_mutant(c01.RICH_BASE, ctx.rng)
        except Exception:  # noqa
            m = None
        if m is not None:
            add(f"rolerand_{i}", m[1])
    try:
        model = mm.random_mm(ctx.rng, 3)
        ms = list(mm.mutants(model, ctx.rng, 1))
        for i, (rule, text) in enumerate(ctx.rng.sample(ms, min(len(ms), n // 3))):
            add(f"rulemutant_{i}_{rule}", text)
    except Exception as e:  # noqa
        ctx.note(f"mm mutants unavailable: {type(e).__name__}: {e}")
    return out


# --------------------------------------------------------------------------- running


def tree_digest(root: pathlib.Path) -> Dict[str, str]:
    """{relative path: kind + sha256}.  Symbolic links are read through (the statement is about the bytes of the
    output files, and a pre-existing output directory may well contain links); a link to nothing is ``dangling``."""
    out: Dict[str, str] = {}
    if not root.exists():
        return out
    for dirpath, dirnames, filenames in os.walk(root, followlinks=True):
        dirnames.sort()
        base = pathlib.Path(dirpath)
        for d in list(dirnames):
            out[(base / d).relative_to(root).as_posix() + "/"] = "dir"
        for f in sorted(filenames):
            p = base / f
            rel = p.relative_to(root).as_posix()
            try:
                out[rel] = "file:" + hashlib.sha256(p.read_bytes()).hexdigest()
            except OSError:
                out[rel] = ("dangling:" + os.readlink(p)) if p.is_symlink() else "unreadable"
    return out


def _env(hashseed: str, tmpdir: pathlib.Path) -> Dict[str, str]:
    env = {k: v for k, v in os.environ.items() if k not in ("PYTHONHASHSEED", "PYTHONPATH", "TMPDIR", "TEMP", "TMP")}
    env["PYTHONPATH"] = str(REPO)
    env["TMPDIR"] = str(tmpdir)
    env["PYTHONDONTWRITEBYTECODE"] = "1"
    if hashseed != "unset":
        env["PYTHONHASHSEED"] = hashseed
    return env


def copy_snippets(src: pathlib.Path, dst: pathlib.Path, order: str, rng: random.Random) -> None:
    """Copy a snippets tree creating the entries (and with them their directories) in a chosen order;
    symbolic links are re-created as links."""
    files = sorted(p.relative_to(src).as_posix() for p in src.rglob("*") if p.is_symlink() or p.is_file())
    if order == "reversed":
        files.reverse()
    elif order == "shuffled":
        rng.shuffle(files)
    dst.mkdir(parents=True)
    for rel in files:
        (dst / rel).parent.mkdir(parents=True, exist_ok=True)
        if (src / rel).is_symlink():
            os.symlink(os.readlink(src / rel), dst / rel)
        else:
            shutil.copyfile(src / rel, dst / rel)


SHM = pathlib.Path("/dev/shm")


def shm_available() -> bool:
    """A second file system with another listing order (tmpfs lists by creation, ext4 by name hash)."""
    return SHM.is_dir() and os.access(SHM, os.W_OK)


# Histories of the output directory which differ from the fresh output only "invisibly": a previous generation
# (= the reference output) whose files were altered in a way a lenient comparison would not see.
PREV_KINDS = ["same", "crlf", "cr", "trailws", "finalnl", "bom", "samelen", "longer", "shorter", "perm", "symlink", "nbsp"]


def _alter(kind: str, data: bytes) -> bytes:
    if kind == "crlf":
        return data.replace(b"\r\n", b"\n").replace(b"\n", b"\r\n")
    if kind == "cr":
        return data.replace(b"\r\n", b"\n").replace(b"\n", b"\r")
    if kind == "trailws":
        return data.replace(b"\n", b" \t\n") + b"  "
    if kind == "finalnl":
        return data[:-1] if data.endswith(b"\n") else data + b"\n"
    if kind == "bom":
        return b"\xef\xbb\xbf" + data
    if kind == "nbsp":  # look-alike characters: no-break space for the first blank, trailing zero-width space
        return data.replace(b" ", b"\xc2\xa0", 1) + b"\xe2\x80\x8b"
    if kind in ("samelen", "perm", "symlink"):  # older content of the same length
        for i, b in enumerate(data):
            if 65 <= b <= 90 or 97 <= b <= 122:
                return data[:i] + bytes([b ^ 0x20]) + data[i + 1 :]
        return (b"#" + data[1:]) if data and data[:1] != b"#" else b"%" + data[1:]
    if kind == "longer":
        return data + b"\n// older, longer content\n" + data[-200:]
    if kind == "shorter":
        return data[: max(0, len(data) * 2 // 3)]
    return data


def natural_listing(d: pathlib.Path) -> List[str]:
    return [p.relative_to(d).as_posix() for p in d.glob("**/*")]


def _first_diff(a: str, b: str) -> str:
    la, lb = a.split("\n"), b.split("\n")
    for i in range(max(len(la), len(lb))):
        x = la[i] if i < len(la) else "<missing>"
        y = lb[i] if i < len(lb) else "<missing>"
        if x != y:
            return f"line {i + 1}: reference {x[:200]!r} vs {y[:200]!r}"
    return "?"


def _tree_diff(ref: Dict[str, str], got: Dict[str, str], pre: Dict[str, str]) -> str:
    for rel, dg in sorted(ref.items()):
        if rel not in got:
            return f"owned entry {rel} is missing"
        if got[rel] != dg:
            return f"owned entry {rel} differs ({dg[:18]} vs {got[rel][:18]})"
    for rel, dg in sorted(got.items()):
        if rel in ref:
            continue
        if rel not in pre:
            return f"extra entry {rel} that neither the reference run produced nor existed before"
        if pre[rel] != dg:
            return f"pre-existing foreign entry {rel} was modified"
    for rel in sorted(pre):
        if rel not in got:
            return f"pre-existing entry {rel} was removed"
    return ""


def _strip_traceback(stderr: str) -> str:
    """Frames of an uncaught exception depend on how the program was started; keep the last line."""
    if "Traceback (most recent call last):" not in stderr:
        return stderr
    head, _, tail = stderr.partition("Traceback (most recent call last):")
    lines = [ln for ln in tail.split("\n") if ln and not ln.startswith(" ")]
    # an uncaught exception is a defect by itself (C01, C02); the ``repr`` of the objects in its message is not compared
    return head + "<traceback> " + _ADDRESS_RE.sub("0x<address>", lines[-1] if lines else "")


_ADDRESS_RE = re.compile(r"0x[0-9a-fA-F]{6,}")


def address_leak(ref: Dict[str, Any], res: Dict[str, Any]) -> Optional[Tuple[str, str]]:
    """If two outcomes differ *only* in hexadecimal addresses: (stream, shape of the first line that carries one) - an
    ``id()`` / default ``repr`` reached the output, which differs from process to process."""
    if res["rc"] != ref["rc"]:
        return None
    for k in ("stderr", "stdout"):
        if res[k] != ref[k]:
            if _ADDRESS_RE.sub("@", res[k]) != _ADDRESS_RE.sub("@", ref[k]):
                return None
            for a, b in zip(ref[k].split("\n"), res[k].split("\n")):
                if a != b:
                    # the root cause is the object whose default representation is printed: ``<module.Class [name] at 0x...>``
                    m = re.search(r"<([A-Za-z_][\w.]*)(?: object| instance)?(?: [^<>\n]*?)? at 0x[0-9a-fA-F]+>", a)
                    if m is not None:
                        return k, "<" + m.group(1) + " at 0x...>"
                    shape = re.sub(r"\s+", " ", inputs.message_shape(re.sub(r"^\s*At line \d+ and column \d+: ", "", a.strip())))
                    return k, shape[:90]
    return None


# Axes of a step (the hash seed and the history are properties of the process the step runs in).
STEP_AXES = ["outloc", "prepop", "listing", "snipcopy"]


class Step:
    def __init__(self, case: Case, var: Dict[str, Any]) -> None:
        self.case = case
        self.var = var  # outloc, prepop, donor, listing, snipcopy, rseed
        self.dir: pathlib.Path = pathlib.Path()
        self.out: pathlib.Path = pathlib.Path()
        self.snippets: pathlib.Path = case.snippets
        self.pre: Dict[str, str] = {}
        self.obstructed: Optional[str] = None
        self.res: Dict[str, Any] = {}

    def axes(self) -> List[str]:
        return [a for a in STEP_AXES if self.var.get(a)]


class Batch:
    """One process: a hash seed, a temp directory, a sequence of steps."""

    def __init__(self, name: str, hashseed: str, steps: List[Step], cli: Optional[str] = None) -> None:
        self.name = name
        self.hashseed = hashseed
        self.steps = steps
        self.cli = cli  # module name: run the (single) step through the real command line
        self.dir: pathlib.Path = pathlib.Path()


class Runner:
    def __init__(self, ctx: Ctx) -> None:
        self.ctx = ctx
        self.root = ctx.scratch() / "runs"
        self.root.mkdir(parents=True, exist_ok=True)
        self.refs: Dict[str, Dict[str, Any]] = {}
        self.counter = 0
        self.foreign_dirs: List[pathlib.Path] = []  # directories outside the scratch directory (tmpfs)
        self.batch_wall: Dict[str, float] = {}

    def cleanup(self) -> None:
        for d in self.foreign_dirs:
            shutil.rmtree(d, ignore_errors=True)
        self.foreign_dirs = []

    def _dir(self, tag: str) -> pathlib.Path:
        self.counter += 1
        d = self.root / f"{self.counter:05d}-{re.sub(r'[^A-Za-z0-9_.]+', '_', tag)[:40]}"
        d.mkdir(parents=True)
        return d

    # ---- preparation (sequential, cheap)
    def prepare(self, step: Step) -> None:
        case, var = step.case, step.var
        ref = self.refs.get(case.id, {"tree": {}})
        d = step.dir = self._dir(case.id)
        rng = random.Random(var.get("rseed", 0))
        step.out = d / ("out" if not var.get("outloc") else "another output-dir with a longer näme/nested/deeper/o")
        out = step.out
        if var.get("snipcopy"):
            order = var["snipcopy"]
            if order.startswith("shm:"):  # the copy lives on tmpfs (listing order = creation order)
                order = order[4:]
                if shm_available():
                    base = pathlib.Path(tempfile.mkdtemp(prefix=f"aasverif-C22-{os.getpid()}-", dir=str(SHM)))
                    self.foreign_dirs.append(base)
                else:
                    base = d
                step.snippets = base / ("sn_" + order)
            else:
                step.snippets = d / ("sn_" + order)
            copy_snippets(case.snippets, step.snippets, order, rng)
        pp = var.get("prepop")
        if pp:
            out.mkdir(parents=True)
            if pp == "stale":
                donor = var.get("donor")
                if donor and donor in self.refs and self.refs[donor].get("out"):
                    src = pathlib.Path(self.refs[donor]["out"])
                    if src.is_dir():
                        shutil.copytree(src, out, dirs_exist_ok=True)
                (out / "STALE.txt").write_text("left over\n")
                (out / "stale_dir").mkdir(exist_ok=True)
                (out / "stale_dir" / "old.bin").write_bytes(b"\x00\xff stale")
                for rel, dg in ref["tree"].items():  # every owned file exists already with other content
                    if dg.startswith("file:"):
                        p = out / rel
                        p.parent.mkdir(parents=True, exist_ok=True)
                        p.write_text("stale content of " + rel + "\n" * 50)
            elif pp == "readonly":
                (out / "READONLY.txt").write_text("left over, read-only\n")
                os.chmod(out / "READONLY.txt", 0o444)
                owned = sorted(rel for rel, dg in ref["tree"].items() if dg.startswith("file:"))
                for rel in owned[:3]:
                    p = out / rel
                    p.parent.mkdir(parents=True, exist_ok=True)
                    p.write_text("read-only stale content\n")
                    os.chmod(p, 0o444)
                (out / "ro_dir").mkdir()
                (out / "ro_dir" / "x").write_text("x")
            elif pp.startswith("prev:"):
                # a previous generation of the same input, every file altered "invisibly"
                kind = pp[5:]
                src = pathlib.Path(ref.get("out", ""))
                if ref.get("out") and src.is_dir():
                    shutil.copytree(src, out, dirs_exist_ok=True)
                owned = sorted(rel for rel, dg in ref["tree"].items() if dg.startswith("file:"))
                elsewhere = d / "elsewhere"
                if kind == "symlink":
                    # an owned directory which is a link to a directory elsewhere
                    elsewhere.mkdir(exist_ok=True)
                    tops = sorted({rel.split("/")[0] for rel, dg in ref["tree"].items() if dg == "dir" and rel.count("/") == 1})
                    if tops and (out / tops[-1]).is_dir():
                        (out / tops[-1]).rename(elsewhere / "moved_dir")
                        os.symlink(str(elsewhere / "moved_dir"), out / tops[-1])
                for n, rel in enumerate(owned):
                    p = out / rel
                    if not p.is_file():
                        continue
                    p.write_bytes(_alter(kind, p.read_bytes()))
                    if kind == "perm":
                        os.chmod(p, [0o444, 0o755, 0o400, 0o600][n % 4])
                    elif kind == "symlink":
                        tgt = elsewhere / f"{n}.old"
                        if n % 5 == 4:  # a link to nothing
                            p.unlink()
                        else:
                            p.rename(tgt)
                        os.symlink(str(tgt) if n % 2 == 0 else os.path.relpath(tgt, os.path.realpath(p.parent)), p)
            elif pp == "obstruct":
                dirs = sorted(rel for rel, dg in ref["tree"].items() if dg == "dir")
                files = sorted(rel for rel, dg in ref["tree"].items() if dg.startswith("file:"))
                if dirs:
                    top = dirs[0].rstrip("/").split("/")[0]
                    (out / top).write_text("a file where a directory is expected\n")
                    step.obstructed = top
                elif files:
                    (out / files[0]).mkdir(parents=True)
                    step.obstructed = files[0]
            step.pre = tree_digest(out)

    def _finish(self, step: Step, res: Dict[str, Any]) -> None:
        res["tree"] = tree_digest(step.out)
        for k in ("stdout", "stderr"):
            t = res[k].replace(str(step.out), "<out>")
            if step.snippets != step.case.snippets:
                t = t.replace(str(step.snippets), str(step.case.snippets))
            res[k] = _strip_traceback(t)
        res["out"] = str(step.out)
        step.res = res

    def run_batch(self, b: Batch) -> None:
        t0 = time.time()
        try:
            self._run_batch(b)
        finally:
            self.batch_wall[b.name] = round(time.time() - t0, 1)

    def _run_batch(self, b: Batch) -> None:
        tmpdir = b.dir / "tmp"
        tmpdir.mkdir(parents=True, exist_ok=True)
        if b.cli:
            (step,) = b.steps
            c = step.case
            cmd = [PY, "-m", b.cli, "--model_path", str(c.model_path), "--snippets_dir", str(step.snippets), "--output_dir", str(step.out), "--target", c.target]
            proc = subprocess.run(cmd, env=_env(b.hashseed, tmpdir), stdout=subprocess.PIPE, stderr=subprocess.PIPE, timeout=RUN_TIMEOUT, cwd=str(b.dir))
            self._finish(step, {"rc": proc.returncode, "stdout": proc.stdout.decode("utf-8", "backslashreplace"), "stderr": proc.stderr.decode("utf-8", "backslashreplace")})
            return
        spec = b.dir / "spec.json"
        resf = b.dir / "result.json"
        spec.write_text(
            json.dumps(
                {
                    "steps": [
                        {"model": str(st.case.model_path), "snippets": str(st.snippets), "target": st.case.target, "out": str(st.out), "listing": st.var.get("listing")}
                        for st in b.steps
                    ]
                }
            )
        )
        proc = subprocess.run(
            [PY, str(pathlib.Path(__file__).resolve()), "worker", str(spec), str(resf)],
            env=_env(b.hashseed, tmpdir),
            stdout=subprocess.PIPE,
            stderr=subprocess.PIPE,
            timeout=RUN_TIMEOUT * 4,
            cwd=str(b.dir),
        )
        if proc.returncode != 0 or not resf.exists():
            raise RuntimeError(f"in-process worker {b.name} failed (rc {proc.returncode}): {proc.stderr.decode(errors='replace')[-800:]}")
        for st, res in zip(b.steps, json.loads(resf.read_text())):
            self._finish(st, res)

    def run_batches(self, batches: Sequence[Batch]) -> None:
        for b in batches:
            b.dir = self._dir("batch-" + b.name)
            for st in b.steps:
                self.prepare(st)
        with concurrent.futures.ThreadPoolExecutor(max_workers=WORKERS) as pool:
            for f in [pool.submit(self.run_batch, b) for b in batches]:
                f.result()

    # ---- reference: one process, PYTHONHASHSEED=0, fresh output directories, natural listing
    def references(self, cases: Sequence[Case]) -> None:
        todo: List[Case] = []
        seen: set = set()
        for c in cases:
            if c.id not in self.refs and c.id not in seen:
                seen.add(c.id)
                todo.append(c)
        if not todo:
            return
        # two processes when there is much to do (halves the wall time)
        n_chunks = 1 if len(todo) < 12 else (2 if len(todo) < 200 else 6)
        halves = [todo[i::n_chunks] for i in range(n_chunks)]
        batches = [Batch(f"ref{i}", "0", [Step(c, {}) for c in h]) for i, h in enumerate(halves)]
        self.run_batches(batches)
        for b in batches:
            for st in b.steps:
                self.refs[st.case.id] = st.res

    # ---- the oracle proper: the statement of C22 for one (reference, varied run) pair
    def judge(self, step: Step, cli: Optional[str] = None) -> List[Tuple[str, str]]:
        case, res = step.case, step.res
        ref = self.refs[case.id]
        bad: List[Tuple[str, str]] = []
        same_outcome = res["rc"] == ref["rc"] and res["stdout"] == ref["stdout"] and res["stderr"] == ref["stderr"]
        if step.obstructed is not None:
            if case.failing or same_outcome:
                return bad  # the obstruction was never reached
            graceful = res["rc"] == 1 and "<traceback>" not in res["stderr"] and step.obstructed.split("/")[0] in res["stderr"] and res["stderr"].count("\n* ") >= 1
            return [
                (
                    "obstructed-path" if graceful else "obstructed-path-crash",
                    f"a pre-existing entry <out>/{step.obstructed} of the other kind (file vs directory) changes the outcome: rc {res['rc']!r}, stderr {res['stderr'][:300]!r}",
                )
            ]
        if cli == "aas_core_codegen":
            pass  # `python -m aas_core_codegen` drops the return value of main() (exit status is C03's business)
        elif res["rc"] != ref["rc"]:
            bad.append(("rc", f"exit status {res['rc']!r} instead of {ref['rc']!r}"))
        for k in ("stdout", "stderr"):
            if res[k] != ref[k]:
                bad.append((k, f"{k} differs: {_first_diff(ref[k], res[k])}"))
        diff = _tree_diff(ref["tree"], res["tree"], step.pre)
        if diff:
            bad.append(("tree", diff))
        return bad

    # ---- attribution of a failing step to one axis, by fresh single-step processes
    def isolate(self, step: Step, hashseed: str, cli: Optional[str]) -> Tuple[str, Dict[str, Any], List[Tuple[str, str]]]:
        case = step.case
        trials: List[Tuple[str, str, Dict[str, Any]]] = [("history", "0", {})]
        if hashseed not in ("0",):
            trials.append(("hashseed", hashseed if hashseed != "random" else "random", {}))
        for a in step.axes():
            v = {a: step.var[a], "rseed": step.var.get("rseed", 0)}
            if a == "prepop":
                v["donor"] = step.var.get("donor")
            trials.append((a, "0", v))
        for axis, hs, v in trials:
            reps = 3 if hs == "random" else 1
            for _ in range(reps):
                st = Step(case, v)
                b = Batch(f"isolate-{axis}", hs, [st])
                self.run_batches([b])
                bad = self.judge(st)
                if bad:
                    return axis, dict(v, hashseed=hs), bad
        if cli:
            st = Step(case, {})
            self.run_batches([Batch("isolate-cli", "0", [st], cli=cli)])
            bad = self.judge(st, cli)
            if bad:
                return "cli", {"cli": cli}, bad
        return "combination", dict(step.var, hashseed=hashseed), []


def report(ctx: Ctx, runner: Runner, step: Step, batch: Batch, bad: List[Tuple[str, str]]) -> None:
    case = step.case
    where = case.model if case.failing else case.target
    var = dict({k: v for k, v in step.var.items() if k != "donor" or step.var.get("prepop") == "stale"}, hashseed=batch.hashseed)
    if bad and bad[0][0].startswith("obstructed"):
        kind, what = bad[0]
        sig = "C22:prepop:obstructed-path" if kind == "obstructed-path" else f"C22:prepop:{kind}:{case.target}"
        ctx.fail({"case": case.to_json(), "variation": var}, f"{case.id}: {what}", sig)
        return
    axis, v2, bad2 = runner.isolate(step, batch.hashseed, batch.cli)
    if bad2:
        var, bad = v2, bad2
    for kind, what in bad[:3]:
        ctx.fail({"case": case.to_json(), "variation": var, "cli": batch.cli}, f"{case.id} under {json.dumps(var, sort_keys=True)}: {what}", f"C22:{axis}:{kind}:{where}")


# --------------------------------------------------------------------------- plan of a run


def plan_batches(ctx: Ctx, ok_cases: List[Case], bad_cases: List[Case], donors: Dict[str, str], thorough: bool, plain_cases: Sequence[Case] = ()) -> List[Batch]:
    rng = ctx.rng
    # "random" as concrete seeds drawn from ctx.rng, so that a replay re-runs the same seed
    seeds = ["1", "2", str(rng.randrange(3, 1 << 32))] + (["3", str(rng.randrange(3, 1 << 32)), "unset"] if thorough else [])
    batches: List[Batch] = []
    n_ok = len(ok_cases)
    for bi, hs in enumerate(seeds):
        steps: List[Step] = []
        for k, c in enumerate(ok_cases + bad_cases):
            rs = rng.randrange(1 << 30)
            donor = donors.get(c.target)
            if donor == c.id:
                donor = None
            heavy = c.model == "aas_core_meta.v3"
            if heavy and bi >= 3:
                continue
            sel = (k + bi) % 3
            if sel == 0:
                var = {"outloc": True, "prepop": ["stale", "readonly"][(k // 3) % 2], "donor": donor, "listing": "reversed"}
            elif sel == 1:
                var = {"listing": f"shuffle:{rs % 1000}", "snipcopy": ["reversed", "shuffled", "sorted"][(k // 3) % 3]}
            else:
                var = {"prepop": "obstruct"} if (k // 3) % 4 == bi % 4 and k < n_ok else {"listing": "sorted", "outloc": (k // 3) % 2 == 1}
            var["rseed"] = rs
            steps.append(Step(c, var))
            if thorough and not heavy:
                steps.append(Step(c, {"rseed": rs, "listing": ["reversed", f"shuffle:{(rs >> 10) % 1000}"][k % 2]}))
        # the seeded random degenerate collections plainly (the hash seed is the axis)
        for c in plain_cases if (thorough or bi != 1) else []:
            steps.append(Step(c, {"rseed": 0}))
        # a plain repetition of some cases at the end of the process (module-level state)
        for c in rng.sample(ok_cases + bad_cases, min(6 if not thorough else 30, len(ok_cases) + len(bad_cases))):
            if c.model != "aas_core_meta.v3":
                steps.append(Step(c, {"rseed": 0}))
        rng.shuffle(steps)
        if len(steps) > 150:  # split long batches to use the cores
            half = len(steps) // 2
            batches.append(Batch(f"seed{hs}-{bi}a", hs, steps[:half]))
            batches.append(Batch(f"seed{hs}-{bi}b", hs, steps[half:]))
        else:
            batches.append(Batch(f"seed{hs}-{bi}", hs, steps))
    # the real command line (argparse, module start-up): a few single-step processes
    cli_cases = [c for c in ok_cases if c.model == "multi"] + [c for c in bad_cases if (c.model, c.target) in (("bad_keys", "python"), ("missing_snippets", "cpp"), ("two_errors", "jsonschema"))]
    # the unmodified command line on a snippets copy that lives on another file system (created in reverse order),
    # and on the multi-item model under a random hash seed
    cli_cases += [c for c in bad_cases if (c.model, c.target) in (("bad_tree_two", "jsonschema"), ("bad_tree_siblings", "python"), ("bad_tree_nested", "xsd"))]
    cli_cases += [c for c in ok_cases if c.model == "sets" and c.target in ("jsonschema", "xsd")]
    if thorough:
        cli_cases = cli_cases + [c for c in ok_cases if c.model in ("list_of_classes", "aas_core_meta.v3")] + [c for c in bad_cases if c not in cli_cases]
    for k, c in enumerate(cli_cases):
        mod = "aas_core_codegen" if k % 3 == 2 else "aas_core_codegen.main"
        var = {"rseed": k, "outloc": k % 2 == 1}
        if c.model.startswith("bad_tree"):
            var["snipcopy"] = "shm:reversed" if k % 2 == 0 else "shm:shuffled"
        if k % 4 == 0 and not c.failing:
            var.update({"prepop": "stale", "donor": donors.get(c.target) if donors.get(c.target) != c.id else None})
        batches.append(Batch(f"cli-{k}", ["random", "1", "unset"][k % 3], [Step(c, var)], cli=mod))
    return batches


ENUM_SEEDS = ["3", "4", "5", "6"]


def plan_enumerated(
    ok_enum: List[Case], schema_cases: List[Case], tree_cases: List[Case], bad_cases: List[Case], extra_ok: List[Case], thorough: bool,
    plain: Sequence[Tuple[Case, int]] = (),
) -> List[Batch]:
    """The seed-independent slice (no ``ctx.rng``): four further hash seeds, each process running

    (a) every schema-target case of the multi-item models and every failing input plainly (with the reference and
        the three seeds of ``plan_batches`` that is >= 8 hash seeds for jsonschema and xsd, >= 4 for the SDK targets);
    (b) every "invisible" history of the output directory (``PREV_KINDS``) for every target;
    (c) every failing input whose errors stem from several places under every listing order: in-process
        reordering (``os.scandir``/``os.listdir``/``os.walk``) sorted / reversed / two shuffles, and real copies
        created in sorted / reversed / shuffled order on tmpfs and on the scratch file system.
    """
    seeds = ENUM_SEEDS + (["7", "8"] if thorough else [])
    steps: Dict[str, List[Step]] = {hs: [] for hs in seeds}
    k = 0

    def put(case: Case, var: Dict[str, Any]) -> None:
        nonlocal k
        steps[seeds[k % len(seeds)]].append(Step(case, dict(var, rseed=k)))
        k += 1

    for c in ok_enum:
        kinds = PREV_KINDS if c.model == "multi" else ["crlf", "samelen", "symlink", "same", "cr"]
        for j, kind in enumerate(kinds):
            put(c, {"prepop": "prev:" + kind, "outloc": (j % 3 == 2)})
    for j, c in enumerate(extra_ok):  # other models (thorough: all fixtures): a rotating choice of three histories
        for i in range(3):
            put(c, {"prepop": "prev:" + PREV_KINDS[1 + (3 * j + i) % (len(PREV_KINDS) - 1)]})
    listings = ["sorted", "reversed", "shuffle:1", "shuffle:2"] + (["shuffle:3", "shuffle:4", "shuffle:5"] if thorough else [])
    for c in tree_cases:
        for lst in listings:
            put(c, {"listing": lst})
        for order in ("sorted", "reversed", "shuffled"):
            put(c, {"snipcopy": "shm:" + order})
        put(c, {"snipcopy": "reversed", "listing": "reversed", "outloc": True})
        put(c, {"snipcopy": "shm:shuffled", "listing": "shuffle:7"})
    for hs in seeds:
        for c in schema_cases + bad_cases:
            steps[hs].append(Step(c, {"rseed": 0}))
    # (d) the degenerate collections plainly, each in ``n`` of the processes (with the reference: n + 1 hash seeds)
    for i, (c, n) in enumerate(plain):
        for j in range(min(n, len(seeds))):
            steps[seeds[(i + j) % len(seeds)]].append(Step(c, {"rseed": 0}))
    return [Batch(f"enum-seed{hs}", hs, st) for hs, st in steps.items()]


REFUSED_SEEDS = ["3", "5"]


def plan_refused(refused: List[Case], thorough: bool) -> List[Batch]:
    """Seed-independent: every refused meta-model plainly in a further process with another hash seed (two processes, to
    use the cores), and - where several offenders make an *order* observable, and cheaply - in a third one; thorough: all of
    them in four further processes.  With the reference process: >= 2 resp. >= 3 (thorough 5) processes and hash seeds."""
    seeds = REFUSED_SEEDS + (["4", "6"] if thorough else [])
    out: List[Batch] = []
    n_batch = 0
    for n, hs in enumerate(seeds):
        todo = []
        for c in refused:
            if thorough or n == 0:
                todo.append(c)
            elif c.model.startswith(("unexpected:", "refused_", "genrefused_")):
                todo.append(c)
            elif c.model.startswith("illtyped_ctx["):
                n_batch += 1
                if n_batch % 3 == 0:
                    todo.append(c)
        for half in (0, 1):
            part = todo[half::2] if len(todo) > 150 else (todo if half == 0 else [])
            if part:
                out.append(Batch(f"refused-seed{hs}-{half}", hs, [Step(c, {"rseed": 0}) for c in part]))
    return out


def oracle(ctx: Ctx) -> None:
    thorough = ctx.tier == "thorough"
    runner = Runner(ctx)
    recorded = [c for c in corpus(ID) if "case" in c and "variation" in c]
    if thorough:
        fixt = fixture_cases(ctx, None, with_v3=True)
    else:
        names = small_models()
        chosen = ["list_of_classes"] if "list_of_classes" in names else names[:1]
        rest = [n for n in names if n not in chosen]
        if rest:
            chosen.append(ctx.rng.choice(rest))
        fixt = fixture_cases(ctx, chosen)
    sets = sets_cases(ctx)
    rand = random_cases(ctx, ctx.n(2, 10))
    trees = bad_tree_cases()
    ok_cases = multi_cases() + sets + fixt + rand
    bad_cases = failing_cases(ctx) + trees
    new = NewFamilies()
    new.degenerate = degenerate_cases(thorough)
    new.degenerate_random, refused_random = random_degenerate_cases(ctx, ctx.n(1, 4))
    new.refused = refused_cases(ctx, thorough)
    new.refused_random = refused_random + random_refused_cases(ctx, ctx.n(45, 400))
    cases = ok_cases + bad_cases + new.all()
    by_id = {c.id: c for c in cases}
    for r in recorded:
        c = case_from_json(r["case"])
        if c.id not in by_id:
            by_id[c.id] = c
            cases.append(c)
    for c in cases:
        c.materialize(ctx)
    try:
        _oracle_run(ctx, runner, recorded, cases, by_id, ok_cases, bad_cases, sets, rand, trees, fixt, thorough, new)
    finally:
        runner.cleanup()


class NewFamilies:
    """The case families added after the second round of seeded changes."""

    def __init__(self) -> None:
        self.degenerate: List[Case] = []  # accepted degenerate collections, every target (enumerated)
        self.degenerate_random: List[Case] = []  # seeded
        self.refused: List[Case] = []  # refused meta-models (enumerated)
        self.refused_random: List[Case] = []  # seeded

    def all(self) -> List[Case]:
        return self.degenerate + self.degenerate_random + self.refused + self.refused_random


def _oracle_run(
    ctx: Ctx,
    runner: "Runner",
    recorded: List[Dict[str, Any]],
    cases: List[Case],
    by_id: Dict[str, Case],
    ok_cases: List[Case],
    bad_cases: List[Case],
    sets: List[Case],
    rand: List[Case],
    trees: List[Case],
    fixt: List[Case],
    thorough: bool,
    new: "NewFamilies",
) -> None:
    t0 = time.time()
    runner.references(cases)
    ctx.extra_cov["reference_runs"] = len(cases)
    ctx.extra_cov["reference_wall_s"] = round(time.time() - t0, 1)
    for c in cases:
        ref = runner.refs[c.id]
        ok = ref["rc"] == 0 and ref["stdout"].startswith("Code generated to: <out>") and len(ref["tree"]) > 0
        ctx.hit("reference:generated" if ok else ("reference:crashed" if "<traceback>" in ref["stderr"] or str(ref["rc"]).startswith("crash") else "reference:rejected"))
        if c.model.startswith(("illtyped_", "c01rand_", "rolerand_", "rep_")):
            ctx.hit("refused-family:" + c.model.split("_")[0] + (":accepted" if ok else ":refused"))
        elif ok == c.failing:
            ctx.note(f"reference run of {c.id} was expected to {'fail' if c.failing else 'succeed'}: rc {ref['rc']}, stderr {ref['stderr'][:200]!r}")
            ctx.hit("reference:unexpected-outcome")
        if c.failing:
            nerr = ref["stderr"].count("\n* ") + ref["stderr"].count("\n    At line")
            ctx.hit("failing-input:>=2-errors" if nerr >= 2 else "failing-input:<2-errors")
    donors: Dict[str, str] = {}
    for c in ok_cases:
        if c.model != "multi" and c.target not in donors:
            donors[c.target] = c.id
    batches: List[Batch] = []
    # corpus first: recorded (case, variation) pairs, each in a fresh process
    for i, r in enumerate(recorded):
        c = by_id[case_from_json(r["case"]).id]
        v = dict(r["variation"])
        hs = str(v.pop("hashseed", "0"))
        v.pop("cli", None)
        batches.append(Batch(f"corpus-{i}", hs, [Step(c, v)], cli=r.get("cli")))
    n_corpus = len(batches)
    n_enum0 = len(batches)
    multi = multi_cases()
    batches += plan_enumerated(
        ok_enum=[by_id[c.id] for c in multi] + sets,
        schema_cases=[c for c in ok_cases if c.target in ("jsonschema", "xsd") and c.model in ("multi", "sets") + tuple(r.model for r in rand)],
        tree_cases=trees + [c for c in bad_cases if c.model in ("bad_keys", "missing_snippets", "two_errors")],
        bad_cases=[c for c in bad_cases if c not in trees],
        extra_ok=[c for c in fixt if c.model != "aas_core_meta.v3"] if thorough else [c for c in rand if c.target != "python"],
        thorough=thorough,
        # the constant sets with repeated members in three further hash seeds (four with the reference), the rest in two
        plain=[(c, 3 if c.model in ("deg_sets", "deg_dup_str", "deg_dup_int", "deg_dup_float", "deg_dup_bool", "deg_supersets") or thorough else 2) for c in new.degenerate],
    )
    batches += plan_refused(new.refused, thorough)
    n_enum1 = len(batches)
    batches += plan_batches(ctx, ok_cases, bad_cases + new.refused_random, donors, thorough, plain_cases=new.degenerate_random)
    ml = multi_cases()[TARGETS.index("python")]
    ctx.extra_cov["natural_listing_of_multi_python_snippets"] = natural_listing(ml.snippets)[:12]
    t1 = time.time()
    runner.run_batches(batches)
    ctx.extra_cov["variation_processes"] = len(batches)
    ctx.extra_cov["variation_runs"] = sum(len(b.steps) for b in batches)
    ctx.extra_cov["variation_wall_s"] = round(time.time() - t1, 1)
    ctx.extra_cov["slowest_processes_s"] = dict(sorted(runner.batch_wall.items(), key=lambda kv: -kv[1])[:10])
    ctx.extra_cov["steps_per_process"] = {b.name: len(b.steps) for b in batches if len(b.steps) > 1}
    reported = set()
    leaks: set = set()
    for bi, b in enumerate(batches):
        stream = "corpus" if bi < n_corpus else ("enumerated" if n_enum0 <= bi < n_enum1 else ("cli" if b.cli else "in-process"))
        for pos, st in enumerate(b.steps):
            c = st.case
            key = (c.id, b.hashseed, json.dumps({k: v for k, v in st.var.items() if k != "rseed"}, sort_keys=True, default=str), b.cli)
            ctx.count(key, nontrivial=True, stream="oracle:" + stream + (":failing-input" if c.failing else ""))
            for a in st.axes():
                v = str(st.var[a])
                ctx.hit("axis:" + a + (":" + (v if a != "listing" else v.split(":")[0]) if a in ("prepop", "listing", "snipcopy") else ""))
            ctx.hit("axis:hashseed:" + b.hashseed)
            if pos > 0:
                ctx.hit("axis:history(not first in its process)")
            if st.res.get("cache_before"):
                ctx.hit("axis:temp-dir-holds-a-model-cache")
            ctx.hit("target:" + c.target)
            ctx.traces_validated += 1
            bad = runner.judge(st, b.cli)
            if len(ctx.samples) < 6 and (pos % 17 == 0):
                ctx.sample({"case": c.id, "hashseed": b.hashseed, "variation": st.var, "cli": b.cli, "rc": st.res["rc"], "files": len(st.res["tree"]), "verdict": bad})
            leak = address_leak(runner.refs[c.id], st.res) if bad and st.obstructed is None else None
            if leak is not None:
                # a memory address in the output: differs from process to process whatever the step varies
                if leak in leaks or len(leaks) >= 20:
                    continue
                leaks.add(leak)
                ctx.fail(
                    {"case": c.to_json(), "variation": {"hashseed": b.hashseed}},
                    f"{c.id}: {leak[0]} carries a memory address which differs between two processes: {bad[0][1]}",
                    f"C22:process:{leak[0]}-address:{leak[1]}",
                )
                continue
            if bad:
                dedup = (c.id, tuple(st.axes()), b.hashseed, bad[0][0])
                if dedup in reported or len(reported) > 12:
                    continue
                reported.add(dedup)
                report(ctx, runner, st, b, bad)


# --------------------------------------------------------------------------- correspondence

ALPHA = ["A", "Z", "a", "z", "_", "0", "é", "\ud800", "😀", "b", "B"]
TAGS = ["xs:group", "xs:simpleType", "xs:complexType", "xs:element", "xs:import", "xs:annotation", "xs:attribute", "other"]


def _rand_text(rng: random.Random) -> str:
    return "".join(rng.choice(ALPHA) for _ in range(rng.choice([0, 1, 1, 2, 2, 3, 5])))


def impl_xsd_sort(elts: List[Tuple[str, Optional[str]]]) -> Any:
    import xml.etree.ElementTree as ET

    from aas_core_codegen.xsd import main as xsd_main

    root = ET.Element("xs:schema")
    for i, (tag, name) in enumerate(elts):
        attrib = {"uid": str(i)}
        if name is not None:
            attrib["name"] = name
        root.append(ET.Element(tag, attrib=attrib))
    try:
        xsd_main._sort_by_tags_and_names_in_place(root)
    except BaseException as e:  # noqa
        return crash_name(e)
    return [int(ch.attrib["uid"]) for ch in root]


def impl_enum_sorted(values: List[str]) -> Any:
    import types

    from aas_core_codegen.common import Identifier
    from aas_core_codegen.jsonschema import main as js_main

    enum = types.SimpleNamespace(name=Identifier("Some_enum"), literals=[types.SimpleNamespace(value=v) for v in values])
    try:
        d = js_main._define_for_enumeration(enumeration=enum)  # type: ignore
    except BaseException as e:  # noqa
        return crash_name(e)
    (only,) = d.values()
    return list(only["enum"])


_MM_TEMPLATE = '''\
{classes}

__version__ = "dummy"
__xml_namespace__ = "https://dummy.com"
'''


def impl_definition_keys(class_names: List[str]) -> Any:
    """Keys of ``definitions`` in the JSON schema the real generator emits for a model with
    the given concrete classes (declared in the given order), and their declaration order."""
    import aas_core_codegen.intermediate as intermediate
    from aas_core_codegen import parse
    from aas_core_codegen.jsonschema import main as js_main

    classes = "\n\n".join(f"class {n}:\n    x: int\n\n    def __init__(self, x: int) -> None:\n        self.x = x" for n in class_names)
    src = _MM_TEMPLATE.format(classes=classes)
    try:
        atok, err = parse.source_to_atok(source=src)
        if err is not None:
            return "rejected"
        st, err2 = parse.atok_to_symbol_table(atok=atok)
        if err2 is not None:
            return "rejected"
        ir, err3 = intermediate.translate(parsed_symbol_table=st, atok=atok)
        if err3 is not None:
            return "rejected"
        from aas_core_codegen.common import Stripped
        from aas_core_codegen.specific_implementations import ImplementationKey

        spec = {ImplementationKey("schema_base.json"): Stripped('{"$schema": "x"}')}
        code, errors = js_main.generate(symbol_table=ir, spec_impls=spec, fix_pattern=lambda p: p)
        if errors is not None:
            return "rejected"
        return list(json.loads(code)["definitions"].keys())
    except BaseException as e:  # noqa
        return crash_name(e)


def _enc_opt_names(names: Sequence[Optional[str]]) -> Tuple[str, str]:
    flags = "".join("1" if n is not None else "0" for n in names) or "-"
    return flags, enc_list([n if n is not None else "" for n in names])


def _xsd_inputs(ctx: Ctx) -> Iterable[Tuple[List[Tuple[str, Optional[str]]], str]]:
    for c in corpus(ID):
        if "xsd" in c:
            yield [(t, n) for t, n in c["xsd"]], "corpus"
    # enumerated: every tag class x {no name, "", "a", "B"} for up to 3 children, ties included
    small_tags = ["xs:group", "xs:simpleType", "xs:complexType", "xs:element", "xs:import"]
    small_names: List[Optional[str]] = [None, "", "a", "B"]
    singles = [(t, n) for t in small_tags for n in small_names]
    for a in singles:
        yield [a], "enumerated"
    for a in singles:
        for b in singles:
            yield [a, b], "enumerated"
    for _ in range(ctx.n(600, 20000)):
        k = ctx.rng.choice([0, 1, 2, 3, 4, 6, 9, 14])
        elts = []
        pool = [_rand_text(ctx.rng) for _ in range(max(1, k // 2))]
        for _ in range(k):
            name: Optional[str] = ctx.rng.choice(pool) if ctx.rng.random() < 0.5 else _rand_text(ctx.rng)
            if ctx.rng.random() < 0.2:
                name = None
            elts.append((ctx.rng.choice(TAGS), name))
        yield elts, "random"


def correspond(ctx: Ctx) -> None:
    ctx.extra_cov["rule"] = (
        "correspondence inputs: lists of (tag, optional name) children for the XSD sorter, lists of enumeration literal values, "
        "lists of class names for the JSON-schema definitions; distinct by value; non-trivial = at least two elements. "
        "oracle inputs: (model, target, variation) triples, distinct by value"
    )
    # ---- xsd sorter
    xs = list(_xsd_inputs(ctx))
    lines = []
    for elts, _ in xs:
        flags, names = _enc_opt_names([n for _, n in elts])
        lines.append(f"xsd {enc_list([t for t, _ in elts])} {flags} {names}")
    answers = ctx.model(lines)
    for (elts, stream), want in zip(xs, answers):
        got = impl_xsd_sort(elts)
        got_w = got if isinstance(got, str) else (",".join(str(i) for i in got) or "[]")
        ctx.count(("xsd", tuple(elts)), nontrivial=len(elts) >= 2, stream="xsd:" + stream)
        keys = [(t if t in TAGS[:4] else "misc", n or "") for t, n in elts]
        ctx.hit("xsd:ties" if len(set(keys)) < len(keys) else "xsd:distinct-keys")
        if any(n is None for _, n in elts):
            ctx.hit("xsd:unnamed-child")
        ctx.traces_validated += 1
        if got_w != want:
            ctx.disagree("xsd-sort", {"xsd": elts}, got_w, want)
            # the oracle's reading: stable, grouped in the documented order, names ascending
            for sig, what in judge_xsd(elts, got):
                ctx.fail({"xsd": elts}, what, sig)
    # ---- sorted enum values
    ev: List[Tuple[List[str], str]] = [([], "enumerated"), (["b", "a"], "enumerated"), (["a", "B", "_", "A", "ab", "a"], "enumerated"), (["\ud800", "😀", "é", "z"], "enumerated")]
    for _ in range(ctx.n(300, 10000)):
        ev.append(([_rand_text(ctx.rng) for _ in range(ctx.rng.choice([0, 1, 2, 3, 5, 8, 13]))], "random"))
    answers = ctx.model([f"sorttexts {enc_list(v)}" for v, _ in ev])
    for (vals, stream), want in zip(ev, answers):
        got = impl_enum_sorted(vals)
        got_w = got if isinstance(got, str) else enc_list(got)
        ctx.count(("enum", tuple(vals)), nontrivial=len(vals) >= 2, stream="enum:" + stream)
        ctx.traces_validated += 1
        if got_w != want:
            ctx.disagree("enum-values", {"enum_values": vals}, got_w, want)
            if not isinstance(got, str) and got != sorted(vals):
                ctx.fail({"enum_values": vals}, f"enum values emitted as {got!r}, not in ascending order: the order depends on the declaration order", "C22:enum-values-not-sorted")
    # ---- definitions of a generated JSON schema
    pool = ["Abc", "Abd", "B", "Zeta", "Ab", "Something", "Some_thing", "Item_2", "Item_10", "Xyz"]
    dv: List[List[str]] = [["B", "Abc"], ["Zeta", "Ab", "Abc", "Something"]]
    for _ in range(ctx.n(12, 150)):
        k = ctx.rng.choice([1, 2, 3, 5, 7])
        dv.append(ctx.rng.sample(pool, min(k, len(pool))))
    for names in dv:
        keys = impl_definition_keys(names)
        ctx.count(("definitions", tuple(names)), nontrivial=len(names) >= 2, stream="definitions")
        ctx.traces_validated += 1
        if isinstance(keys, str):
            ctx.hit("definitions:" + keys)
            continue
        # the model is given the emitted keys in *declaration-dependent* order: rotate them
        scr = list(keys)
        ctx.rng.shuffle(scr)
        want = ctx.model([f"emit {enc_list(scr)}"])[0].split(" ")[0]
        if enc_list(keys) != want:
            ctx.disagree("definitions", {"classes": names}, keys, want)
            # property-level reading: the same classes declared in reverse order must give the same schema keys
            other = impl_definition_keys(list(reversed(names)))
            if other != keys:
                ctx.fail({"classes": names}, f"definitions keys {keys} vs {other} for the reversed declaration order", "C22:definitions-order-follows-declaration")
    # ---- the writing statement of every back end on a used path vs. the model's writeFile
    correspond_write_sites(ctx)
    # ---- schemas of the fixtures are sorted as the model predicts
    for t, fname in (("jsonschema", "schema.json"), ("xsd", "schema.xsd")):
        base = REPO / "dev/test_data/main" / t / "expected"
        for d in sorted(base.iterdir()) if base.is_dir() else []:
            p = d / "expected_output" / fname
            if not p.exists():
                continue
            if t == "jsonschema":
                keys = list(json.loads(p.read_text(encoding="utf-8")).get("definitions", {}).keys())
                want = ctx.model([f"sorttexts {enc_list(keys)}"])[0]
                ctx.count(("golden-json", d.name), stream="golden-schema")
                if enc_list(keys) != want:
                    ctx.disagree("golden-schema.json", {"file": str(p.relative_to(REPO))}, keys, want)
            else:
                import xml.etree.ElementTree as ET

                root = ET.parse(p).getroot()
                elts = [(re.sub(r"^\{http://www.w3.org/2001/XMLSchema\}", "xs:", ch.tag), ch.attrib.get("name")) for ch in root]
                flags, names = _enc_opt_names([n for _, n in elts])
                want = ctx.model([f"xsd {enc_list([x for x, _ in elts])} {flags} {names}"])[0]
                ctx.count(("golden-xsd", d.name), stream="golden-schema")
                ident = ",".join(str(i) for i in range(len(elts))) or "[]"
                if want != ident:
                    ctx.disagree("golden-schema.xsd", {"file": str(p.relative_to(REPO))}, ident, want)


def _b2t(data: bytes) -> str:
    """bytes as a text of code points < 256 (the model's files are lists of numbers)"""
    return data.decode("latin-1")


def run_write_site(site: Dict[str, Any], directory: pathlib.Path, before: Optional[bytes], text: str) -> Any:
    """Evaluate the writing call of a back end (compiled from the source under test) on ``directory/owned.txt``
    holding ``before``; returns (bytes of the owned file, bytes of the foreign file) or a crash name."""
    import importlib
    import types

    node: ast.Call = site["node"]
    recv = site["recv"]
    if recv is None or not node.args:
        return "not-evaluable"
    shutil.rmtree(directory, ignore_errors=True)
    directory.mkdir(parents=True)
    owned, foreign = directory / "owned.txt", directory / "foreign.txt"
    foreign.write_bytes(b"foreign\r\n")
    if before is not None:
        owned.write_bytes(before)
    env: Dict[str, Any] = {recv: owned}
    arg0 = node.args[0]
    if isinstance(arg0, ast.Name):
        env[arg0.id] = text
    elif isinstance(arg0, ast.Attribute) and isinstance(arg0.value, ast.Name):
        env[arg0.value.id] = types.SimpleNamespace(**{arg0.attr: text})
    else:
        return "not-evaluable"
    for n in ast.walk(node):
        if isinstance(n, ast.Name) and n.id not in env and n.id not in dir(__import__("builtins")):
            try:
                env[n.id] = importlib.import_module(f"aas_core_codegen.{n.id}")
            except Exception:  # noqa
                return "not-evaluable"
    try:
        eval(compile(ast.fix_missing_locations(ast.Expression(body=node)), f"<write site of {site['target']}>", "eval"), env)
    except BaseException as e:  # noqa
        return crash_name(e)
    return (owned.read_bytes() if owned.is_file() else None, foreign.read_bytes() if foreign.is_file() else None)


def correspond_write_sites(ctx: Ctx) -> None:
    try:
        sites = scan_write_sites(REPO)
    except ExtractError:
        return  # reported by the extraction stage
    texts = ["a\nb\n", "", "x\r\ny", "ä€😀\n\tz \n"]
    work = ctx.scratch() / "write_sites"
    rows = []
    for site in sites:
        for text in texts:
            new = text.encode("utf-8")
            for label in ["absent"] + [k for k in PREV_KINDS if k not in ("perm", "symlink")] + ["other"]:
                before = None if label == "absent" else (b"something else entirely\n" if label == "other" else _alter(label, new))
                rows.append((site, text, label, before, new))
    lines = []
    for site, text, label, before, new in rows:
        hp = ["owned.txt", "foreign.txt"] if before is not None else ["foreign.txt"]
        hc = ([_b2t(before)] if before is not None else []) + [_b2t(b"foreign\r\n")]
        lines.append(f"outdir {enc_list(hp)} {enc_list(hc)} {enc_list(['owned.txt'])} {enc_list([_b2t(new)])} {enc_list(['owned.txt', 'foreign.txt'])}")
    answers = ctx.model(lines)
    for (site, text, label, before, new), want in zip(rows, answers):
        got = run_write_site(site, work, before, text)
        ctx.count(("write-site", site["target"], text, label), nontrivial=before is not None, stream="write-site")
        ctx.hit("write-site:history:" + label)
        ctx.traces_validated += 1
        if isinstance(got, str):
            got_w = got
        else:
            got_w = enc_list([("1" + _b2t(x)) if x is not None else "0" for x in got])
        if got_w != want:
            inp = {"write_site": site["target"], "text": text, "before": None if before is None else before.hex()}
            ctx.disagree("write-site", inp, got_w, want)
            # the statement's direct reading: afterwards the owned file holds exactly the new bytes, the foreign file what it held
            if got != (new, b"foreign\r\n"):
                ctx.fail(inp, f"the writing statement of {site['target']}/main.py:{site['function']} on a file holding {before!r} leaves {got!r} instead of {new!r}: the output depends on the pre-existing file", f"C22:write-site:{site['target']}")


def judge_xsd(elts: List[Tuple[str, Optional[str]]], got: Any) -> List[Tuple[str, str]]:
    """Direct reading of "sorted by tag and name": a permutation, grouped in the documented tag
    order, names ascending inside a group, ties in document order."""
    if isinstance(got, str):
        return [("C22:xsd-sort:" + got, f"_sort_by_tags_and_names_in_place raised {got}")]
    if sorted(got) != list(range(len(elts))):
        return [("C22:xsd-sort:not-a-permutation", f"children {got}")]
    order = {"xs:group": 0, "xs:simpleType": 1, "xs:complexType": 2, "xs:element": 3}
    ks = [(order.get(elts[i][0], 4), elts[i][1] or "", i) for i in got]
    if ks != sorted(ks):
        return [("C22:xsd-sort:not-sorted", f"children come out as {[k[:2] for k in ks]}: the result depends on the document order beyond ties")]
    return []


# --------------------------------------------------------------------------- replay


def replay(ctx: Ctx, data: Dict[str, Any]) -> Any:
    inp = data["failure"]["input"] if "failure" in data else data
    if "xsd" in inp:
        elts = [(t, n) for t, n in inp["xsd"]]
        got = impl_xsd_sort(elts)
        res: Dict[str, Any] = {"impl": got, "oracle": judge_xsd(elts, got)}
        if ctx.driver_ok:
            flags, names = _enc_opt_names([n for _, n in elts])
            res["model"] = ctx.model([f"xsd {enc_list([t for t, _ in elts])} {flags} {names}"])[0]
        return res
    if "enum_values" in inp:
        got = impl_enum_sorted(inp["enum_values"])
        res = {"impl": got, "oracle": "sorted" if got == sorted(inp["enum_values"]) else "NOT sorted"}
        if ctx.driver_ok:
            res["model"] = dec_list(ctx.model([f"sorttexts {enc_list(inp['enum_values'])}"])[0])
        return res
    if "write_site" in inp:
        before = None if inp["before"] is None else bytes.fromhex(inp["before"])
        new = inp["text"].encode("utf-8")
        out = {}
        for site in scan_write_sites(REPO):
            if site["target"] == inp["write_site"]:
                got = run_write_site(site, ctx.scratch() / "write_sites", before, inp["text"])
                out[site["function"]] = {"impl": repr(got), "oracle": "ok" if got == (new, b"foreign\r\n") else "DEPENDS ON THE PRE-EXISTING FILE"}
        return out
    if "classes" in inp:
        a, b = impl_definition_keys(inp["classes"]), impl_definition_keys(list(reversed(inp["classes"])))
        return {"impl": a, "impl_reversed_declaration": b, "oracle": "same" if a == b else "DIFFERENT"}
    case = case_from_json(inp["case"]).materialize(ctx)
    var = dict(inp["variation"])
    hs = str(var.pop("hashseed", "0"))
    cli = var.pop("cli", None) or inp.get("cli")
    runner = Runner(ctx)
    try:
        runner.references([case])
        st = Step(case, var)
        runner.run_batches([Batch("replay", hs, [st], cli=cli)])
    finally:
        runner.cleanup()
    ref = runner.refs[case.id]
    return {
        "reference": {"rc": ref["rc"], "stdout": ref["stdout"], "stderr": ref["stderr"], "files": len(ref["tree"])},
        "variation": {"rc": st.res["rc"], "stdout": st.res["stdout"], "stderr": st.res["stderr"], "files": len(st.res["tree"])},
        "oracle": runner.judge(st, cli),
    }
