"""
C04 — Reported error locations point at the offending construct.

* Gen:      newline character, the f-string template of the location prefix, the indentation
            of nested errors (``Gen/Lineno.lean``), regenerated from ``common.LinenoColumner``.
* correspond: ``LinenoColumner.positions`` / ``error_message`` against ``Model.Lineno`` on
            (a) arbitrary texts through a stub ``atok`` (table, lookups in and out of range,
            nested errors, every ``str.isspace``/``splitlines`` character in messages) and
            (b) real ``asttokens`` objects of generated valid modules (the start offsets come from
            the real, un-modelled ``get_text_range``).
* oracle:   written from the property text, independent of the Lean model:
            (1) table: entry ``i`` is ``(1 + #newlines before i, 1 + #characters since the last
                newline before i)``;
            (2) modules: for every ``ast`` node with a position ``error_message(Error(node, "m"))``
                names ``(node.lineno, character column + 1)`` — or column 1 of that line for a
                statement, or the position of the first ``@`` of a decorated definition;
            (3) pipeline: every ``At line L and column C`` written by ``smoke.execute`` for the
                recorded rejected meta-models and layout variants of them is the start of a token
                of line ``L`` (or column 1) and moves exactly with the inserted lines;
            (4) whole reports (error TREES rendered by ``error_message`` directly, by
                ``run.load_model`` and by ``smoke.execute``): every ``At line L and column C``
                prefix belongs to an error that HAS a node and names that node's position; an
                error without a node carries no location prefix (``judge_report``);
            (5) the GENERATOR stage (``harness/props/c04_gen.py``): accepted meta-models that a generator rejects
                (``intermediate.errors_if_*`` called directly and ``main.execute`` for the targets) with several offending
                constructs in sequence, with and without a node of their own: a located error is located at / inside a
                construct its message names, and the errors of the three helpers are assignable one-to-one to the
                offenders computed from the text.
"""
from __future__ import annotations

import ast
import io
import itertools
import pathlib
import re
import tokenize
from typing import Any, Dict, Iterator, List, Optional, Sequence, Set, Tuple

from harness import extract
from harness.core import REPO, Ctx, corpus, crash_name, dec_text, enc_text
from harness.extract import ExtractError
from harness.props import c04_gen
from harness.pygen import gen_module

ID = "C04"
GEN = ["Lineno"]

LOC_RE = re.compile(r"At line (-?\d+) and column (-?\d+): ")


# --------------------------------------------------------------------------- Gen


def gen_Lineno(repo: pathlib.Path) -> str:
    mod = extract._parse(repo, "aas_core_codegen/common.py")
    cls = extract._class(mod, "LinenoColumner")
    init = extract._func(cls, "__init__")
    errm = extract._func(cls, "error_message")

    # the newline: the one-character string constant a loop variable is compared with — in __init__ itself or in a
    # module-level helper / a method of the class which __init__ calls (transitively)
    newlines = set()
    loops = [n for scope in extract._reachable_functions(mod, init, cls) for n in ast.walk(scope)]
    for loop in loops:
        if not isinstance(loop, ast.For) or not isinstance(loop.target, ast.Name):
            continue
        for node in ast.walk(loop):
            if isinstance(node, ast.Compare) and len(node.ops) == 1 and isinstance(node.ops[0], (ast.Eq, ast.NotEq)):
                sides = [node.left, node.comparators[0]]
                if any(isinstance(s, ast.Name) and s.id == loop.target.id for s in sides):
                    for s in sides:
                        if isinstance(s, ast.Constant) and isinstance(s.value, str) and len(s.value) == 1:
                            newlines.add(s.value)
    if len(newlines) != 1:
        raise ExtractError(f"LinenoColumner.__init__: expected one character compared in the loop, found {sorted(newlines)}")
    newline = ord(next(iter(newlines)))

    # the prefix template: an f-string over the two names unpacked from `….positions[...]`
    names: Optional[Tuple[str, str]] = None
    for node in ast.walk(errm):
        if (
            isinstance(node, ast.Assign)
            and len(node.targets) == 1
            and isinstance(node.targets[0], ast.Tuple)
            and len(node.targets[0].elts) == 2
            and all(isinstance(e, ast.Name) for e in node.targets[0].elts)
            and isinstance(node.value, ast.Subscript)
            and isinstance(node.value.value, ast.Attribute)
            and node.value.value.attr == "positions"
        ):
            names = (node.targets[0].elts[0].id, node.targets[0].elts[1].id)  # type: ignore
    if names is None:
        raise ExtractError("error_message: `<line>, <column> = self.positions[...]` not found")
    templates = []
    for node in ast.walk(errm):
        if isinstance(node, ast.JoinedStr):
            used = [v.value.id for v in node.values if isinstance(v, ast.FormattedValue) and isinstance(v.value, ast.Name)]
            if any(u in names for u in used):
                pieces = []
                for v in node.values:
                    if isinstance(v, ast.Constant) and isinstance(v.value, str):
                        pieces.append(".lit " + extract.lean_text(v.value))
                    elif (
                        isinstance(v, ast.FormattedValue)
                        and isinstance(v.value, ast.Name)
                        and v.value.id in names
                        and v.conversion == -1
                        and v.format_spec is None
                    ):
                        pieces.append(".line" if v.value.id == names[0] else ".col")
                    else:
                        raise ExtractError("error_message: prefix f-string has a piece that is neither text nor {line}/{column}")
                templates.append(pieces)
    if len(templates) != 1:
        raise ExtractError(f"error_message: expected one prefix f-string, found {len(templates)}")

    indents = []
    for node in ast.walk(errm):
        if (
            isinstance(node, ast.Call)
            and isinstance(node.func, ast.Attribute)
            and node.func.attr == "indent"
            and len(node.args) == 2
            and not node.keywords
        ):
            a = node.args[1]
            if not (isinstance(a, ast.Constant) and isinstance(a.value, str)):
                raise ExtractError("error_message: textwrap.indent prefix is not a string constant")
            indents.append(a.value)
    if len(indents) != 1:
        raise ExtractError(f"error_message: expected one textwrap.indent call, found {len(indents)}")

    return (
        "import AasVerif.Model.LinenoTpl\n"
        + "/-! GENERATED by harness/props/c04.py from aas_core_codegen/common.py — do not edit. -/\n"
        + "namespace AasVerif.Gen.Lineno\n"
        + "open AasVerif.Lineno\n"
        + f"def newline : Nat := {newline}\n"
        + f"def prefixTemplate : List Piece := [{', '.join(templates[0])}]\n"
        + f"def indentPrefix : Text := {extract.lean_text(indents[0])}\n"
        + "end AasVerif.Gen.Lineno\n"
    )


# --------------------------------------------------------------------------- implementation access


class StubAtok:
    """Stand-in for ``asttokens.ASTTokens`` on arbitrary text: a node *is* its start offset."""

    def __init__(self, text: str) -> None:
        self.text = text
        self.tree = None

    def get_text(self, node: Any) -> str:  # the whole text (what get_text(tree) is for ordinary modules)
        return self.text

    def get_text_range(self, node: Any) -> Tuple[int, int]:
        return (node, node)


# An error tree on the harness side: (start|None, message, underlying: None | list)
Tree = Tuple[Optional[int], str, Optional[List[Any]]]


def tree_wire(t: Tree) -> str:
    start, msg, und = t
    und = und or []
    return " ".join([f"E {'n' if start is None else start} {enc_text(msg)} {len(und)}"] + [tree_wire(u) for u in und])


def impl_table(text: str) -> Any:
    from aas_core_codegen.common import LinenoColumner

    try:
        return list(LinenoColumner(StubAtok(text)).positions)  # type: ignore
    except BaseException as e:  # noqa
        return crash_name(e)


def _mk_error(t: Tree, node_of: Any) -> Any:
    from aas_core_codegen.common import Error

    start, msg, und = t
    return Error(None if start is None else node_of(start), msg, None if und is None else [_mk_error(u, node_of) for u in und])


def impl_errmsg(atok: Any, t: Tree, node_of: Any = lambda s: s) -> str:
    from aas_core_codegen.common import LinenoColumner

    try:
        return "ok " + enc_text(LinenoColumner(atok).error_message(_mk_error(t, node_of)))
    except BaseException as e:  # noqa
        return crash_name(e)


# --------------------------------------------------------------------------- oracle (1): the table


def spec_pos(text: str, i: int) -> Tuple[int, int]:
    """1-based line and column of offset ``i``: written from the property text."""
    return (1 + text.count("\n", 0, i), i - (text.rfind("\n", 0, i) + 1) + 1)


def judge_table(text: str, table: Any) -> List[Tuple[str, str]]:
    if isinstance(table, str):
        return [("C04:table:" + table, f"LinenoColumner() raised {table}")]
    if len(table) != len(text):
        return [("C04:table-length", f"{len(table)} positions for {len(text)} characters")]
    for i, got in enumerate(table):
        exp = spec_pos(text, i)
        if tuple(got) != exp:
            if text[i] == "\n":
                return [("C04:position-of-newline-character", f"the newline at offset {i} is placed at {tuple(got)}, expected {exp}")]
            if got[0] != exp[0]:
                return [("C04:line-number", f"offset {i} is placed at {tuple(got)}, expected {exp}")]
            if exp[0] > 1 and got[1] == exp[1] + 1:
                return [("C04:column-shift-after-first-line", f"offset {i} ({text[i]!r}) is placed at {tuple(got)}, expected {exp}: columns after line 1 are shifted by one")]
            return [("C04:column", f"offset {i} is placed at {tuple(got)}, expected {exp}")]
    return []


# --------------------------------------------------------------------------- oracle (2): real modules


def char_col(lines: Sequence[str], lineno: int, col_offset: int) -> int:
    """``col_offset`` (UTF-8 bytes) -> characters."""
    return len(lines[lineno - 1].encode("utf-8")[:col_offset].decode("utf-8"))


def allowed_locations(src: str, lines: Sequence[str], node: ast.AST) -> Set[Tuple[int, int]]:
    ln = node.lineno  # type: ignore
    exp = (ln, char_col(lines, ln, node.col_offset) + 1)  # type: ignore
    out = {exp}
    if isinstance(node, (ast.stmt, ast.ExceptHandler)):
        out.add((ln, 1))  # "or of the first character of its line"
    decos = getattr(node, "decorator_list", None)
    if decos:
        d = decos[0]
        # the construct starts at the `@` before its first decorator expression
        row, col = d.lineno, char_col(lines, d.lineno, d.col_offset)
        line = lines[row - 1]
        j = col - 1
        while j >= 0 and line[j] in " \t\f":
            j -= 1
        if j >= 0 and line[j] == "@":
            out.add((row, j + 1))
            out.add((row, 1))
    return out


def inside_fstring(tree: ast.AST) -> Set[int]:
    ids: Set[int] = set()
    for n in ast.walk(tree):
        if isinstance(n, ast.JoinedStr):
            for d in ast.walk(n):
                if d is not n:
                    ids.add(id(d))
    return ids


def parse_loc(msg: str) -> Optional[Tuple[int, int]]:
    m = LOC_RE.match(msg)
    return (int(m.group(1)), int(m.group(2))) if m else None


def judge_module(src: str, atok: Any) -> Iterator[Tuple[str, str, Dict[str, Any]]]:
    """For every positioned node: does error_message name the node's position?"""
    from aas_core_codegen.common import Error, LinenoColumner

    lines = src.split("\n")
    try:
        lc = LinenoColumner(atok)
    except BaseException as e:  # noqa
        yield ("C04:table:" + crash_name(e), f"LinenoColumner() raised {crash_name(e)}", {})
        return
    fs = inside_fstring(atok.tree)
    seen = set()
    for k, node in enumerate(ast.walk(atok.tree)):
        if not (hasattr(node, "lineno") and hasattr(node, "col_offset")):
            continue
        allowed = allowed_locations(src, lines, node)
        try:
            msg = lc.error_message(Error(node, "m"))
        except BaseException as e:  # noqa
            msg = crash_name(e)
        got = parse_loc(msg) if msg.endswith(": m") else None
        if got in allowed:
            continue
        tn = type(node).__name__
        if msg.startswith("crash:"):
            sig = f"C04:error_message:{msg}"
        elif id(node) in fs and got == (1, 1):
            sig = "C04:node-location:inside-f-string"
        elif got is not None and got[0] > 1 and (got[0], got[1] - 1) in allowed:
            sig = "C04:column-shift-after-first-line"
        else:
            sig = "C04:node-location:" + tn
        if sig in seen:
            continue
        seen.add(sig)
        yield (
            sig,
            f"{tn} node at line {node.lineno}, byte column {node.col_offset} is reported as {msg!r}; expected one of {sorted(allowed)}",  # type: ignore
            {"node_index": k, "node_type": tn},
        )


def start_of(atok: Any, src: str, node: ast.AST) -> int:
    """The start offset error_message looks up (the un-modelled glue): the real asttokens range for
    marked nodes; for nodes asttokens leaves unmarked (inside f-strings) the ``ast`` position."""
    if hasattr(node, "first_token"):
        return atok.get_text_range(node)[0]
    lines = src.split("\n")
    ln = node.lineno  # type: ignore
    return sum(len(x) + 1 for x in lines[: ln - 1]) + char_col(lines, ln, node.col_offset)  # type: ignore


def mk_atok(src: str) -> Any:
    import asttokens

    return asttokens.ASTTokens(src, parse=True)


# --------------------------------------------------------------------------- oracle (3): pipeline

VARIANTS: List[Tuple[str, str, bool]] = [
    # name, text put in front of the recorded meta-model, CR LF line ends on disk
    ("as-recorded", "", False),
    ("blank-line-first", "\n", False),
    ("comment-lines-first", "# é ü 😀\n\n# c\n", False),
    ("crlf", "", True),
    ("crlf-comment-first", "# é\n", True),
    ("indented-comment-first", " # the file starts with a space\n", False),
    ("form-feed-first", "\f\n", False),
]


def token_starts(src: str) -> Set[Tuple[int, int]]:
    out: Set[Tuple[int, int]] = set()
    skip = {tokenize.NL, tokenize.NEWLINE, tokenize.INDENT, tokenize.DEDENT, tokenize.ENDMARKER, tokenize.COMMENT}
    for tok in tokenize.generate_tokens(io.StringIO(src).readline):
        if tok.type not in skip:
            out.add((tok.start[0], tok.start[1] + 1))
    for ln in range(1, src.count("\n") + 2):
        out.add((ln, 1))
    return out


def smoke_cases() -> List[pathlib.Path]:
    return sorted(p.parent for p in (REPO / "dev" / "test_data" / "smoke").rglob("meta_model.py"))


# Rejected meta-models of the harness itself (next to the recorded ones of dev/test_data/smoke).
EXTRA_PIPELINE_CASES: Dict[str, str] = {
    # an error attached to a node *inside* an f-string, after non-ASCII text on the same line
    "extra:f-string-conversion": '''"""Doc."""
from re import match


@verification
def match_something(text: str) -> bool:
    """Check é."""
    prefix = "ü"
    pattern = f"é^{prefix!r}$"
    return match(pattern, text) is not None


class Something:
    """S."""

    some_prop: str

    def __init__(self, some_prop: str) -> None:
        self.some_prop = some_prop


__version__ = "dummy"
__xml_namespace__ = "https://dummy.com"
''',
}


def pipeline_cases() -> List[Tuple[str, str]]:
    """(case id, source); the id of a recorded case is its directory relative to the repo."""
    out = [(str(c.relative_to(REPO)), (c / "meta_model.py").read_text(encoding="utf-8")) for c in smoke_cases()]
    return out + sorted(EXTRA_PIPELINE_CASES.items())


def run_smoke(ctx: Ctx, src: str, crlf: bool) -> Tuple[Any, str]:
    import aas_core_codegen.smoke.main as smoke_main

    d = ctx.scratch()
    p = d / "meta_model.py"
    data = src.replace("\n", "\r\n") if crlf else src
    p.write_bytes(data.encode("utf-8"))
    err = io.StringIO()
    try:
        rc: Any = smoke_main.execute(model_path=p, stderr=err)
    except BaseException as e:  # noqa
        rc = crash_name(e)
    return rc, err.getvalue().replace(str(p), "<meta_model.py>")


def judge_pipeline(ctx: Ctx, case_id: str, base: str, variant: Tuple[str, str, bool]) -> List[Tuple[str, str]]:
    name, front, crlf = variant
    case = pathlib.PurePosixPath(case_id)
    src = front + base
    rc, stderr = run_smoke(ctx, src, crlf)
    ctx.hit(f"pipeline:{name}")
    if isinstance(rc, str):
        return [(f"C04:pipeline:{rc}", f"smoke.execute raised {rc} on {case.name} ({name})")]
    locs = [(int(a), int(b)) for a, b in LOC_RE.findall(stderr)]
    ctx.hit("pipeline:locations", len(locs))
    starts = token_starts(src)
    bad: List[Tuple[str, str]] = []
    for loc in locs:
        if loc not in starts:
            if loc[0] > 1 and (loc[0], loc[1] - 1) in starts:
                bad.append(("C04:column-shift-after-first-line", f"{case.name} ({name}): 'At line {loc[0]} and column {loc[1]}' is one column after the start of a construct"))
            else:
                bad.append((f"C04:pipeline-location:{name}", f"{case.name} ({name}): 'At line {loc[0]} and column {loc[1]}' is not the start of a construct of that line"))
            break
    if not bad and front:
        rc0, stderr0 = run_smoke(ctx, base, False)
        shift = front.count("\n")
        base_locs = [(int(a), int(b)) for a, b in LOC_RE.findall(stderr0)]
        locs0 = [(a + shift, b) for a, b in base_locs]
        # A location (1, 1) of the recorded file is the module itself (or a construct on its first
        # line): the module still starts at the top (or at its first statement) of the longer file,
        # so only the token-start rule above applies to it.
        same = len(locs) == len(locs0) and all(
            got == want or (orig == (1, 1) and got[1] == 1 and got[0] <= want[0] + 1)
            for got, want, orig in zip(locs, locs0, base_locs)
        )
        if not same:
            bad.append((f"C04:pipeline-location:{name}", f"{case.name}: with {front!r} in front the locations are {locs[:6]}, expected {locs0[:6]} (those of the recorded file moved down by {shift} lines)"))
    return bad


# --------------------------------------------------------------------------- oracle (4): whole reports

# One error of a report in depth-first pre-order (= the order of rendering):
# (depth, allowed locations or None for an error WITHOUT a node, message)
Flat = Tuple[int, Optional[Set[Tuple[int, int]]], str]

_LINE_BREAKS = "\n\r\v\f\x1c\x1d\x1e\x85\u2028\u2029"


def first_line(msg: str) -> str:
    for k, ch in enumerate(msg):
        if ch in _LINE_BREAKS:
            return msg[:k]
    return msg


def single_line(msg: str) -> bool:
    return first_line(msg) == msg and msg.strip() != ""


def judge_report(out: str, errs: Sequence[Flat], attribute: bool) -> List[Tuple[str, str]]:
    """
    The statement of the property on a whole report, independent of the Lean model.

    ``errs`` are the errors in the order they are rendered.  (a) ``attribute``: every error is found
    in the report (first line of its message, searched from the end of the previous one); what
    stands between the start of that line and the message must be indentation only for an error
    without a node, and indentation + the prefix naming one of the allowed positions for an error
    with a node.  (b) always: the SEQUENCE of all ``At line L and column C: `` in the report is the
    sequence of the located errors (plus what the messages themselves contain) — no prefix without
    a node, none missing, none moved to another error.
    """
    if attribute:
        cursor = 0
        for k, (depth, allowed, msg) in enumerate(errs):
            m0 = first_line(msg)
            rx = re.compile(r"^[ ]*(?:\* )?[ ]*(At line (-?\d+) and column (-?\d+): )?" + re.escape(m0), re.M)
            m = rx.search(out, cursor)
            if m is None:
                return [("C04:report:message-not-found", f"error #{k} ({m0[:40]!r}) is not rendered at the start of a line after error #{k - 1}")]
            cursor = m.end()
            if allowed is None:
                if m.group(1) is not None:
                    return [("C04:report:unlocated-error-has-prefix",
                             f"error #{k} at depth {depth} has NO node but is rendered as {m.group(0).strip()[:80]!r}: the prefix belongs to another error")]
                continue
            if m.group(1) is None:
                return [("C04:report:located-error-without-prefix",
                         f"error #{k} at depth {depth} has a node at {sorted(allowed)[:3]} but is rendered without a location: {m.group(0).strip()[:80]!r}")]
            got = (int(m.group(2)), int(m.group(3)))
            if got not in allowed:
                if got[0] > 1 and (got[0], got[1] - 1) in allowed:
                    return [("C04:column-shift-after-first-line", f"error #{k}: reported at {got}, its node is at {sorted(allowed)[:3]}")]
                return [("C04:report:prefix-names-other-position",
                         f"error #{k} at depth {depth} ({m0[:40]!r}) is reported at {got}, its node is at {sorted(allowed)[:3]}")]
    want: List[Set[Tuple[int, int]]] = []
    for _, allowed, msg in errs:
        if allowed is not None:
            want.append(allowed)
        for a, b in LOC_RE.findall(msg):
            want.append({(int(a), int(b))})
    got_all = [(int(a), int(b)) for a, b in LOC_RE.findall(out)]
    if len(got_all) > len(want):
        return [("C04:report:more-prefixes-than-located-errors", f"{len(got_all)} location prefixes for {len(want)} located errors: {got_all[:8]}")]
    if len(got_all) < len(want):
        return [("C04:report:fewer-prefixes-than-located-errors", f"{len(got_all)} location prefixes for {len(want)} located errors: {got_all[:8]}")]
    for k, (g, w) in enumerate(zip(got_all, want)):
        if g not in w:
            return [("C04:report:prefix-sequence", f"the {k}-th location of the report is {g}, the {k}-th located error is at {sorted(w)[:3]}")]
    return []


def flatten_tree(text: str, tr: Tree, depth: int = 0) -> List[Flat]:
    """Stub trees: a node IS its start offset; the expected position is `spec_pos`."""
    start, msg, und = tr
    out: List[Flat] = [(depth, None if start is None else {spec_pos(text, start)}, msg)]
    for u in und or []:
        out += flatten_tree(text, u, depth + 1)
    return out


def node_locations(src: str, lines: Sequence[str], tree: ast.AST, node: Any) -> Set[Tuple[int, int]]:
    """Allowed positions of a REAL node, from `ast` alone (the module: its top, or its first statement)."""
    if hasattr(node, "lineno") and hasattr(node, "col_offset"):
        return allowed_locations(src, lines, node)
    out = {(1, 1)}
    body = getattr(tree, "body", [])
    if body:
        out |= allowed_locations(src, lines, body[0])
        out.add((body[0].lineno, 1))
    return out


def flatten_error(src: str, lines: Sequence[str], tree: ast.AST, e: Any, depth: int = 0) -> List[Flat]:
    out: List[Flat] = [(depth, None if e.node is None else node_locations(src, lines, tree, e.node), str(e.message))]
    for u in e.underlying or []:
        out += flatten_error(src, lines, tree, u, depth + 1)
    return out


def error_wire_tree(atok: Any, src: str, e: Any) -> Tree:
    return (None if e.node is None else start_of(atok, src, e.node), str(e.message), None if e.underlying is None else [error_wire_tree(atok, src, u) for u in e.underlying])


# ---- enumerated error trees: every shape up to depth 3 and width 3, every node with / without a node

ENUM_TEXT = "ab\ncd\n\néf\ngh\n"
_ENUM_OFFSETS = [0, 4, 8, 1, 11, 3, 7, 12, 5, 9, 2, 10, 6]  # 13 = the most nodes of such a tree; all different positions


def _label(shape: Any, flags: Iterator[bool], counter: List[int]) -> Tree:
    k = counter[0]
    counter[0] += 1
    located = next(flags)
    kids = [_label(c, flags, counter) for c in shape]
    return (_ENUM_OFFSETS[k % len(_ENUM_OFFSETS)] if located else None, f"e{k}", (kids if kids else (None if k % 2 else [])))


def _shapes(depth: int, width: int) -> List[Any]:
    """Unlabelled trees as nested tuples: at most `depth` levels, at most `width` children per node."""
    if depth <= 1:
        return [()]
    sub = _shapes(depth - 1, width)
    out: List[Any] = []
    for k in range(width + 1):
        out += list(itertools.product(sub, repeat=k))
    return out


def _size(shape: Any) -> int:
    return 1 + sum(_size(c) for c in shape)


def enumerated_trees(depth: int, width: int) -> Iterator[Tree]:
    for shape in _shapes(depth, width):
        n = _size(shape)
        for flags in itertools.product([False, True], repeat=n):
            yield _label(shape, iter(flags), [0])


# ---- composed meta-models: located and un-located errors in one report

_GOOD_CLASS = '''class Item:
    """Represent an item."""

    name: str

    def __init__(self, name: str) -> None:
        self.name = name
'''

#: located errors of `parse.atok_to_symbol_table`, as module-level statements
_PARSE_LOCATED: Dict[str, str] = {
    "enum-literal": "class Some_enum(Enum):\n    some_literal = 3\n",
    "stray-assignment": "x = 1\n",
    "for-statement": "for i in []:\n    pass\n",
    "property-without-type": 'class Other:\n    """Represent é."""\n\n    size = 3\n',
}
#: errors of the parse stage WITHOUT a node (duplicate names: with located underlying errors; the slash: a located
#: error AND the un-located "namespace is missing")
_PARSE_UNLOCATED = ["no-version", "no-namespace", "duplicate-names", "namespace-with-slash"]

#: the intermediate stage: located (class, verification function) and un-located (meta-data, with a located underlying error)
_INTER_PIECES: Dict[str, str] = {
    "class-docstring": 'class Other:\n    """Represent :class:`Unknown`."""\n',
    "verification-pattern": '@verification\ndef is_x(text: str) -> bool:\n    """\n    Check é.\n\n    :param text: to be checked\n    :returns: True if fine\n    """\n    return match("^[a", text) is not None\n',
    "verification-docstring": '@verification\ndef is_y(text: str) -> bool:\n    """\n    Check :class:`Unknown_too`.\n\n    :param text: to be checked\n    :returns: True if fine\n    """\n    return match("^a$", text) is not None\n',
}
_BAD_MODULE_DOC = '"""\nProvide ü.\n\n:param x: not allowed here\n"""\n'


def composed_models() -> List[Tuple[str, str]]:
    """(id, source) — seed independent; every subset of the located x every subset of the un-located defects, two source orders."""
    out: List[Tuple[str, str]] = []
    located = sorted(_PARSE_LOCATED)
    for lk in range(len(located) + 1):
        for ls in itertools.combinations(located, lk):
            for uk in range(len(_PARSE_UNLOCATED) + 1):
                for us in itertools.combinations(_PARSE_UNLOCATED, uk):
                    if not ls and not us:
                        continue
                    for order in ("located-first", "class-first"):
                        if order == "class-first" and not ls:
                            continue
                        pieces = [_PARSE_LOCATED[k] for k in ls]
                        good = [_GOOD_CLASS] + ([_GOOD_CLASS] if "duplicate-names" in us else [])
                        body = pieces + good if order == "located-first" else good[:1] + pieces + good[1:]
                        tail = []
                        if "no-version" not in us:
                            tail.append('__version__ = "dummy"\n')
                        if "namespace-with-slash" in us and "no-namespace" not in us:
                            tail.append('__xml_namespace__ = "https://dummy.com/"\n')
                        elif "no-namespace" not in us:
                            tail.append('__xml_namespace__ = "https://dummy.com"\n')
                        # the assignments in front now and then: the un-located errors still come last in the report
                        if len(ls) % 2 == 0:
                            src = "\n\n".join(body) + "\n" + "".join(tail)
                        else:
                            src = "".join(tail) + "\n" + "\n\n".join(body)
                        out.append((f"parse|{'+'.join(ls) or '-'}|{'+'.join(us) or '-'}|{order}", src))
    inter = sorted(_INTER_PIECES)
    for k in range(len(inter) + 1):
        for ps in itertools.combinations(inter, k):
            for bad_doc in (False, True):
                if not ps and not bad_doc:
                    continue
                for front in ("", "# a comment é\n\n"):
                    for order in ("functions-first", "functions-last"):
                        fns = [_INTER_PIECES[p] for p in ps if p.startswith("verification")]
                        cls = [_INTER_PIECES[p] for p in ps if not p.startswith("verification")] + [_GOOD_CLASS]
                        if order == "functions-last" and not fns:
                            continue
                        body = fns + cls if order == "functions-first" else cls + fns
                        doc = _BAD_MODULE_DOC if bad_doc else '"""Provide a meta-model."""\n'
                        src = front + doc + "\n" + "\n\n".join(body) + '\n\n__version__ = "dummy"\n__xml_namespace__ = "https://dummy.com"\n'
                        out.append((f"intermediate|{'+'.join(ps) or '-'}|{'bad-module-doc' if bad_doc else '-'}|{order}|{'comment-first' if front else 'plain'}", src))
    return out


def report_of_stages(src: str) -> Tuple[Optional[Any], Optional[Any], str]:
    """(atok, the Error tree of the first failing stage or None, stage) — the steps of `run.load_model`, in-process."""
    from aas_core_codegen import intermediate, parse

    atok, exc = parse.source_to_atok(source=src)
    if exc is not None or atok is None:
        return None, None, "syntax"
    if parse.check_expected_imports(atok=atok):
        return atok, None, "imports"
    table, error = parse.atok_to_symbol_table(atok=atok)
    if error is not None:
        return atok, error, "parse"
    _, error = intermediate.translate(parsed_symbol_table=table, atok=atok)
    if error is not None:
        return atok, error, "intermediate"
    return atok, None, "accepted"


def count_errors(e: Any) -> Tuple[int, int]:
    a, b = (1, 0) if e.node is not None else (0, 1)
    for u in e.underlying or []:
        x, y = count_errors(u)
        a, b = a + x, b + y
    return a, b


def judge_composed(ctx: Ctx, case_id: str, src: str, with_smoke: bool) -> Tuple[List[Tuple[str, str]], Optional[Tuple[str, Tree, str]]]:
    """Oracle (4) on one composed meta-model: `error_message` directly, `run.load_model`, (`smoke.execute`)."""
    from aas_core_codegen import run
    from aas_core_codegen.common import LinenoColumner

    try:
        atok, error, stage = report_of_stages(src)
    except BaseException as e:  # noqa
        return [(f"C04:composed:{crash_name(e)}", f"{case_id}: the front end raised {crash_name(e)}")], None
    ctx.hit("composed:stage:" + stage)
    if error is None or atok is None:
        return [], None
    located, unlocated = count_errors(error)
    ctx.hit("composed:located-errors", located)
    ctx.hit("composed:unlocated-errors", unlocated)
    if located and unlocated:
        ctx.hit("composed:mixed-report")
    lines = src.split("\n")
    flat = flatten_error(src, lines, atok.tree, error)
    for (_, a, _), (_, b, _) in zip(flat, flat[1:]):
        if a is not None and b is None:
            ctx.hit("composed:unlocated-after-located")
        if a is None and b is not None:
            ctx.hit("composed:located-after-unlocated")
    bad: List[Tuple[str, str]] = []
    try:
        text = LinenoColumner(atok).error_message(error)
    except BaseException as e:  # noqa
        return [("C04:error_message:" + crash_name(e), f"{case_id}: error_message raised {crash_name(e)}")], None
    bad += [(s, f"{case_id} (error_message): {w}") for s, w in judge_report(text, flat, True)]
    wire = (atok.text, error_wire_tree(atok, src, error), "ok " + enc_text(text))
    if not bad:
        d = ctx.scratch()
        p = d / "meta_model.py"
        p.write_bytes(src.encode("utf-8"))
        try:
            _, report = run.load_model(model_path=p)
        except BaseException as e:  # noqa
            return [("C04:load_model:" + crash_name(e), f"{case_id}: run.load_model raised {crash_name(e)}")], wire
        if report is None:
            bad.append(("C04:composed:load_model-accepts", f"{case_id}: run.load_model accepts a model whose {stage} stage returns an error"))
        else:
            bad += [(s, f"{case_id} (run.load_model): {w}") for s, w in judge_report(report, flat, True)]
        if not bad and with_smoke:
            rc, stderr = run_smoke(ctx, src, False)
            if isinstance(rc, str):
                bad.append((f"C04:pipeline:{rc}", f"{case_id}: smoke.execute raised {rc}"))
            else:
                bad += [(s, f"{case_id} (smoke): {w}") for s, w in judge_report(stderr, flat, True)]
    return bad, wire


# --------------------------------------------------------------------------- oracle (5): the generator stage

_HELPERS = [
    # (key of the designed expectation, name in ``intermediate``, beginning of the headline main.execute writes)
    ("contracts", "errors_if_contracts_for_functions_or_methods_defined", "We do not support pre and post-conditions"),
    ("methods", "errors_if_non_implementation_specific_methods", "We added some support for understood methods"),
    ("nested_lists", "errors_if_nested_lists", "We do not support lists of lists"),
]

ALL_TARGETS = ["cpp", "csharp", "golang", "java", "jsonschema", "python", "typescript", "xsd"]


def generator_targets(case_id: str, k: int, thorough: bool) -> List[str]:
    """The targets ``main.execute`` runs for in the quick tier (seed independent rotation); all of them in the thorough tier."""
    family = case_id.split("|")[0]
    sdk = ["cpp", "csharp", "golang", "java", "python", "typescript"]
    if thorough:
        # the three helpers give the same errors for every SDK target: three rotating ones for the big family
        return [sdk[k % 6], sdk[(k + 1) % 6], sdk[(k + 3) % 6]] if family == "signatures" else list(ALL_TARGETS)
    if family in ("collisions", "transpilation", "corpus"):
        return list(ALL_TARGETS)
    if family == "descriptions":
        rest = ["cpp", "golang", "java", "python", "typescript"]  # the five generators that can not render the description
        return [rest[k % 5], rest[(k + 2) % 5]]
    if family == "nested-lists":
        return [sdk[k % 6], sdk[(k + 3) % 6]]
    return [sdk[k % 6]]


def judge_generator(ctx: Ctx, case_id: str, src: str, targets: Sequence[str]) -> Tuple[List[Tuple[str, str, Dict[str, Any]]], List[Tuple[str, Tree, str]]]:
    """Oracle (5) on one meta-model: ``(failures (sig, what, extra input fields), error trees for the Lean model)``."""
    from harness import mm

    bad: List[Tuple[str, str, Dict[str, Any]]] = []
    wires: List[Tuple[str, Tree, str]] = []
    ld = mm.load(src)
    if ld.symbol_table is None or ld.atok is None:
        ctx.hit("generator:front-end-" + ("crashes" if ld.crash else "rejects"))  # not a matter of this stream
        return bad, wires
    try:
        ix = c04_gen.Index(src)
    except (SyntaxError, ValueError):
        return bad, wires
    expected = c04_gen.expected_helper_errors(ix)
    starts = token_starts(src)
    lines = src.split("\n")

    def judge_entries(entries: Sequence[c04_gen.Entry], helper: Optional[str], via: str) -> None:
        located = [e for e in entries if e[1] is not None]
        ctx.hit("generator:located-errors", len(located))
        ctx.hit("generator:unlocated-top-level-errors", sum(1 for d, loc, _ in entries if d == 0 and loc is None))
        if any(d > 0 for d, loc, _ in entries if loc is not None):
            ctx.hit("generator:located-underlying-errors")
        for _, loc, msg in located:
            if loc not in starts:
                sig = "C04:column-shift-after-first-line" if loc[0] > 1 and (loc[0], loc[1] - 1) in starts else "C04:generator:not-the-start-of-a-construct"
                bad.append((sig, f"{case_id} ({via}): 'At line {loc[0]} and column {loc[1]}' ({msg[:60]!r}) is not the start of a construct of that line", {"via": via}))
                return
        for sig, what in c04_gen.judge_entities(ix, entries):
            bad.append((sig, f"{case_id} ({via}): {what}", {"via": via}))
            return
        if helper is not None:
            comparable, fails = c04_gen.judge_expected(entries, expected[helper])
            ctx.hit("generator:expectation-" + ("compared" if comparable else "not-comparable"))
            if not comparable and not any(n.startswith("generator stream:") for n in ctx.notes):
                ctx.note(f"generator stream: the errors of {helper} on {case_id} ({via}) are not the designed ones; locations judged by the entity rule only")
            for sig, what in fails:
                bad.append((sig, f"{case_id} ({via}): {what}", {"via": via}))
                return

    # ---- the three helpers, in-process
    try:
        from aas_core_codegen import intermediate
        from aas_core_codegen.common import LinenoColumner

        lc = LinenoColumner(ld.atok)
    except BaseException as e:  # noqa
        return [("C04:table:" + crash_name(e), f"{case_id}: LinenoColumner() raised {crash_name(e)}", {})], wires
    for key, fname, _ in _HELPERS:
        try:
            errors = getattr(intermediate, fname)(ld.symbol_table) or []
        except BaseException as e:  # noqa
            ctx.hit(f"generator:{key}:{crash_name(e)}")  # a crashing helper is not a matter of C04
            continue
        entries: List[c04_gen.Entry] = []
        for err in errors:
            try:
                text = lc.error_message(err)
            except BaseException as e:  # noqa
                bad.append(("C04:error_message:" + crash_name(e), f"{case_id} ({key}): error_message raised {crash_name(e)}", {"via": key}))
                return bad, wires
            flat = flatten_error(src, lines, ld.atok.tree, err)
            for sig, what in judge_report(text, flat, all(single_line(m) for _, _, m in flat)):
                bad.append((sig, f"{case_id} ({key}, error_message): {what}", {"via": key}))
            entries += c04_gen.parse_rendered(text, False)
            wires.append((ld.atok.text, error_wire_tree(ld.atok, src, err), "ok " + enc_text(text)))
        if errors:
            ctx.hit("generator:helper-reports:" + key)
        if not bad:
            judge_entries(entries, key, key)
    # ---- main.execute
    cache = mm.new_scratch("c04cache")
    for target in targets:
        if bad:
            break
        res = mm.generate(target, src, mm.new_scratch("c04out"), symbol_table=ld.symbol_table, cache_dir=cache)
        if res.exception is not None:
            ctx.hit(f"generator:{target}:{res.exception}")  # C01/C03
            continue
        ctx.hit(f"generator:{target}:rc={res.rc}")
        if res.rc == 0:
            continue
        head = res.stderr.split("\n", 1)[0]
        helper = next((key for key, _, h in _HELPERS if head.startswith(h)), None)
        judge_entries(c04_gen.parse_rendered(res.stderr, True), helper, "main.execute:" + target)
    return bad, wires


# --------------------------------------------------------------------------- input streams

CLS = ["a", "b", " ", "\t", "\n", "\n", "\r", "\r\n", "\f", "\v", "é", "ü", "😀", "e\u0301", "\ud800", "\u2028", "\x85", "x = 1", "#", "\u3000", "\x1c"]
MSG = ["m", "Failed to parse", "At line 1", "At line 7 and column 9: fake", "a\nb", " ", "", "\n", "x\r\ny", "* ", "é😀", "\t\n z", "q\u2028r", "\x0c", "w\n\n  v\n"]


def rand_text(ctx: Ctx, maxn: int = 30) -> str:
    return "".join(ctx.rng.choice(CLS) for _ in range(ctx.rng.randint(0, maxn)))


def rand_tree(ctx: Ctx, n: int, depth: int, starts: Optional[Sequence[int]] = None) -> Tree:
    rng = ctx.rng
    r = rng.random()
    if starts is not None:
        start: Optional[int] = None if r < 0.2 or not starts else rng.choice(list(starts))
    elif r < 0.2:
        start = None
    elif r < 0.9:
        start = rng.randint(0, max(0, n - 1))
    else:
        start = n + rng.randint(0, 2)
    msg = rng.choice(MSG) if rng.random() < 0.7 else rand_text(ctx, 8)
    if depth <= 0 or rng.random() < 0.4:
        und: Optional[List[Any]] = rng.choice([None, None, []])
    else:
        und = [rand_tree(ctx, n, depth - 1, starts) for _ in range(rng.randint(1, 3))]
    return (start, msg, und)


def table_inputs(ctx: Ctx) -> Iterator[Tuple[str, str]]:
    for c in corpus(ID):
        if c.get("kind") == "text":
            yield c["text"], "corpus"
    alpha = ["a", "\n", "\r", "é"]
    for k in range(0, 6):
        for tup in itertools.product(alpha, repeat=k):
            yield "".join(tup), "enumerated"
    for _ in range(ctx.n(3000, 60000)):
        yield rand_text(ctx), "random"


def errmsg_inputs(ctx: Ctx) -> Iterator[Tuple[str, Tree, str]]:
    for c in corpus(ID):
        if c.get("kind") == "errmsg":
            yield c["text"], _tree_from_json(c["tree"]), "corpus"
    # enumerated: every branch of the model (no node / in range / out of range; None / [] / nested;
    # blank and non-blank lines in nested messages; first and later lines)
    t = "ab\ncd\n\né"
    for start in [None, 0, 1, 2, 3, 5, 6, 7, 8, 9, 40]:
        yield t, (start, "m", None), "enumerated"
        yield t, (start, "m", []), "enumerated"
        yield t, (0, "top", [(start, "u", None), (None, "v\n\n w\n", [(start, "deep", None)])]), "enumerated"
    yield "", (0, "m", None), "enumerated"
    yield "", (None, "", None), "enumerated"
    # located and un-located errors mixed in one tree: EVERY shape up to depth 3 / width 2 and depth 2 / width 3 with every
    # node located or not (all located nodes at different positions, unique messages); depth 3 / width 3 (55 862 trees) in
    # full in the thorough tier, every 29th of them (seed independent) in the quick tier
    for tr in enumerated_trees(3, 2):
        yield ENUM_TEXT, tr, "enumerated-trees"
    for tr in enumerated_trees(2, 3):
        yield ENUM_TEXT, tr, "enumerated-trees"
    for k, tr in enumerate(enumerated_trees(3, 3)):
        if ctx.tier == "thorough" or k % 29 == 0:
            yield ENUM_TEXT, tr, "enumerated-trees"
    # the same mixtures with messages that span lines / look like a location themselves
    for tr in enumerated_trees(3, 2):
        yield ENUM_TEXT, _remessage(tr), "enumerated-trees-multiline"
    # every character that str.splitlines / str.isspace may treat specially, in a nested message
    specials = list(range(0, 0x3100, 1)) if ctx.tier == "thorough" else (
        list(range(0, 0x100)) + list(range(0x1670, 0x1690)) + list(range(0x1ff0, 0x2070)) + list(range(0x2ff0, 0x3010)) + [0xFEFF, 0x180E, 0x200B]
    )
    for cp in specials:
        ch = chr(cp)
        yield "a\nb", (None, "h", [(1, f"x{ch}y", None), (None, ch, None), (None, f"p\n{ch}\nq{ch}", None)]), "special-characters"
    for _ in range(ctx.n(2000, 40000)):
        text = rand_text(ctx)
        yield text, rand_tree(ctx, len(text), 3), "random"


_REMSG = ["a\nb", "At line 7 and column 9: fake", "w\n\n  v\n", "x\r\ny", "plain", "é\u2028r"]


def _remessage(tr: Tree, counter: Optional[List[int]] = None) -> Tree:
    counter = counter if counter is not None else [0]
    k = counter[0]
    counter[0] += 1
    return (tr[0], f"{k}{_REMSG[k % len(_REMSG)]}", None if tr[2] is None else [_remessage(u, counter) for u in tr[2]])


def _tree_from_json(j: Any) -> Tree:
    return (j[0], j[1], None if j[2] is None else [_tree_from_json(u) for u in j[2]])


HAND_MODULES = [
    "x = 1\ny = 2\n",
    "\n\nx = 1",
    "é = 'ü'; y = 2\nz = 'äö'; w = 3",
    "x = '''a\nb'''; y = 1\n",
    "if x:\n\ty = 1\n",
    "x = 1\r\ny = 2\r\nclass A:\r\n\tz: int = 3\r\n",
    "\fx = 1\n\f\ny = 2\n",
    "@d\nclass A:\n  pass\n",
    "@ d\n@e(1)\ndef f(a, *b, c=1, **k) -> int:\n  return a\n",
    "x = (\n 1 +\n  2)\n",
    'class A:\n    """Doc 😀."""\n\n    def f(self) -> None:\n        return len("ü") == 1; y = 2\n',
    "# only a comment",
    " # indented comment first\nx = 1\ny = (x,\n  2)\n",
    "\f# form feed first\nclass A:\n    y: int\n",
    "x = 1   \n   \n",
    'y = f"{x} ü {z!r}"\n',
    "def f():\n    return re.match(r'^é$', 'ü' + t) is not None\n",
]


def module_inputs(ctx: Ctx) -> Iterator[Tuple[str, str]]:
    for c in corpus(ID):
        if c.get("kind") == "module":
            yield c["source"], "corpus"
    for s in HAND_MODULES:
        yield s, "hand-grown"
    for case in smoke_cases():
        yield (case / "meta_model.py").read_text(encoding="utf-8"), "recorded-meta-models"
    want = ctx.n(250, 5000)
    got = tries = 0
    while got < want and tries < want * 4:
        tries += 1
        src = gen_module(ctx.rng)
        try:
            ast.parse(src)
        except (SyntaxError, ValueError, RecursionError):
            ctx.hit("generated-module-invalid")
            continue
        got += 1
        yield src, "generated"


# --------------------------------------------------------------------------- run


def _run(ctx: Ctx, with_model: bool) -> None:
    # ---- (a) table
    batch = list(table_inputs(ctx))
    tables = [impl_table(t) for t, _ in batch]
    mouts = ctx.model([f"positions {enc_text(t)}" for t, _ in batch]) if with_model else None
    for k, ((text, stream), tab) in enumerate(zip(batch, tables)):
        ctx.count(("table", text), nontrivial=("\n" in text), stream="table:" + stream)
        if k % 997 == 0:
            ctx.sample({"text": text, "positions": tab if isinstance(tab, str) else tab[:8]})
        if mouts is not None:
            got = tab if isinstance(tab, str) else ("[]" if not tab else ",".join(f"{l}:{c}" for l, c in tab))
            if got != mouts[k]:
                ctx.disagree("positions", {"kind": "text", "text": text}, got[:200], mouts[k][:200])
            ctx.traces_validated += 1
        if "\n" in text:
            ctx.hit("table:multi-line")
        if text.endswith("\n"):
            ctx.hit("table:ends-with-newline")
        if "\n\n" in text:
            ctx.hit("table:empty-line")
        for sig, what in judge_table(text, tab):
            ctx.fail({"kind": "text", "text": text}, what, sig)

    # ---- (b) error_message through the stub
    ebatch = list(errmsg_inputs(ctx))
    eouts = [impl_errmsg(StubAtok(t), tr) for t, tr, _ in ebatch]
    emod = ctx.model([f"errmsg {enc_text(t)} {tree_wire(tr)}" for t, tr, _ in ebatch]) if with_model else None
    for k, ((text, tr, stream), got) in enumerate(zip(ebatch, eouts)):
        ctx.count(("errmsg", text, repr(tr)), nontrivial=True, stream="errmsg:" + stream)
        ctx.hit("errmsg:crash" if got.startswith("crash") else "errmsg:ok")
        if tr[2]:
            ctx.hit("errmsg:nested")
            fl = [a is not None for _, a, _ in flatten_tree(text, tr)]
            if any(x and not y for x, y in zip(fl, fl[1:])):
                ctx.hit("errmsg:unlocated-after-located")
            if any(y and not x for x, y in zip(fl, fl[1:])):
                ctx.hit("errmsg:located-after-unlocated")
        if k % 1499 == 0:
            ctx.sample({"text": text, "tree": tr, "message": got if got.startswith("crash") else dec_text(got[3:])})
        if emod is not None:
            if got != emod[k]:
                ctx.disagree("errmsg", {"kind": "errmsg", "text": text, "tree": tr}, got[:300], emod[k][:300])
            ctx.traces_validated += 1
        for sig, what in judge_errmsg(text, tr, got):
            ctx.fail({"kind": "errmsg", "text": text, "tree": tr}, what, sig)

    # ---- (c) real asttokens objects
    lines: List[str] = []
    pend: List[Tuple[str, Tree, str]] = []
    for src, stream in module_inputs(ctx):
        try:
            atok = mk_atok(src)
        except BaseException as e:  # noqa
            ctx.hit("asttokens-failed:" + type(e).__name__)
            continue
        nodes = [n for n in ast.walk(atok.tree) if hasattr(n, "lineno") and hasattr(n, "col_offset")]
        ctx.count(("module", src), nontrivial=len(nodes) > 0, stream="module:" + stream)
        ctx.hit("module:nodes", len(nodes))
        if "\r\n" in src:
            ctx.hit("module:crlf")
        if "\f" in src:
            ctx.hit("module:form-feed")
        if "\t" in src:
            ctx.hit("module:tab")
        if any(ord(ch) > 127 for ch in src):
            ctx.hit("module:non-ascii")
        if len(ctx.samples) < 12 and stream == "generated":
            ctx.sample({"module": src[:300], "nodes": len(nodes)})
        for sig, what, extra in judge_module(src, atok):
            ctx.fail({"kind": "module", "source": src, **extra}, what, sig)
        if with_model and nodes:
            # a nested error over real nodes: the start offsets are computed by the real asttokens
            by_start = {start_of(atok, src, n): n for n in nodes}
            ss = sorted(by_start)
            if len(ss) > 40:
                ss = sorted(ctx.rng.sample(ss, 40))
            t = (None, "all", [rand_tree(ctx, len(src), 2, sorted(by_start))] + [(s, "m", None) for s in ss])
            got = impl_errmsg(atok, t, lambda s: by_start[s])
            lines.append(f"errmsg {enc_text(atok.text)} {tree_wire(t)}")
            pend.append((src, t, got))
            if got.startswith("ok "):
                src_lines = src.split("\n")

                def flat_real(tr: Tree, depth: int = 0) -> List[Flat]:
                    out: List[Flat] = [(depth, None if tr[0] is None else allowed_locations(src, src_lines, by_start[tr[0]]), tr[1])]
                    for u in tr[2] or []:
                        out += flat_real(u, depth + 1)
                    return out

                fl = flat_real(t)
                for sig, what in judge_report(dec_text(got[3:]), fl, all(single_line(m) for _, _, m in fl)):
                    ctx.fail({"kind": "module-tree", "source": src, "tree": t}, what, sig)
    if with_model:
        outs = ctx.model(lines)
        for (src, t, got), want in zip(pend, outs):
            if got != want:
                ctx.disagree("errmsg-real-asttokens", {"kind": "module", "source": src, "tree": t}, got[:300], want[:300])
            ctx.traces_validated += 1

    # ---- (d) pipeline
    cases = pipeline_cases()
    for case_id, base in cases:
        for variant in VARIANTS:
            ctx.count(("pipeline", case_id, variant[0]), nontrivial=True, stream="pipeline")
            for sig, what in judge_pipeline(ctx, case_id, base, variant):
                ctx.fail({"kind": "pipeline", "case": case_id, "variant": variant[0]}, what, sig)
    if not smoke_cases():
        ctx.note("no recorded smoke cases found under dev/test_data/smoke")

    # ---- (e) composed meta-models: located and un-located errors in one report
    composed = [(c["id"], c["source"]) for c in corpus(ID) if c.get("kind") == "report"] + composed_models()
    clines: List[str] = []
    cpend: List[Tuple[str, str, Tree, str]] = []
    for k, (case_id, src) in enumerate(composed):
        ctx.count(("report", src), nontrivial=True, stream="report:" + case_id.split("|")[0])
        bad, wire = judge_composed(ctx, case_id, src, with_smoke=(k % 16 == 0))
        for sig, what in bad:
            ctx.fail({"kind": "report", "id": case_id, "source": src}, what, sig)
        if wire is not None and with_model:
            clines.append(f"errmsg {enc_text(wire[0])} {tree_wire(wire[1])}")
            cpend.append((case_id, src, wire[1], wire[2]))
    if with_model and clines:
        for (case_id, src, tr, got), want in zip(cpend, ctx.model(clines)):
            if got != want:
                ctx.disagree("errmsg-composed", {"kind": "report", "id": case_id, "source": src}, got[:300], want[:300])
            ctx.traces_validated += 1

    # ---- (f) the generator stage: accepted meta-models which a generator rejects with located errors
    _run_generator(ctx, with_model)


def _run_generator(ctx: Ctx, with_model: bool) -> None:
    thorough = ctx.tier == "thorough"
    models = [("corpus|" + str(c.get("id", "")), c["source"]) for c in corpus(ID) if c.get("kind") == "generator"] + c04_gen.all_models(thorough)
    glines: List[str] = []
    gpend: List[Tuple[str, str, Tree, str]] = []
    for k, (case_id, src) in enumerate(models):
        ctx.count(("generator", src), nontrivial=True, stream="generator:" + case_id.split("|")[0])
        bad, wires = judge_generator(ctx, case_id, src, generator_targets(case_id, k, thorough))
        for sig, what, extra in bad:
            ctx.fail({"kind": "generator", "id": case_id, "source": src, **extra}, what, sig)
        if with_model:
            for text, tr, got in wires:
                glines.append(f"errmsg {enc_text(text)} {tree_wire(tr)}")
                gpend.append((case_id, src, tr, got))
    if with_model and glines:
        for (case_id, src, tr, got), want in zip(gpend, ctx.model(glines)):
            if got != want:
                ctx.disagree("errmsg-generator", {"kind": "generator", "id": case_id, "source": src}, got[:300], want[:300])
            ctx.traces_validated += 1


def judge_errmsg(text: str, tr: Tree, got: str) -> List[Tuple[str, str]]:
    """The located top-level error names the position of its start; offsets inside the text never crash."""
    start = tr[0]

    def max_start(t: Tree) -> int:
        return max([-1 if t[0] is None else t[0]] + [max_start(u) for u in (t[2] or [])])

    if got.startswith("crash"):
        if max_start(tr) < len(text):
            return [("C04:error_message:" + got, f"error_message raised {got} although every offset lies inside the text")]
        return []
    msg = dec_text(got[3:])
    if start is not None and start < len(text):
        exp = spec_pos(text, start)
        want = f"At line {exp[0]} and column {exp[1]}: "
        if not msg.startswith(want):
            loc = parse_loc(msg)
            if loc and exp[0] > 1 and loc == (exp[0], exp[1] + 1) and text[start] != "\n":
                return [("C04:column-shift-after-first-line", f"offset {start} is reported as {msg[:40]!r}, expected {want!r}")]
            if loc and text[start] == "\n" and loc in ((exp[0] + 1, 0), (exp[0] + 1, 1)):
                return [("C04:position-of-newline-character", f"offset {start} (a newline) is reported as {msg[:40]!r}, expected {want!r}")]
            return [("C04:prefix", f"offset {start} is reported as {msg[:40]!r}, expected {want!r}")]
    if max_start(tr) < len(text):
        # the whole tree: prefixes only for errors with a node, each naming ITS node's position
        flat = flatten_tree(text, tr)
        return judge_report(msg, flat, all(single_line(m) for _, _, m in flat))
    return []


def correspond(ctx: Ctx) -> None:
    ctx.extra_cov["rule"] = (
        "table: corpus + all texts of <=5 characters over {a, LF, CR, é} + seeded random texts over 21 character classes "
        "(non-trivial = contains a newline); errmsg: enumerated starts/nesting + every special whitespace/line-break "
        "character + random trees; module: hand-grown + recorded meta-models + generated valid modules through the real "
        "asttokens (non-trivial = has positioned nodes); pipeline: (5 recorded + 1 own) rejected meta-models x 7 layout variants; "
        "errmsg:enumerated-trees: every error tree up to depth 3 / width 2 and depth 2 / width 3 (and every 29th up to depth 3 / width 3) "
        "with every node located or not; report: composed meta-models with every subset of 4 located x 4 un-located parse defects and "
        "3 located x 1 un-located intermediate defects through error_message, run.load_model and smoke; "
        "generator: accepted meta-models rejected by the generators (contracts on own / inherited / synthesized constructors, methods and "
        "functions; understood methods; lists of lists; names colliding in the targets; descriptions that can not be rendered at 15 "
        "positions, singly and in pairs; stacked and inherited invariants, functions and numbers that a target can not transpile) through "
        "the three intermediate.errors_if_* helpers directly and main.execute for rotating targets (all 8 in the thorough tier); "
        "distinct by value"
    )
    _run(ctx, True)


def oracle(ctx: Ctx) -> None:
    if not ctx.driver_ok or ctx.searching:
        _run(ctx, False)


def replay(ctx: Ctx, data: Dict[str, Any]) -> Any:
    inp = data["failure"]["input"] if "failure" in data else data
    kind = inp.get("kind")
    res: Dict[str, Any] = {}
    if kind == "text":
        text = inp["text"]
        tab = impl_table(text)
        res["impl"] = tab
        res["oracle"] = judge_table(text, tab)
        if ctx.driver_ok:
            res["model"] = ctx.model([f"positions {enc_text(text)}"])[0]
    elif kind == "errmsg":
        text, tr = inp["text"], _tree_from_json(inp["tree"])
        got = impl_errmsg(StubAtok(text), tr)
        res["impl"] = got if got.startswith("crash") else dec_text(got[3:])
        res["oracle"] = judge_errmsg(text, tr, got)
        if ctx.driver_ok:
            m = ctx.model([f"errmsg {enc_text(text)} {tree_wire(tr)}"])[0]
            res["model"] = m if not m.startswith("ok ") else dec_text(m[3:])
    elif kind == "module":
        src = inp["source"]
        atok = mk_atok(src)
        res["oracle"] = [(s, w) for s, w, _ in judge_module(src, atok)]
        from aas_core_codegen.common import LinenoColumner

        try:
            res["impl"] = LinenoColumner(atok).positions[:40]
        except BaseException as e:  # noqa
            res["impl"] = crash_name(e)
        if ctx.driver_ok:
            res["model"] = ctx.model([f"positions {enc_text(atok.text)}"])[0][:300]
    elif kind == "pipeline":
        base = dict(pipeline_cases())[inp["case"]]
        variant = [v for v in VARIANTS if v[0] == inp["variant"]][0]
        res["oracle"] = judge_pipeline(ctx, inp["case"], base, variant)
        res["impl"] = run_smoke(ctx, variant[1] + base, variant[2])[1]
    elif kind == "report":
        bad, wire = judge_composed(ctx, inp.get("id", "replay"), inp["source"], with_smoke=True)
        res["oracle"] = bad
        if wire is not None:
            res["impl"] = dec_text(wire[2][3:])
            if ctx.driver_ok:
                m = ctx.model([f"errmsg {enc_text(wire[0])} {tree_wire(wire[1])}"])[0]
                res["model"] = m if not m.startswith("ok ") else dec_text(m[3:])
    elif kind == "module-tree":
        src, tr = inp["source"], _tree_from_json(inp["tree"])
        atok = mk_atok(src)
        nodes = [n for n in ast.walk(atok.tree) if hasattr(n, "lineno") and hasattr(n, "col_offset")]
        by_start = {start_of(atok, src, n): n for n in nodes}
        got = impl_errmsg(atok, tr, lambda s: by_start[s])
        res["impl"] = got if got.startswith("crash") else dec_text(got[3:])
        if got.startswith("ok "):
            src_lines = src.split("\n")

            def flat_real(t: Tree, depth: int = 0) -> List[Flat]:
                out: List[Flat] = [(depth, None if t[0] is None else allowed_locations(src, src_lines, by_start[t[0]]), t[1])]
                for u in t[2] or []:
                    out += flat_real(u, depth + 1)
                return out

            fl = flat_real(tr)
            res["oracle"] = judge_report(dec_text(got[3:]), fl, all(single_line(m) for _, _, m in fl))
        if ctx.driver_ok:
            m = ctx.model([f"errmsg {enc_text(atok.text)} {tree_wire(tr)}"])[0]
            res["model"] = m if not m.startswith("ok ") else dec_text(m[3:])
    elif kind == "generator":
        bad, wires = judge_generator(ctx, inp.get("id", "replay"), inp["source"], ALL_TARGETS)
        res["oracle"] = [(s, w) for s, w, _ in bad]
        res["impl"] = [dec_text(g[3:]) for _, _, g in wires]
        if ctx.driver_ok and wires:
            ms = ctx.model([f"errmsg {enc_text(t)} {tree_wire(tr)}" for t, tr, _ in wires])
            res["model"] = [m if not m.startswith("ok ") else dec_text(m[3:]) for m in ms]
    else:
        res["error"] = f"unknown replay kind {kind!r}"
    return res
