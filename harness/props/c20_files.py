"""C20 (whole-file level) -- every generated file is syntactically well-formed.

For small meta-models whose descriptions contain *nasty texts* all eight targets are
generated in-process and every generated file is judged by an independent judge:

* ``.py``            -> ``ast.parse``
* ``.json``          -> ``json.loads``
* ``.xsd`` / ``.xml``-> ``xml.etree.ElementTree.parse``
* ``.java``          -> one batched ``javac`` call which stops after parsing, plus the balance lexer
* ``.ts .go .cs .java .cpp .hpp`` -> a balance lexer (comments / literals / brackets) written here
* ``.cs``            -> additionally: the ``///`` documentation comments are well-formed XML
* ``.cpp .hpp``      -> additionally: no ``//`` comment line ends in a backslash (line splice)

The module is self-contained (only the standard library); ``aas_core_codegen`` is imported
lazily in :func:`generate`.
"""
from __future__ import annotations

import ast
import hashlib
import io
import json
import os
import pathlib
import re
import shutil
import subprocess
import sys
import tempfile
import xml.etree.ElementTree as ET
from typing import Any, Dict, Iterable, List, Optional, Sequence, Tuple

TARGETS = ["python", "csharp", "java", "typescript", "golang", "cpp", "jsonschema", "xsd"]

LEXED_SUFFIXES = {
    ".java": "java",
    ".ts": "ts",
    ".go": "go",
    ".cs": "cs",
    ".cpp": "cpp",
    ".hpp": "cpp",
}

# The short language tag used in the signatures.
_SIG_LANG = {"java": "java", "ts": "ts", "go": "go", "cs": "csharp", "cpp": "cpp"}


def _repo() -> pathlib.Path:
    return pathlib.Path(os.environ.get("VERIF_REPO", "/repo"))


# ---------------------------------------------------------------------------------------
# Meta-model
# ---------------------------------------------------------------------------------------


def lit(s: str) -> str:
    """Render a one-line Python literal which denotes exactly ``s``."""
    out = ['"']
    for c in s:
        o = ord(c)
        if c == '"':
            out.append('\\"')
        elif c == "\\":
            out.append("\\\\")
        elif c == "\n":
            out.append("\\n")
        elif c == "\r":
            out.append("\\r")
        elif c == "\t":
            out.append("\\t")
        elif o < 32 or o == 127 or 0x80 <= o < 0xA0:
            out.append("\\x%02x" % o)
        elif o in (0x2028, 0x2029) or 0xD800 <= o < 0xE000 or o in (0xFFFE, 0xFFFF):
            out.append("\\u%04x" % o)
        else:
            out.append(c)
    out.append('"')
    return "".join(out)


def _indent_body(desc: str) -> str:
    """Indent all but the first line of ``desc`` so that it can be the body of a reST field."""
    lines = desc.splitlines(keepends=True)
    return "".join(lines[:1] + [("    " + ln if ln.strip() else ln) for ln in lines[1:]])


PLAIN = "Represent something harmless."

#: variant -> (where the description goes)
#:
#: 0: everywhere, including the ``:param text:`` / ``:returns:`` bodies of the verification function
#: 1: everywhere except the field bodies (they are harmless)
#: 2: only in the field bodies (all the other descriptions are harmless)
#: 3: only at the concrete class (where a ``:constraint ...:`` field is admitted, and only once)
VARIANTS = (0, 1, 2, 3)


def meta_model_source(desc: str, variant: int = 0) -> str:
    """Give the source of a small meta-model with ``desc`` at the description positions."""
    assert variant in VARIANTS, variant
    d = desc if variant in (0, 1) else PLAIN  # module, function, enumeration, literal, constant
    f = desc if variant in (0, 2) else PLAIN  # bodies of the fields of the function
    c = desc if variant in (0, 1) else PLAIN  # abstract class and properties
    s = desc if variant in (0, 1, 3) else PLAIN  # concrete class
    func_doc = d + "\n\n:param text: " + _indent_body(f) + "\n:returns: " + _indent_body(f) + "\n"
    L = lit
    return f'''{L(d)}
from enum import Enum
from re import match
from typing import List, Optional, Set

from icontract import invariant, DBC

from aas_core_meta.marker import abstract, verification, constant_set

__version__ = "dummy"
__xml_namespace__ = "https://dummy.com"


@verification
def matches_something(text: str) -> bool:
    {L(func_doc)}
    pattern = f"^[a-zA-Z][a-zA-Z0-9_]*$"

    return match(pattern, text) is not None


class Kind(Enum):
    {L(d)}

    Ok = "ok"
    {L(d)}

    Bad = "bad"
    {L(d)}


@abstract
@invariant(lambda self: len(self.text) > 0, "Text must be non-empty.")
class Abstract_thing(DBC):
    {L(c)}

    text: str
    {L(c)}

    def __init__(self, text: str) -> None:
        self.text = text


@invariant(
    lambda self: matches_something(self.text), "Text must match something."
)
class Something(Abstract_thing):
    {L(s)}

    kind: Optional[Kind]
    {L(c)}

    amount: int
    {L(c)}

    def __init__(
        self, text: str, amount: int, kind: Optional[Kind] = None
    ) -> None:
        Abstract_thing.__init__(self, text)
        self.amount = amount
        self.kind = kind


class Nothing(DBC):
    {L(s)}


Default_text: str = constant_str(
    value="something",
    description={L(d)},
)

Some_kinds: Set[Kind] = constant_set(
    values=[Kind.Ok],
    description={L(d)},
)
'''


def _write_snippets(target: str, dst: pathlib.Path, package_suffix: str = "") -> None:
    if target == "java":
        (dst / "package.txt").write_text("dummy.pkg" + package_suffix, encoding="utf-8")
        return
    src = _repo() / "dev/test_data/main" / target / "expected/primitive_types/input/snippets"
    for p in sorted(src.iterdir()):
        if p.is_file():
            shutil.copy(p, dst / p.name)


def generate(
    desc: str,
    base: pathlib.Path,
    targets: Sequence[str] = tuple(TARGETS),
    variant: int = 0,
    package_suffix: str = "",
) -> Dict[str, Dict[str, Any]]:
    """Generate ``targets`` for the meta-model of ``desc`` below ``base``.

    Per target: ``{"rc": int | "crash:<Type>", "stderr": str, "out": Path}``.
    """
    repo = str(_repo())
    if "aas_core_codegen" not in sys.modules and repo not in sys.path:
        sys.path.insert(0, repo)
    import aas_core_codegen.main as M

    base = pathlib.Path(base)
    base.mkdir(parents=True, exist_ok=True)
    model_path = base / "meta_model.py"
    model_path.write_text(meta_model_source(desc, variant), encoding="utf-8")

    result: Dict[str, Dict[str, Any]] = {}
    tmp = base / "tmp"
    tmp.mkdir(exist_ok=True)
    old_tempdir = tempfile.tempdir
    tempfile.tempdir = str(tmp)
    try:
        for target in targets:
            snippets_dir = base / ("snip_" + target)
            snippets_dir.mkdir(exist_ok=True)
            _write_snippets(target, snippets_dir, package_suffix)
            out = base / ("out_" + target)
            if out.exists():
                shutil.rmtree(out)
            out.mkdir()
            params = M.Parameters(
                model_path=model_path,
                target=M.Target(target),
                snippets_dir=snippets_dir,
                output_dir=out,
            )
            stdout, stderr = io.StringIO(), io.StringIO()
            rc: Any
            try:
                rc = M.execute(params, stdout, stderr)
            except BaseException as exc:  # noqa
                if isinstance(exc, KeyboardInterrupt):
                    raise
                rc = "crash:" + type(exc).__name__
                stderr.write("\n%s: %s" % (type(exc).__name__, str(exc)[:2000]))
            result[target] = {"rc": rc, "stderr": stderr.getvalue(), "out": out}
    finally:
        tempfile.tempdir = old_tempdir
    return result


def generate_model(
    text: str, base: pathlib.Path, targets: Sequence[str] = tuple(TARGETS)
) -> Dict[str, Dict[str, Any]]:
    """Generate ``targets`` for the complete meta-model ``text`` (snippet sets of ``harness.mm``).

    Same result as :func:`generate`; ``{}`` if the front end rejects the model.
    """
    from harness import mm

    base = pathlib.Path(base)
    base.mkdir(parents=True, exist_ok=True)
    loaded = mm.load(text)
    if loaded.crash is not None:
        return {t: {"rc": loaded.crash, "stderr": loaded.traceback or "", "out": base / ("out_" + t)} for t in targets}
    if not loaded.ok:
        return {}
    result: Dict[str, Dict[str, Any]] = {}
    for target in targets:
        out = base / ("out_" + target)
        if out.exists():
            shutil.rmtree(out)
        out.mkdir()
        r = mm.generate(target, text, out, symbol_table=loaded.symbol_table, cache_dir=base / "tmp")
        rc: Any = r.rc if r.exception is None else r.exception
        result[target] = {"rc": rc, "stderr": r.stderr + (r.traceback or "")[-2000:], "out": out}
    return result


_MODEL_HEADER = '''\
from enum import Enum
from re import match
from typing import List, Optional, Set

from icontract import invariant, DBC

from aas_core_meta.marker import (
    abstract,
    serialization,
    implementation_specific,
    verification,
    constant_set,
    non_mutating,
)

__version__ = "V0.1"

__xml_namespace__ = "https://example.com/aasv/0/1"

'''


_BSL = "\\"  # a single backslash

#: Texts for the string literals (no NUL and no lone surrogate: the front end / the Go generator refuse them).
NASTY_LITERALS: List[str] = [
    'say "hi" */ /* ' + _BSL,
    "it's `x` ${y} " + _BSL + "u12 " + _BSL + "users",
    "L1\nL2\rL3\u2028L4\u2029L5\x85L6\x0bL7\x0cL8\x1cL9\x1dL10\x1eL11",
    '"""',
    "'''",
    _BSL + '"',
    _BSL + "'",
    "tab\t\x01\x7f\ufffe\x1b[0m",
    "%s {0} {{ %d $x #{y}",
    "?>]]><!-- <a> &amp;",
    _BSL + "N{DASH} " + _BSL + "x41 " + _BSL + "101",
    "a" + _BSL + "\nb",
    "*/",
    "// not a comment",
    '""""',
    "ends in a backslash" + _BSL,
    'ends in a quote"',
    "ends in an apostrophe'",
    "\u00e9 \U0001f600 astral",
    "??/ trigraph ??)",
]


def _shape_models() -> List[Tuple[str, str]]:
    """Small complete meta-models (seed independent) whose *structure* selects the branches of the code emitters.

    The nasty descriptions go through one fixed model; these models vary what the fixed model holds constant.
    """
    r: List[Tuple[str, str]] = []

    def cls(name: str, parent: Optional[str], parent_args: Sequence[str], own: Sequence[Tuple[str, str]], abstract: bool = False) -> str:
        """A class whose constructor passes ``parent_args`` on and assigns its ``own`` properties."""
        lines = (["@abstract"] if abstract else []) + [f"class {name}({parent or 'DBC'}):", f'    """Represent {name}."""', ""]
        for prop, anno in own:
            lines += [f"    {prop}: {anno}", f'    """Hold {prop}."""', ""]
        inherited = {"text": "str", "amount": "int"}
        args = [f"{a}: {inherited[a]}" for a in parent_args]
        args += [f"{prop}: {anno}" + (" = None" if anno.startswith("Optional") else "") for prop, anno in own]
        lines.append("    def __init__(" + ", ".join(["self"] + args) + ") -> None:")
        body = []
        if parent is not None:
            body.append(f"        {parent}.__init__(" + ", ".join(["self"] + list(parent_args)) + ")")
        body += [f"        self.{prop} = {prop}" for prop, _ in own]
        lines += body or ["        pass"]
        return "\n".join(lines) + "\n\n\n"

    # Constructors: {0, 1, 2, 3} own arguments x {no parent, parent without arguments, parent with 1 / 2 arguments};
    # the header of a constructor and the call to the parent are emitted by separate if-chains over these counts.
    r.append(
        (
            "constructor-shapes",
            _MODEL_HEADER
            + cls("Parent_without_args", None, [], [], abstract=True)
            + cls("Child_without_args", "Parent_without_args", [], [])
            + cls("Child_with_one_own", "Parent_without_args", [], [("val", "str")])
            + cls("Child_with_two_own", "Parent_without_args", [], [("val", "str"), ("kind", "Optional[int]")])
            + cls("Parent_with_one_arg", None, [], [("text", "str")], abstract=True)
            + cls("Child_passing_one_on", "Parent_with_one_arg", ["text"], [])
            + cls("Child_with_one_more", "Parent_with_one_arg", ["text"], [("flag", "bool")])
            + cls("Parent_with_two_args", "Parent_with_one_arg", ["text"], [("amount", "int")], abstract=True)
            + cls("Child_passing_two_on", "Parent_with_two_args", ["text", "amount"], [])
            + cls(
                "Child_with_three_more", "Parent_with_two_args", ["text", "amount"],
                [("flag", "bool"), ("children", "Optional[List[Child_without_args]]"), ("data", "Optional[bytearray]")],
            )
            + 'class Without_constructor(DBC):\n    """Represent nothing."""\n',
        )
    )
    # Bodies at their smallest: enumeration with a single literal and without literals, class and abstract class without properties, a class
    # holding only an optional property, a constrained primitive without invariants
    r.append(
        (
            "smallest-bodies",
            _MODEL_HEADER
            + 'class Kind(Enum):\n    """Represent a kind."""\n\n    Only = "only"\n\n\n'
            + 'class Empty_kind(Enum):\n    """Represent no kind at all."""\n\n\n'
            + 'class Code(str, DBC):\n    """Represent a code."""\n\n\n'
            + '@abstract\n@serialization(with_model_type=True)\nclass Abstract_nothing(DBC):\n    """Represent nothing abstractly."""\n\n\n'
            + 'class Nothing(Abstract_nothing):\n    """Represent nothing."""\n\n\n'
            + cls("Hardly_something", None, [], [("kind", "Optional[Kind]")])
            + cls("Holder", None, [], [("nothing", "Abstract_nothing"), ("code", "Code"), ("codes", "Optional[List[Hardly_something]]")]),
        )
    )
    # Constant sets at their smallest and per type of the items: a set WITHOUT items (the emitters join the items with
    # ",\n" and append a trailing comma: Go wrote ``{\n\t,\n}``), one and two items of every primitive type (the Go map
    # literal needs ``key: struct{}{}`` for every type) and of an enumeration; the primitive constants.
    r.append(
        (
            "constant-sets",
            _MODEL_HEADER
            + 'class Kind(Enum):\n    """Represent a kind."""\n\n    Only = "only"\n\n    Other = "other"\n\n\n'
            + cls("Something", None, [], [("kind", "Optional[Kind]")])
            + 'No_strings: Set[str] = constant_set(values=[], description="Hold no strings.")\n\n'
            + 'No_kinds: Set[Kind] = constant_set(values=[], description="Hold no kinds.")\n\n'
            + 'No_ints: Set[int] = constant_set(values=[])\n\n'
            + 'One_string: Set[str] = constant_set(values=["a"], description="Hold a string.")\n\n'
            + 'Two_strings: Set[str] = constant_set(values=["a", "b\\\\"])\n\n'
            + 'One_kind: Set[Kind] = constant_set(values=[Kind.Only])\n\n'
            + 'Two_kinds: Set[Kind] = constant_set(values=[Kind.Only, Kind.Other], description="Hold kinds.")\n\n'
            + 'One_int: Set[int] = constant_set(values=[1], description="Hold an integer.")\n\n'
            + 'Two_ints: Set[int] = constant_set(values=[1, 2])\n\n'
            + 'One_bool: Set[bool] = constant_set(values=[True], description="Hold a boolean.")\n\n'
            + 'Two_bools: Set[bool] = constant_set(values=[True, False])\n\n'
            + 'One_float: Set[float] = constant_set(values=[1.5], description="Hold a float.")\n\n'
            + 'Two_floats: Set[float] = constant_set(values=[1.5, 2.0])\n\n'
            + 'An_int: int = constant_int(value=3, description="Hold an int.")\n\n'
            + 'A_bool: bool = constant_bool(value=False)\n\n'
            + 'A_float: float = constant_float(value=0.5)\n\n'
            + 'A_text: str = constant_str(value="say \\"hi\\" */ \\\\", description="Hold a text.")\n',
        )
    )
    # Texts which reach the string literals of the targets: invariant messages, string constants, items of a constant set
    # (emitted by string_literal of every target and then indented together with the code around them: a line boundary of
    # ``str.splitlines`` inside a literal was once taken for the end of a line of the code).
    lines = [
        "@invariant(lambda self: len(self.text) > 0, %s)" % lit(text) for text in NASTY_LITERALS
    ]
    lines += ["class Something(DBC):", '    """Represent something."""', "", "    text: str", '    """Hold text."""', ""]
    lines += ["    def __init__(self, text: str) -> None:", "        self.text = text", "", ""]
    for k, text in enumerate(NASTY_LITERALS):
        lines += ["Text_%d: str = constant_str(value=%s, description=%s)" % (k, lit(text), lit("Hold the text %d." % k)), ""]
    lines += ["All_texts: Set[str] = constant_set(values=[%s])" % ", ".join(lit(text) for text in NASTY_LITERALS), ""]
    r.append(("nasty-literals", _MODEL_HEADER + "\n".join(lines)))
    return r


SHAPE_MODELS: List[Tuple[str, str]] = _shape_models()


# ---------------------------------------------------------------------------------------
# Balance lexer
# ---------------------------------------------------------------------------------------

_LINE_TERMINATORS = {
    "java": "\n\r",
    "cpp": "\n\r",
    "go": "\n\r",
    "ts": "\n\r\u2028\u2029",
    "cs": "\n\r\u0085\u2028\u2029",
}

_OPEN = {"(": ")", "[": "]", "{": "}"}
_CLOSE = {")": "(", "]": "[", "}": "{"}

_HEX = set("0123456789abcdefABCDEF")

# Characters which can not occur in the code of the language outside comments and literals.
_ILLEGAL_IN_CODE = {
    "java": set("\\#`"),
    "ts": set("\\"),
    "go": set("\\#$?@"),
    "cs": set("\\`"),
    "cpp": set("`@"),
}

_CPP_DIRECTIVE_RE = re.compile(
    r"#[ \t]*(include|error|warning|pragma|ifdef|ifndef|if|elif|else|endif)\b"
)

# The keywords of TypeScript after which a ``/`` starts a regular expression.
_TS_REGEX_KEYWORDS = {
    "return", "typeof", "instanceof", "in", "of", "new", "delete", "void", "throw", "case",
    "do", "else", "yield", "await",
}


def java_translate_unicode_escapes(text: str) -> Tuple[str, List[Tuple[str, int, str]]]:
    """Perform the first translation step of the Java lexer (JLS 3.3)."""
    if "\\u" not in text:
        return text, []
    out: List[str] = []
    problems: List[Tuple[str, int, str]] = []
    i, n = 0, len(text)
    line = 1
    while i < n:
        c = text[i]
        if c == "\n":
            line += 1
        if c != "\\":
            out.append(c)
            i += 1
            continue
        # A run of backslashes: only a backslash preceded by an even number of backslashes is
        # eligible to start a Unicode escape.
        j = i
        while j < n and text[j] == "\\":
            j += 1
        run = j - i
        if run % 2 == 1 and j < n and text[j] == "u":
            out.append("\\" * (run - 1))
            k = j
            while k < n and text[k] == "u":
                k += 1
            digits = text[k : k + 4]
            if len(digits) == 4 and all(ch in _HEX for ch in digits):
                out.append(chr(int(digits, 16)))
                i = k + 4
            else:
                problems.append(
                    ("illegal-unicode-escape", line, "illegal unicode escape %r" % text[i : k + 4])
                )
                out.append("\\")
                i = j
        else:
            out.append("\\" * run)
            i = j
    return "".join(out), problems


def balance(
    text: str, lang: str, max_problems: int = 20, info: Optional[Dict[str, Any]] = None
) -> List[Tuple[str, int, str]]:
    """Lex ``text`` of ``lang`` and list the problems as ``(kind, line, detail)``.

    The kinds: ``unterminated-comment``, ``unterminated-string``, ``unbalanced-bracket``,
    ``stray-closer``, ``illegal-char``, ``illegal-unicode-escape`` (Java only), ``comment-splice`` (C++ only),
    ``comment-line-terminator`` (a line comment ended by a line terminator other than LF / CR LF),
    ``stray-comment-closer`` (``*/`` in the code), ``stray-comma`` (a comma directly after an opening
    bracket or after another comma where the language admits no empty element: Go everywhere, C++ and
    C# after ``{`` / ``(``, Java after ``(``), ``map-literal-missing-key`` (Go: an element of a composite
    literal whose type is spelled ``map[…]…`` right before the brace has no ``key:``; the Go
    specification, section Composite literals, demands a key for every element of a map literal).

    If ``info`` is given, ``info["skeleton"]`` is set to the code without the comments and with
    the white space collapsed.
    """
    assert lang in _LINE_TERMINATORS, lang
    problems: List[Tuple[str, int, str]] = []

    if lang == "java":
        text, problems = java_translate_unicode_escapes(text)

    nl = _LINE_TERMINATORS[lang]
    illegal = _ILLEGAL_IN_CODE[lang]
    n = len(text)

    # Line numbers are computed lazily (on LF, or a CR not followed by LF, or the other terminators).
    def line_of(pos: int) -> int:
        line = 1
        for k in range(min(pos, n)):
            ch = text[k]
            if ch == "\n" or (ch == "\r" and text[k + 1 : k + 2] != "\n") or (
                ch in nl and ch not in "\r\n"
            ):
                line += 1
        return line

    def excerpt(pos: int) -> str:
        start = pos
        while start > 0 and text[start - 1] not in "\n":
            start -= 1
        end = pos
        while end < n and text[end] not in "\n":
            end += 1
        return repr(text[start:end][:160])

    def report(kind: str, pos: int, detail: str) -> None:
        if len(problems) < max_problems:
            problems.append((kind, line_of(pos), detail + " in " + excerpt(pos)))

    # The stack of the open brackets: (bracket, position); "${" marks a template substitution,
    # "$\"{" an interpolation hole is not modelled.
    stack: List[Tuple[str, int]] = []

    def is_ident_char(ch: str) -> bool:
        return ch.isalnum() or ch == "_" or ch == "$"

    def scan_quoted(start: int, quote: str, what: str) -> int:
        """Scan a literal with backslash escapes opened at ``start``; return the position after it."""
        k = start + 1
        while k < n:
            ch = text[k]
            if ch == "\\":
                if k + 1 < n and text[k + 1] in nl:
                    if lang in ("ts", "cpp"):
                        # A line continuation
                        k += 2
                        if text[k - 1] == "\r" and k < n and text[k] == "\n":
                            k += 1
                        continue
                    report("unterminated-string", start, "%s broken by a line terminator" % what)
                    return k + 1
                k += 2
                continue
            if ch == quote:
                return k + 1
            if ch in nl and not (lang == "ts" and ch in "\u2028\u2029"):
                # ECMAScript since ES2019 admits U+2028 and U+2029 inside a string literal.
                report("unterminated-string", start, "%s broken by a line terminator" % what)
                return k
            k += 1
        report("unterminated-string", start, "%s not closed at the end of the file" % what)
        return n

    def scan_template(start: int) -> int:
        """Scan the characters of a TS template from ``start`` (just after ````` or ``}``)."""
        k = start
        while k < n:
            ch = text[k]
            if ch == "\\":
                k += 2
                continue
            if ch == "`":
                return k + 1
            if ch == "$" and text[k + 1 : k + 2] == "{":
                stack.append(("${", k))
                return k + 2
            k += 1
        report("unterminated-string", start - 1, "template literal not closed at the end of the file")
        return n

    def prev_significant(pos: int) -> Tuple[str, str]:
        """Give the previous non-blank character before ``pos`` and the word which ends there."""
        k = pos - 1
        while k >= 0 and text[k] in " \t\n\r":
            k -= 1
        if k < 0:
            return "", ""
        end = k + 1
        while k >= 0 and is_ident_char(text[k]):
            k -= 1
        return text[end - 1], text[k + 1 : end]

    conditionals: List[Dict[str, Any]] = []  # the open ``#if`` sections of C++
    comment_spans: List[Tuple[int, int]] = []

    # The previous significant character of the code (no blank, no comment): "" at the start,
    # '"' after any literal.
    prev_code = ""
    # Openers after which a comma is an error.
    no_comma_after = {
        "go": "{([,", "cpp": "{(,", "cs": "{(", "java": "(", "ts": "",
    }[lang]
    # Go: the open map literals: position of the brace -> [has the current element a token?, a colon?]
    map_literals: Dict[int, List[bool]] = {}
    # Go: the state of the recogniser of ``map[K]V{``: None, or the stack depth at ``map`` + what is expected
    map_type: Optional[Dict[str, Any]] = None

    def note_code(ch: str, pos: int) -> None:
        """Record the significant character ``ch`` of the code at ``pos`` (before the brackets are updated)."""
        nonlocal prev_code, map_type
        if ch == "," and no_comma_after and (prev_code != "" and prev_code in no_comma_after):
            report("stray-comma", pos, "a comma directly after %r" % prev_code)
        if lang == "go":
            top_pos = stack[-1][1] if stack else -1
            element = map_literals.get(top_pos)
            if element is not None:
                if ch == ",":
                    if element[0] and not element[1]:
                        report("map-literal-missing-key", pos, "element of a map literal without a key")
                    element[0] = element[1] = False
                elif ch == "}":
                    if element[0] and not element[1]:
                        report("map-literal-missing-key", pos, "element of a map literal without a key")
                elif ch == ":":
                    element[1] = True
                else:
                    element[0] = True
        prev_code = ch

    def go_map_literal_opens(pos: int) -> bool:
        """Tell whether the ``{`` at ``pos`` opens a composite literal of a type spelled ``map[K]V``.

        Looks back over the type: ``V`` is a (qualified) name, ``struct{}``, ``interface{}``, possibly
        behind ``*`` / ``[]``; ``K`` is anything bracket-balanced. The literal must stand where an
        expression can start (after ``=``, ``(``, ``,``, ``:``, ``{``, ``return`` ...), not after ``)``
        (the result type of a function) nor after a name (a declaration ``x map[K]V``).
        """
        if "map[" not in text[max(0, pos - 300) : pos]:
            return False
        head = text[max(0, pos - 300) : pos]
        m = re.search(
            r"(?P<before>[^\s]?)(?P<blank>\s*)\bmap\[(?P<key>[^\[\]]*(?:\[[^\[\]]*\])?[^\[\]]*)\]"
            r"(?:\*|\[\])*(?:struct\s*\{\s*\}|interface\s*\{\s*\}|[A-Za-z_][A-Za-z_0-9.]*)[ \t]*$",
            head,
        )
        if m is None:
            return False
        before = m.group("before")
        if before == "":
            return True
        if before == ")" or before == "]":
            return False
        if is_ident_char(before):
            k = m.start("before") + 1
            w = k
            while w > 0 and is_ident_char(text[w - 1]):
                w -= 1
            return text[w:k] in ("return", "range", "case")
        return True

    i = 0
    at_line_start = True  # only blanks since the last line terminator
    while i < n:
        c = text[i]

        if c in " \t":
            i += 1
            continue
        if c in nl:
            at_line_start = True
            i += 1
            continue

        was_at_line_start = at_line_start
        at_line_start = False

        two = text[i : i + 2]

        # region Comments
        if two == "//":
            k = i + 2
            while k < n and text[k] not in nl:
                k += 1
            if lang == "cpp" and text[i:k].rstrip(" \t\x00").endswith("\\"):
                report(
                    "comment-splice",
                    i,
                    "line comment ends in a backslash, the next line is spliced to the comment",
                )
            if k < n:
                ending = text[k]
                if ending not in "\r\n" or (ending == "\r" and text[k + 1 : k + 2] != "\n"):
                    report(
                        "comment-line-terminator",
                        k,
                        "line comment ended by the line terminator U+%04X, "
                        "the remainder is code" % ord(ending),
                    )
            comment_spans.append((i, k))
            i = k
            continue
        if two == "/*":
            k = text.find("*/", i + 2)
            if k < 0:
                report("unterminated-comment", i, "block comment not closed")
                comment_spans.append((i, n))
                i = n
            else:
                comment_spans.append((i, k + 2))
                i = k + 2
            continue
        # endregion

        # region Preprocessor lines
        if c == "#" and lang == "cs" and was_at_line_start:
            k = i
            while k < n and text[k] not in nl:
                k += 1
            i = k
            continue
        if c == "#" and lang == "cpp" and was_at_line_start:
            # ``#include <a/b.hpp>`` and ``#error don't`` are not lexed as code;
            # ``#define`` with its continuation lines is.
            m = _CPP_DIRECTIVE_RE.match(text, i)
            if m is not None:
                k = i
                while k < n and text[k] not in nl:
                    k += 1
                directive = m.group(1)
                if directive in ("if", "ifdef", "ifndef"):
                    is_debug = re.match(r"#[ \t]*ifdef[ \t]+DEBUG[ \t]*$", text[i:k]) is not None
                    conditionals.append(
                        {"snapshot": list(stack), "ends": [], "debug": is_debug, "else": False,
                         "pos": i}
                    )
                elif directive in ("else", "elif"):
                    if not conditionals:
                        report("stray-closer", i, "#%s without #if" % directive)
                    else:
                        cond = conditionals[-1]
                        cond["ends"].append([b for b, _ in stack])
                        cond["else"] = cond["else"] or directive == "else"
                        stack[:] = cond["snapshot"]
                elif directive == "endif":
                    if not conditionals:
                        report("stray-closer", i, "#endif without #if")
                    else:
                        cond = conditionals.pop()
                        cond["ends"].append([b for b, _ in stack])
                        if cond["debug"]:
                            # The section of the debug build is not judged: the last branch
                            # (or no branch at all) is the one of the default build.
                            if not cond["else"]:
                                stack[:] = cond["snapshot"]
                        elif cond["else"] and any(e != cond["ends"][0] for e in cond["ends"]):
                            report(
                                "unbalanced-bracket",
                                cond["pos"],
                                "the branches of the conditional section leave different "
                                "brackets open",
                            )
                i = k
                continue
            i += 1
            continue
        # endregion

        # region Literals
        if c in "\"'`" or (c == "/" and lang == "ts"):
            note_code('"' if c != "/" else "/", i)
        if c == '"':
            if lang == "cs":
                # Verbatim: @"..." / $@"..." / @$"..."
                b = i - 1
                prefix = ""
                while b >= 0 and text[b] in "@$":
                    prefix = text[b] + prefix
                    b -= 1
                if "@" in prefix:
                    k = i + 1
                    while True:
                        k = text.find('"', k)
                        if k < 0:
                            report("unterminated-string", i, "verbatim string not closed")
                            k = n
                            break
                        if text[k + 1 : k + 2] == '"':
                            k += 2
                            continue
                        k += 1
                        break
                    i = k
                    continue
                if text[i : i + 3] == '"""':
                    k = text.find('"""', i + 3)
                    if k < 0:
                        report("unterminated-string", i, "raw string not closed")
                        i = n
                    else:
                        k += 3
                        while k < n and text[k] == '"':
                            k += 1
                        i = k
                    continue
            if lang == "java" and text[i : i + 3] == '"""':
                # Text block
                k = i + 3
                while k < n:
                    if text[k] == "\\":
                        k += 2
                        continue
                    if text[k : k + 3] == '"""':
                        break
                    k += 1
                if k >= n:
                    report("unterminated-string", i, "text block not closed")
                    i = n
                else:
                    i = k + 3
                continue
            if lang == "cpp":
                # Raw string: R"delim( ... )delim" with an optional encoding prefix
                b = i - 1
                if b >= 0 and text[b] == "R":
                    w = b
                    while w > 0 and is_ident_char(text[w - 1]):
                        w -= 1
                    if text[w:b] in ("", "u8", "u", "U", "L"):
                        m = re.compile(r'"([^()\\ \t\n\r]{0,16})\(').match(text, i)
                        if m is not None:
                            closing = ")" + m.group(1) + '"'
                            k = text.find(closing, m.end())
                            if k < 0:
                                report("unterminated-string", i, "raw string not closed")
                                i = n
                            else:
                                i = k + len(closing)
                            continue
            i = scan_quoted(i, '"', "string literal")
            continue

        if c == "'":
            if lang == "ts":
                i = scan_quoted(i, "'", "string literal")
                continue
            if lang == "cpp" and i > 0 and (text[i - 1].isalnum() or text[i - 1] == "_"):
                w = i
                while w > 0 and (text[w - 1].isalnum() or text[w - 1] in "_'."):
                    w -= 1
                word = text[w:i]
                if word[:1].isdigit():
                    # A digit separator
                    i += 1
                    continue
                if word not in ("u8", "u", "U", "L"):
                    report("illegal-char", i, "apostrophe directly after the word %r" % word)
                    i += 1
                    continue
            i = scan_quoted(i, "'", "character literal")
            continue

        if c == "`":
            if lang == "go":
                k = text.find("`", i + 1)
                if k < 0:
                    report("unterminated-string", i, "raw string not closed")
                    i = n
                else:
                    i = k + 1
                continue
            if lang == "ts":
                i = scan_template(i + 1)
                continue
        # endregion

        # region Regular expression literals of TypeScript
        if c == "/" and lang == "ts":
            prev, word = prev_significant(i)
            if prev == "" or prev in "(,=:[!&|?{};+-*%<>~^" or word in _TS_REGEX_KEYWORDS:
                k = i + 1
                in_class = False
                closed = False
                while k < n and text[k] not in nl:
                    ch = text[k]
                    if ch == "\\":
                        k += 2
                        continue
                    if ch == "[":
                        in_class = True
                    elif ch == "]":
                        in_class = False
                    elif ch == "/" and not in_class:
                        closed = True
                        break
                    k += 1
                if not closed:
                    report("unterminated-string", i, "regular expression literal not closed")
                    i = k
                else:
                    i = k + 1
                continue
            i += 1
            continue
        # endregion

        note_code(c, i)

        if c == "*" and text[i + 1 : i + 2] == "/" and text[i + 1 : i + 3] not in ("/*", "//"):
            report("stray-comment-closer", i, "'*/' in the code")
            i += 2
            continue

        # region Brackets
        if c in _OPEN:
            if lang == "go" and c == "{" and go_map_literal_opens(i):
                map_literals[i] = [False, False]
            stack.append((c, i))
            i += 1
            continue
        if c in _CLOSE:
            if not stack:
                report("stray-closer", i, "%r closes nothing" % c)
                i += 1
                continue
            top, top_pos = stack[-1]
            if c == "}" and top == "${":
                stack.pop()
                i = scan_template(i + 1)
                continue
            if top != _CLOSE[c]:
                report(
                    "unbalanced-bracket",
                    i,
                    "%r closes %r opened at line %d" % (c, top, line_of(top_pos)),
                )
                # Recover: pop if the matching opener is further down the stack.
                for depth in range(len(stack) - 1, -1, -1):
                    if stack[depth][0] == _CLOSE[c]:
                        del stack[depth:]
                        break
                i += 1
                continue
            stack.pop()
            i += 1
            continue
        # endregion

        if c == "\\" and lang == "cpp":
            # Only a line continuation is possible.
            k = i + 1
            while k < n and text[k] in " \t":
                k += 1
            if k < n and text[k] not in nl:
                report("illegal-char", i, "backslash in the code")
            i += 1
            continue

        if c in illegal:
            report("illegal-char", i, "%r in the code" % c)
            i += 1
            continue

        o = ord(c)
        if o < 32 or o == 127:
            if not (c in "\f\v" or (c == "\x1a" and i == n - 1)):
                report("illegal-char", i, "control character U+%04X in the code" % o)
            i += 1
            continue

        i += 1

    for bracket, pos in stack:
        report("unbalanced-bracket", pos, "%r never closed" % bracket)
    for cond in conditionals:
        report("unbalanced-bracket", cond["pos"], "#if never closed")

    if info is not None:
        parts: List[str] = []
        last = 0
        for start, end in comment_spans:
            parts.append(text[last:start])
            last = end
        parts.append(text[last:])
        info["skeleton"] = re.sub(r"\s+", " ", " ".join(parts)).strip()

    return problems


# ---------------------------------------------------------------------------------------
# Further specific judges
# ---------------------------------------------------------------------------------------


def csharp_doc_comment_problems(text: str) -> List[Tuple[int, str]]:
    """Parse every run of ``///`` lines as XML; list ``(first line of the run, error)``."""
    problems: List[Tuple[int, str]] = []
    run: List[str] = []
    run_start = 0
    # C# line terminators (a ``///`` comment ends at any of them).
    lines = re.split("\r\n|[\n\r\u0085\u2028\u2029]", text)

    def flush() -> None:
        if not run:
            return
        xml_text = "<root>" + "\n".join(run) + "</root>"
        try:
            ET.fromstring(xml_text)
        except ET.ParseError as err:
            row, col = err.position
            run_lines = xml_text.split("\n")
            offending = run_lines[row - 1] if 0 < row <= len(run_lines) else ""
            problems.append(
                (run_start, "%s; offending line of the run: %r" % (err, offending[:160]))
            )
        except ValueError as err:
            problems.append((run_start, "not encodable: %s" % err))

    for lineno, line in enumerate(lines, start=1):
        stripped = line.strip(" \t")
        if stripped.startswith("///"):
            if not run:
                run_start = lineno
            body = stripped[3:]
            if body.startswith(" "):
                body = body[1:]
            run.append(body)
        else:
            flush()
            run = []
    flush()
    return problems


_JAVAC_LINE_RE = re.compile(r"^(?P<path>.+?\.java):(?P<line>\d+): (?P<level>error|warning): (?P<msg>.*)$")


def javac_parse_only(
    files: Sequence[pathlib.Path], work: pathlib.Path, timeout: float = 600.0
) -> Tuple[Dict[str, List[Tuple[int, str]]], Optional[str]]:
    """Parse ``files`` with one javac call (no attribution). Give path -> [(line, message)].

    The second member is a description of a harness-level trouble (javac missing, time-out).
    """
    work.mkdir(parents=True, exist_ok=True)
    javac = shutil.which("javac")
    if javac is None:
        return {}, "javac not found"
    if not files:
        return {}, None
    argfile = work / "files.txt"
    with argfile.open("w", encoding="utf-8") as fid:
        for p in files:
            fid.write('"%s"\n' % str(p).replace("\\", "\\\\"))
    cls = work / "cls"
    cls.mkdir(exist_ok=True)
    cmd = [
        javac,
        "-proc:none",
        "-Xlint:none",
        "-nowarn",
        "-encoding",
        "UTF-8",
        "-XDshould-stop.ifError=PARSE",
        "-XDshould-stop.ifNoError=PARSE",
        "-XDshould-stop.at=PARSE",
        "-Xmaxerrs",
        "100000",
        "-J-Duser.language=en",
        "-d",
        str(cls),
        "@" + str(argfile),
    ]
    try:
        proc = subprocess.run(
            cmd, stdout=subprocess.PIPE, stderr=subprocess.STDOUT, timeout=timeout
        )
    except subprocess.TimeoutExpired:
        return {}, "javac timed out"
    output = proc.stdout.decode("utf-8", errors="replace")
    by_path: Dict[str, List[Tuple[int, str]]] = {}
    unparsed: List[str] = []
    for line in output.splitlines():
        m = _JAVAC_LINE_RE.match(line)
        if m is None:
            continue
        if m.group("level") != "error":
            continue
        by_path.setdefault(m.group("path"), []).append((int(m.group("line")), m.group("msg")))
    if proc.returncode != 0 and not by_path:
        return {}, "javac failed without a parsable diagnostic: " + output[:2000]
    return by_path, None


# ---------------------------------------------------------------------------------------
# check_tree
# ---------------------------------------------------------------------------------------


def _read(path: pathlib.Path) -> Tuple[Optional[str], Optional[str]]:
    data = path.read_bytes()
    try:
        # newline translation must not happen, hence no read_text
        return data.decode("utf-8"), None
    except UnicodeDecodeError as err:
        return None, str(err)


#: (target, suffix, digest of the content) -> [(sig, what)]; most of the generated files do not
#: depend on the descriptions, so the same content is judged over and over again.
_VERDICTS: Dict[Tuple[str, str, bytes], List[Tuple[str, str]]] = {}

#: (target, suffix, digest of the content) -> digest of the code without comments / docstrings
_SKELETONS: Dict[Tuple[str, str, bytes], Optional[bytes]] = {}


def python_skeleton(text: str) -> Optional[str]:
    """Dump the syntax tree of ``text`` without the string statements (docstrings)."""
    try:
        tree = ast.parse(text)
    except (SyntaxError, ValueError):
        return None
    for node in ast.walk(tree):
        body = getattr(node, "body", None)
        if isinstance(body, list):
            kept = [
                stmt
                for stmt in body
                if not (
                    isinstance(stmt, ast.Expr)
                    and isinstance(stmt.value, ast.Constant)
                    and isinstance(stmt.value.value, str)
                )
            ]
            node.body = kept  # type: ignore
    return ast.dump(tree, annotate_fields=False, include_attributes=False)


def skeleton_of(target: str, path: pathlib.Path) -> Optional[bytes]:
    """Give the digest of the code of ``path`` without comments (``None`` if not applicable)."""
    suffix = path.suffix
    if suffix != ".py" and suffix not in LEXED_SUFFIXES:
        return None
    key = (target, suffix, hashlib.sha1(path.read_bytes()).digest())
    if key not in _SKELETONS:
        check_file_without_compiler(target, path, path.name)
    return _SKELETONS.get(key)


def check_file_without_compiler(target: str, path: pathlib.Path, rel: str) -> List[Dict[str, str]]:
    """Judge one file with the in-process judges."""
    suffix = path.suffix
    if suffix not in (".py", ".json", ".xsd", ".xml") and suffix not in LEXED_SUFFIXES:
        return []
    key = (target, suffix, hashlib.sha1(path.read_bytes()).digest())
    verdict = _VERDICTS.get(key)
    if verdict is None:
        verdict = [(p["sig"], p["what"]) for p in _judge_file(target, path, rel, key)]
        if len(_VERDICTS) > 200000:
            _VERDICTS.clear()
            _SKELETONS.clear()
        _VERDICTS[key] = verdict
    return [{"file": rel, "sig": sig, "what": what} for sig, what in verdict]


def _judge_file(
    target: str, path: pathlib.Path, rel: str, key: Tuple[str, str, bytes]
) -> List[Dict[str, str]]:
    problems: List[Dict[str, str]] = []
    _SKELETONS[key] = None
    suffix = path.suffix

    def add(sig: str, what: str) -> None:
        problems.append({"file": rel, "sig": sig, "what": what})

    text, err = _read(path)
    if text is None:
        add("C20:file:%s:utf-8" % target, "the file is not UTF-8: %s" % err)
        return problems

    if suffix == ".py":
        try:
            ast.parse(text)
        except (SyntaxError, ValueError) as exc:
            line = getattr(exc, "lineno", None)
            add(
                "C20:file:python:ast.parse",
                "ast.parse: %s at line %s: %r"
                % (exc, line, (getattr(exc, "text", "") or "")[:160]),
            )
        dumped = python_skeleton(text)
        if dumped is not None:
            _SKELETONS[key] = hashlib.sha1(dumped.encode("utf-8", "surrogatepass")).digest()
    elif suffix == ".json":
        try:
            json.loads(text)
        except ValueError as exc:
            add("C20:file:%s:json.loads" % target, "json.loads: %s" % exc)
    elif suffix in (".xsd", ".xml"):
        try:
            ET.parse(str(path))
        except ET.ParseError as exc:
            add("C20:file:%s:xml-parse" % target, "ElementTree.parse: %s" % exc)
    else:
        lang = LEXED_SUFFIXES[suffix]
        seen = set()
        info: Dict[str, Any] = {}
        lexed = balance(text, lang, info=info)
        _SKELETONS[key] = hashlib.sha1(info["skeleton"].encode("utf-8", "surrogatepass")).digest()
        for kind, line, detail in lexed:
            if kind in seen:
                continue
            seen.add(kind)
            if kind == "comment-splice":
                sig = "C20:file:cpp:comment-splice"
            else:
                sig = "C20:file:%s:balance:%s" % (_SIG_LANG[lang], kind)
            add(sig, "line %d: %s" % (line, detail))
        if lang == "cs":
            for line, detail in csharp_doc_comment_problems(text)[:1]:
                add("C20:file:csharp:doc-xml", "doc comment starting at line %d: %s" % (line, detail))
    return problems


def _files_of(out: pathlib.Path) -> List[pathlib.Path]:
    return sorted(p for p in out.rglob("*") if p.is_file())


class JavacBatcher:
    """Parse Java trees with javac in a worker thread, batch by batch.

    Files with the same content are parsed only once over all the batches (nothing is
    attributed, so duplicate classes do not matter).
    """

    def __init__(self, work: pathlib.Path) -> None:
        import queue
        import threading

        self.work = work
        self.trouble: Optional[str] = None
        self.seconds = 0.0
        self.batches = 0
        #: digest -> the first error ``(line, message, number of errors, offending line)``
        self._verdict: Dict[bytes, Optional[Tuple[int, str, int, str]]] = {}
        #: digest -> [(key, relative path)]
        self._owners: Dict[bytes, List[Tuple[Any, str]]] = {}
        self._queue: "queue.Queue[Optional[List[Tuple[Any, pathlib.Path]]]]" = queue.Queue()
        self._thread = threading.Thread(target=self._loop, daemon=True)
        self._thread.start()

    def submit(self, roots: Sequence[Tuple[Any, pathlib.Path]]) -> None:
        """Enqueue the trees ``(key, root)``; they must exist until :meth:`finish` returns."""
        if roots:
            self._queue.put(list(roots))

    def _loop(self) -> None:
        import time

        while True:
            job = self._queue.get()
            if job is None:
                return
            started = time.time()
            try:
                self._parse(job)
            except Exception as exc:  # noqa
                self.trouble = (self.trouble or "") + " javac job crashed: %r" % (exc,)
            self.seconds += time.time() - started

    def _parse(self, roots: Sequence[Tuple[Any, pathlib.Path]]) -> None:
        to_parse: Dict[str, bytes] = {}
        for key, root in roots:
            for p in _files_of(root):
                if p.suffix != ".java":
                    continue
                digest = hashlib.sha1(p.read_bytes()).digest()
                self._owners.setdefault(digest, []).append((key, str(p.relative_to(root))))
                if digest not in self._verdict:
                    self._verdict[digest] = None
                    to_parse[str(p)] = digest
        if not to_parse:
            return
        self.batches += 1
        by_path, trouble = javac_parse_only(
            [pathlib.Path(q) for q in sorted(to_parse)], self.work / ("batch%d" % self.batches)
        )
        if trouble is not None:
            self.trouble = (self.trouble or "") + " " + trouble
        for path, errors in by_path.items():
            if path not in to_parse:
                self.trouble = (self.trouble or "") + " javac named an unknown file: %s" % path
                continue
            line, msg = errors[0]
            try:
                content = pathlib.Path(path).read_text(encoding="utf-8", errors="replace").split("\n")
            except OSError:
                content = []
            offending = content[line - 1][:160] if 0 < line <= len(content) else ""
            self._verdict[to_parse[path]] = (line, msg, len(errors), offending)

    def finish(self) -> Tuple[Dict[Any, List[Dict[str, str]]], Optional[str]]:
        """Wait for the worker; give key -> problems and a harness-level trouble, if any."""
        self._queue.put(None)
        self._thread.join()
        result: Dict[Any, List[Dict[str, str]]] = {}
        for digest, verdict in self._verdict.items():
            if verdict is None:
                continue
            # Only the first error of a file is reported: the others are mostly its consequences.
            line, msg, count, offending = verdict
            for key, rel in self._owners.get(digest, []):
                result.setdefault(key, []).append(
                    {
                        "file": rel,
                        "sig": "C20:file:java:javac:" + _slug(msg),
                        "what": "javac: line %d: %s (%d error(s) in the file): %r"
                        % (line, msg, count, offending),
                    }
                )
        shutil.rmtree(self.work, ignore_errors=True)
        return result, self.trouble


def _javac_problems(
    roots: Sequence[Tuple[Any, pathlib.Path]], work: pathlib.Path
) -> Tuple[Dict[Any, List[Dict[str, str]]], Optional[str]]:
    """Run one javac over the trees ``(key, root)``; give key -> problems."""
    batcher = JavacBatcher(work)
    batcher.submit(roots)
    return batcher.finish()


def check_tree(
    target: str, out: pathlib.Path, work: pathlib.Path, use_compilers: bool = True
) -> List[Dict[str, str]]:
    """Judge all the files below ``out``; each problem is ``{"file", "sig", "what"}``."""
    out = pathlib.Path(out)
    problems: List[Dict[str, str]] = []
    has_java = False
    for p in _files_of(out):
        rel = str(p.relative_to(out))
        if p.suffix == ".java":
            has_java = True
        problems.extend(check_file_without_compiler(target, p, rel))
    if has_java and use_compilers:
        by_key, trouble = _javac_problems([(0, out)], pathlib.Path(work) / "javac")
        problems.extend(by_key.get(0, []))
        if trouble is not None:
            problems.append({"file": "", "sig": "C20:harness:javac", "what": trouble})
    return problems


def count_checked_files(out: pathlib.Path) -> int:
    return sum(
        1
        for p in _files_of(out)
        if p.suffix in LEXED_SUFFIXES or p.suffix in (".py", ".json", ".xsd", ".xml")
    )


# ---------------------------------------------------------------------------------------
# Self-test on the golden outputs of the repository
# ---------------------------------------------------------------------------------------


def selftest_on_goldens(verbose: bool = True) -> List[Dict[str, str]]:
    """Run the in-process judges on all the recorded outputs; they must all pass."""
    root = _repo() / "dev/test_data/main"
    problems: List[Dict[str, str]] = []
    counts: Dict[str, int] = {}
    for target in TARGETS:
        for out in sorted((root / target / "expected").glob("*/expected_output")):
            for p in _files_of(out):
                if p.suffix not in LEXED_SUFFIXES and p.suffix not in (".py", ".json", ".xsd", ".xml"):
                    continue
                counts[p.suffix] = counts.get(p.suffix, 0) + 1
                rel = str(p.relative_to(root))
                problems.extend(check_file_without_compiler(target, p, rel))
    if verbose:
        print("selftest_on_goldens: files judged per suffix: %s" % sorted(counts.items()))
        for problem in problems:
            print("  GOLDEN PROBLEM %(file)s %(sig)s %(what)s" % problem)
        print("selftest_on_goldens: %d problem(s)" % len(problems))
    return problems


# ---------------------------------------------------------------------------------------
# Nasty descriptions
# ---------------------------------------------------------------------------------------

_BS = "\\"  # a single backslash


def _nasty() -> List[Tuple[str, str]]:
    """List (name, reST text). The texts are reST: ``\\\\`` in reST gives one backslash."""
    r: List[Tuple[str, str]] = []

    def add(name: str, text: str) -> None:
        r.append((name, text))

    # region Quotes
    add("ends-dquote", 'Say "hi"')
    add("ends-two-dquotes", 'Say "hi""')
    add("only-quoted", '"hi"')
    add("ends-dquote-newline", 'Say "hi"\n')
    add("triple-dquote-middle", 'Say """ in the middle.')
    add("ends-triple-dquote", 'Say """')
    add("ends-four-dquotes", 'Say """"')
    add("ends-squote", "Say 'hi'")
    add("triple-squote-middle", "Say ''' in the middle.")
    add("ends-triple-squote", "Say '''")
    add("ends-backslash-dquote", "Say " + _BS * 2 + '"')
    add("ends-literal-backslash-dquote", "Say ``" + _BS + '"``')
    add("mixed-quotes", "Say \"it's\" and 'the \"thing\"' twice.")
    # endregion

    # region Comment delimiters
    add("star-slash-middle", "Compute a*/b here.")
    add("star-slash-literal", "Use ``*/`` to close.")
    add("star-slash-escaped", "Use " + _BS + "*/ to close.")
    add("slash-star", "Open /* and do not close.")
    add("star-slash-end", "Close the comment a*/")
    add("star-slash-literal-end", "Close with ``*/``")
    add("slash-star-and-star-slash", "Both /* and a*/ appear, and /** too, and //.")
    add("emphasis-then-slash", "Take *a*/b here.")
    add("literal-star-then-slash", "Take ``a*``/b here.")
    add("starts-with-slash", "/starts with a slash.")
    add("line-starts-with-slash", "First line\n/second line starts with a slash.")
    add("line-starts-with-star-slash", "First line a\n" + _BS + "*/ second line.")
    add("double-slash", "See http://example.com//x and // this.")
    add("triple-slash-line", "First line\n/// second line.")
    # endregion

    # region Backslashes
    add("backslash-end", "Ends in a backslash " + _BS * 2)
    add("backslash-end-literal", "Ends in ``a" + _BS + "``")
    add("backslash-end-of-middle-line", "First line ends in " + _BS * 2 + "\nsecond line.")
    add("backslash-end-of-middle-line-literal", "First line ends in ``a" + _BS + "``\nsecond line.")
    add("two-backslashes-end", "Ends in two backslashes " + _BS * 4)
    add("windows-path-users", "Find it at C:" + _BS * 2 + "users" + _BS * 2 + "unit here.")
    add("windows-path-Users", "Find it at C:" + _BS * 2 + "Users" + _BS * 2 + "New here.")
    add("backslash-x", "Find it at C:" + _BS * 2 + "xyz here.")
    add("backslash-N", "Name it " + _BS * 2 + "N{no such name} here.")
    add("backslash-digit", "Group " + _BS * 2 + "1 and " + _BS * 2 + "0 and " + _BS * 2 + "8 here.")
    add("backslash-u-star-slash", "Try " + _BS * 2 + "u002a/ now.")
    add("backslash-u-star-slash-literal", "Try ``" + _BS + "u002a/`` now.")
    add("backslash-uu", "Try " + _BS * 2 + "uu002a/ and " + _BS * 2 + "u000a and " + _BS * 2 + "u0022 now.")
    add("backslash-u-end", "Ends in " + _BS * 2 + "u")
    add("backslash-newline-n", "Write " + _BS * 2 + "n and " + _BS * 2 + "t and " + _BS * 2 + "r.")
    # endregion

    # region XML
    add("xml-specials", "Use & and < and > here.")
    add("xml-comment-end", "Arrow --> there.")
    add("xml-comment-start", "Comment <!-- here.")
    add("xml-double-dash", "A -- B and --- C.")
    add("xml-cdata-end", "Use ]]> here.")
    add("xml-cdata-start", "Use <![CDATA[ here.")
    add("xml-summary-tag", "Tag <summary> here.")
    add("xml-summary-end-tag", "Tag </summary> here </remarks> and <para/>.")
    add("xml-entity", "Entity &amp; and &lt; and &nosuch; and &#0; and &#x1; here.")
    add("xml-pi", "Instruction <?xml version='1.0'?> here.")
    add("xml-in-literal", "Use ``<a href=\"x\">&amp;</a>`` here.")
    # endregion

    # region Control and special characters
    add("ctrl-0001", "Bell \x01 here.")
    add("ctrl-001f", "Unit \x1f separator.")
    add("ctrl-001b", "Escape \x1b[31m here.")
    add("ctrl-0008", "Backspace \x08 here.")
    add("ctrl-007f", "Delete \x7f here.")
    add("ctrl-0085-glued", "Next line a\x85b here.")
    add("ctrl-2028", "Line sep a\u2028b here.")
    add("ctrl-2029", "Paragraph sep a\u2029b here.")
    add("ctrl-vt-ff", "Tab a\x0bb and feed a\x0cb here.")
    add("ctrl-fs-gs-rs", "Seps a\x1cb a\x1db a\x1eb here.")
    add("lone-cr", "Carriage a\rb return.")
    add("crlf", "Line one\r\nline two\r\nline three.")
    add("tab", "Tab a\tb here\tand\tthere.")
    add("nbsp-bom-zwsp", "No\u00a0break and \ufeff and zero\u200bwidth.")
    add("nonchar-fffe", "Bad \ufffe and \uffff here.")
    add("astral", "Emoji \U0001F600 and \U0010FFFF here.")
    add("rtl-override", "Override \u202e here \u202c.")
    add("lone-surrogate", "Bad \ud800 here.")
    # endregion

    # region Interpolation, formats, annotations
    add("dollar-brace", "Costs ${x} and $ y and $x and #{z}.")
    add("dollar-brace-in-literal", "Use ``${x}`` and ``$`` and ``#{y}`` here.")
    add("backtick-escaped", "Use " + _BS + "` alone and " + _BS + "`${x}" + _BS + "` here.")
    add("hash-line-start", "First line\n# second line starts with a hash.")
    add("hash-define", "First line\n#define X (\n#if 0")
    add("javadoc-tags", "Use {@code x} and {@link x} and @param y and {@literal a*/}.")
    add("javadoc-tag-line-start", "First line\n@param x second line\n@deprecated third line.")
    add("unbalanced-brace", "Open { and {@code never closed.")
    add("unbalanced-closers", "Close } and ) and ] here.")
    add("format-specifiers", "Use %s and {0} and {{ and }} and %d and %% and % here.")
    add("long-word", "Long " + "x" * 150 + " word.")
    add("long-word-with-specials", "Long " + "a*/b<&\"'" * 25 + " word.")
    add("at-sign-start", "@param x is not a field.")
    # endregion

    nasty_inline = (
        'a*/b /* " \' """ & < > --> ]]> <summary> ${x} {@code y} %s {0} '
        + "C:" + _BS * 2 + "users " + _BS * 2 + "u002a/ ``*/`` ``a" + _BS + "``"
    )
    add(
        "multi-paragraph",
        "Summarize " + nasty_inline + "\n\n"
        "Remark " + nasty_inline + "\nsecond line " + _BS * 2 + "\nthird line.\n\n"
        "* Bullet " + nasty_inline + "\n"
        "* Another *emphasized* bullet a*/\n\n"
        ".. note::\n\n"
        "    Note " + nasty_inline + "\n\n"
        "Final " + _BS * 2,
    )
    add(
        "multi-paragraph-quotes",
        'Say "hi"\n\nRemark "hi"\n\n* Bullet "hi"\n* Another "hi"\n\n.. note::\n\n    Note "hi"\n\nFinal "hi"',
    )
    add(
        "constraint-field",
        "Summarize something.\n\n:constraint AASd-001:\n    Constrain " + nasty_inline + "\n",
    )
    add(
        "references",
        "See :class:`Something` and :attr:`Something.text` and :attr:`Kind.Ok` "
        "and :const:`Default_text` with a*/b.",
    )
    add(
        "rejected-literal-block",
        "Summarize something::\n\n    code */ \"\"\" " + _BS + " <&>\n    more " + _BS + "\n\nFinal.",
    )

    # region Presumably rejected by docutils
    add("rejected-lone-star", "A lone *star starts emphasis.")
    add("rejected-lone-backtick", "A lone `backtick starts a role.")
    add("rejected-star-slash-after-space", "Close */ here.")
    add("rejected-bar", "A |substitution| here.")
    add("rejected-strong", "A **strong** word is not implemented.")
    add("ctrl-0085-spaced", "Next line \x85 here.")
    # endregion

    # region Where the renderers (not the comment wrappers) have to decide
    add("backtick-in-literal", "Use ``a`b`` and ``c```, here.")
    add("ends-vt", "Summarize something. \x0b")
    add("ends-ff-after-remark", "Summarize something.\n\nRemark on it \x0c")
    # endregion
    return r


NASTY: List[Tuple[str, str]] = _nasty()

#: The names of a subset of :py:data:`NASTY` for a quick run (one or two texts per root cause).
NASTY_QUICK_NAMES = [
    "ends-dquote", "ends-triple-dquote", "ends-triple-squote", "ends-backslash-dquote",
    "star-slash-middle", "star-slash-literal-end", "slash-star", "line-starts-with-star-slash",
    "backslash-end", "backslash-end-literal", "backslash-end-of-middle-line",
    "windows-path-Users", "backslash-x", "backslash-N", "backslash-u-star-slash-literal",
    "backslash-uu", "xml-specials", "xml-comment-end", "xml-cdata-end", "xml-summary-end-tag",
    "xml-entity", "ctrl-0001", "ctrl-007f", "ctrl-2028", "ctrl-0085-glued", "lone-cr", "crlf",
    "nonchar-fffe", "astral", "dollar-brace", "dollar-brace-in-literal", "hash-define",
    "javadoc-tags", "unbalanced-brace", "format-specifiers", "long-word-with-specials",
    "multi-paragraph", "constraint-field", "rejected-lone-star",
]
NASTY_QUICK: List[Tuple[str, str]] = [(nm, d) for nm, d in NASTY if nm in set(NASTY_QUICK_NAMES)]
assert len(NASTY_QUICK) == len(NASTY_QUICK_NAMES), "unknown name in NASTY_QUICK_NAMES"

#: Kept for the command line of this module (``--crashing``): the texts on which generators used to crash by design
#: (``assert "`" not in text`` in ``transform_literal`` of python / java / typescript / golang / cpp ``description.py``);
#: they are ordinary members of :py:data:`NASTY` now (the generators have to report an error or render them).
NASTY_CRASHING: List[Tuple[str, str]] = [(nm, d) for nm, d in NASTY if nm == "backtick-in-literal"]


# ---------------------------------------------------------------------------------------
# run
# ---------------------------------------------------------------------------------------


def _slug(msg: str) -> str:
    return re.sub(r"[^a-z0-9]+", "-", msg.lower()).strip("-")[:48]


#: The number of the descriptions whose Java trees are handed to one javac call.
JAVAC_BATCH = 48


def _fast_scratch(ctx: Any) -> Tuple[pathlib.Path, bool]:
    """Pick the directory for the generated trees; the flag tells whether we own (and remove) it.

    Each description gives ~200 files in ~60 directories; deleting them on the disk of this
    machine (ext4 mounted with ``discard``) costs more than generating and judging them, so a
    private directory in ``/dev/shm`` is preferred.  ``C20_FILES_SCRATCH=ctx`` forces
    ``ctx.scratch()``.
    """
    shm = pathlib.Path("/dev/shm")
    if os.environ.get("C20_FILES_SCRATCH", "") != "ctx" and shm.is_dir() and os.access(str(shm), os.W_OK):
        try:
            if shutil.disk_usage(str(shm)).free > (1 << 30):
                return pathlib.Path(tempfile.mkdtemp(prefix="c20_files_", dir=str(shm))), True
        except OSError:
            pass
    return pathlib.Path(ctx.scratch()), False


def skeletons_of_tree(target: str, out: pathlib.Path) -> Dict[str, Optional[bytes]]:
    """Map the relative paths of the judged files below ``out`` to their skeleton digests."""
    result: Dict[str, Optional[bytes]] = {}
    for p in _files_of(out):
        if p.suffix == ".py" or p.suffix in LEXED_SUFFIXES:
            result[str(p.relative_to(out))] = skeleton_of(target, p)
    return result


def skeleton_problems(
    target: str, out: pathlib.Path, baseline: Dict[str, Optional[bytes]]
) -> List[Dict[str, str]]:
    """Compare the code without the comments with the one generated for a harmless description.

    The descriptions end up only in comments and docstrings, so whatever they are, the rest of the
    code must not change.  A difference means that a part of a description leaked into the code
    (or swallowed some code).
    """
    problems: List[Dict[str, str]] = []
    mine = skeletons_of_tree(target, out)
    for rel in sorted(set(mine) | set(baseline)):
        lang = "python" if rel.endswith(".py") else _SIG_LANG[LEXED_SUFFIXES[pathlib.Path(rel).suffix]]
        if rel not in mine or rel not in baseline:
            problems.append(
                {
                    "file": rel,
                    "sig": "C20:file:%s:file-set" % lang,
                    "what": "the file is %s for the description, but %s for a harmless description"
                    % (
                        "generated" if rel in mine else "not generated",
                        "generated" if rel in baseline else "not generated",
                    ),
                }
            )
        elif mine[rel] is not None and baseline[rel] is not None and mine[rel] != baseline[rel]:
            problems.append(
                {
                    "file": rel,
                    "sig": "C20:file:%s:skeleton" % lang,
                    "what": "the code outside the comments and the docstrings differs from the code "
                    "generated for a harmless description",
                }
            )
    return problems


def run(ctx: Any, descs: Iterable[Tuple[str, str]], use_compilers: bool) -> None:
    """Generate and judge ``descs``; the Java trees are parsed by javac in a few batches.

    Two phases: (1) every description is generated and judged in-process, its Java tree is
    handed over to the javac worker (batches of ``JAVAC_BATCH`` descriptions, running in
    parallel to the generation); (2) the verdicts of javac are mapped back, everything is
    reported and removed.
    """
    import time

    scratch, owned = _fast_scratch(ctx)
    timing = os.environ.get("C20_FILES_TIMING") is not None
    t_all = time.time()
    t_generate = t_judge = 0.0
    try:
        batcher = JavacBatcher(scratch / "javac_work") if use_compilers else None

        # region Baseline for the skeleton comparison
        baseline: Dict[str, Dict[str, Optional[bytes]]] = {}
        if os.environ.get("C20_FILES_SKELETON", "1") != "0":
            started = time.time()
            baseline_dir = scratch / "baseline"
            for target, r in generate(PLAIN, baseline_dir, TARGETS, variant=0).items():
                if r["rc"] == 0:
                    baseline[target] = skeletons_of_tree(target, r["out"])
            shutil.rmtree(baseline_dir, ignore_errors=True)
            t_generate += time.time() - started
        # endregion
        pending_java: List[Tuple[int, pathlib.Path]] = []
        entries: List[Dict[str, Any]] = []

        for index, (name, desc) in enumerate(descs):
            base = scratch / ("d%04d" % index)
            if base.exists():
                shutil.rmtree(base)
            # An item is either a description for the fixed model or ``{"model": <complete meta-model>}``.
            model_text = desc["model"] if isinstance(desc, dict) else None
            entry: Dict[str, Any] = {"name": name, "desc": desc, "base": base, "accepted": False}
            entry["key"] = {"model": model_text, "name": name} if model_text is not None else {"desc": desc}
            entries.append(entry)

            # region Generate
            started = time.time()
            res: Dict[str, Dict[str, Any]] = {}
            variant = 0
            if model_text is not None:
                res = generate_model(model_text, base, TARGETS)
            else:
                # Fall back to the variants with the description at fewer positions if the front end
                # rejects the description at some position.
                for variant in VARIANTS:
                    res = generate(desc, base, TARGETS, variant=variant)
                    if any(r["rc"] == 0 or isinstance(r["rc"], str) for r in res.values()):
                        break
            entry["variant"] = variant
            t_generate += time.time() - started
            # endregion

            crashed = False
            for target, r in res.items():
                if isinstance(r["rc"], str):
                    crashed = True
                    ctx.fail(
                        dict(entry["key"], target=target, file=None, variant=variant),
                        "generation crashed: %s" % r["stderr"][-600:],
                        "C20:generate-crash:%s:%s" % (target, r["rc"].split(":", 1)[1]),
                    )
            if not any(r["rc"] == 0 for r in res.values()):
                if not crashed:
                    ctx.hit("rejected-by-front-end")
                ctx.count((name, model_text or desc), nontrivial=True, stream="whole-file")
                shutil.rmtree(base, ignore_errors=True)
                continue
            entry["accepted"] = True
            ctx.hit("accepted")
            ctx.hit("accepted-variant-%d" % variant if model_text is None else "accepted-shape-model")

            # region Judge in-process
            started = time.time()
            entry["problems"] = {}
            entry["checked"] = 0
            for target, r in res.items():
                if r["rc"] != 0:
                    continue
                entry["problems"][target] = check_tree(
                    target, r["out"], base / ("work_" + target), use_compilers=False
                )
                if target in baseline and model_text is None:
                    entry["problems"][target].extend(
                        skeleton_problems(target, r["out"], baseline[target])
                    )
                entry["checked"] += count_checked_files(r["out"])
                if target == "java" and batcher is not None:
                    pending_java.append((index, r["out"]))
                else:
                    shutil.rmtree(r["out"], ignore_errors=True)
            t_judge += time.time() - started
            # endregion

            if batcher is not None and len(pending_java) >= JAVAC_BATCH:
                batcher.submit(pending_java)
                pending_java = []

        java_problems: Dict[Any, List[Dict[str, str]]] = {}
        if batcher is not None:
            batcher.submit(pending_java)
            started = time.time()
            java_problems, trouble = batcher.finish()
            if timing:
                sys.stderr.write(
                    "c20_files: generation %.1f s, in-process judges %.1f s, javac %.1f s in %d "
                    "batch(es), waited %.1f s for it\n"
                    % (t_generate, t_judge, batcher.seconds, batcher.batches, time.time() - started)
                )
            if trouble is not None:
                ctx.fail({"desc": None, "target": "java", "file": None}, trouble, "C20:harness:javac")

        for index, entry in enumerate(entries):
            if not entry["accepted"]:
                continue
            for target, problems in entry["problems"].items():
                if target == "java":
                    problems = problems + java_problems.get(index, [])
                for problem in problems:
                    ctx.fail(
                        dict(entry["key"], target=target, file=problem["file"], variant=entry["variant"]),
                        problem["what"],
                        problem["sig"],
                    )
            ctx.hit("files-checked", entry["checked"])
            ctx.count((entry["name"], json.dumps(entry["key"], sort_keys=True)), nontrivial=True, stream="whole-file")
            shutil.rmtree(entry["base"], ignore_errors=True)
    finally:
        if owned:
            shutil.rmtree(scratch, ignore_errors=True)
    if timing:
        sys.stderr.write("c20_files: everything took %.1f s\n" % (time.time() - t_all))


class _FakeCtx:
    """A stand-in for the context of the runner (used by ``__main__``)."""

    def __init__(self, root: pathlib.Path, tier: str = "quick") -> None:
        import random

        self._root = root
        self.tier = tier
        self.rng = random.Random(0)
        self.failures: List[Tuple[Any, str, str]] = []
        self.hits: Dict[str, int] = {}
        self.counted: List[Any] = []

    def scratch(self) -> pathlib.Path:
        self._root.mkdir(parents=True, exist_ok=True)
        return self._root

    def fail(self, input: Any, what: str, sig: str) -> None:  # noqa
        self.failures.append((input, what, sig))
        print("FAIL %s\n     input=%r\n     %s" % (sig, input, what[:700]))

    def count(self, key: Any, nontrivial: bool = True, stream: str = "") -> None:
        self.counted.append(key)

    def hit(self, name: str, k: int = 1) -> None:
        self.hits[name] = self.hits.get(name, 0) + k


if __name__ == "__main__":
    import argparse
    import time

    parser = argparse.ArgumentParser()
    parser.add_argument("--selftest", action="store_true")
    parser.add_argument("--no-compilers", action="store_true")
    parser.add_argument("--only", nargs="*", help="names of the nasty descriptions")
    parser.add_argument("--quick", action="store_true", help="only NASTY_QUICK")
    parser.add_argument("--crashing", action="store_true", help="only NASTY_CRASHING")
    parser.add_argument("--scratch", default=None)
    args = parser.parse_args()

    if args.selftest:
        sys.exit(1 if selftest_on_goldens() else 0)

    root = pathlib.Path(args.scratch or tempfile.mkdtemp(prefix="c20_files_"))
    fake = _FakeCtx(root)
    pool = NASTY_CRASHING if args.crashing else (NASTY_QUICK if args.quick else NASTY)
    chosen = [(nm, d) for nm, d in pool if not args.only or nm in args.only]
    started = time.time()
    run(fake, chosen, use_compilers=not args.no_compilers)
    print("run over %d description(s) took %.1f s" % (len(chosen), time.time() - started))
    print("hits: %s" % sorted(fake.hits.items()))
    sigs: Dict[str, int] = {}
    for _, _, sig in fake.failures:
        sigs[sig] = sigs.get(sig, 0) + 1
    print("failures by sig: %s" % sorted(sigs.items()))
    if args.scratch is None:
        shutil.rmtree(root, ignore_errors=True)
    sys.exit(1 if fake.failures else 0)
